//! Lean child program of the C20 harness (same code as `e_c20 --child`, without the harness and
//! compio linked in, so that the thousands of spawns of one check run are cheap to exec).
#[path = "../proto.rs"]
#[allow(dead_code)]
mod proto;
#[path = "../child.rs"]
mod child;

fn main() {
    let argv: Vec<String> = std::env::args().collect();
    // accepts both `e_c20_child <socket>` and `e_c20_child --child <socket>`
    let path = argv.iter().skip(1).find(|a| !a.starts_with("--")).cloned().unwrap_or_default();
    child::main(&path);
}
