//! The exploration families (sub-alphabet x parameter sets x depth) per tier. Every family is
//! enumerated exhaustively; the families overlap on purpose (the full alphabet at a lower depth,
//! focused sub-alphabets deeper).
use vcore::Tier;

use crate::plan::{CAP, EXIT_MODES, ExitMode, Family, Letter::*};

pub fn families(tier: Tier) -> Vec<Family> {
    let sizes = vec![1, CAP - 1, CAP, CAP + 1, 2 * CAP];
    let q = tier == Tier::Quick;
    let base = Family {
        name: "",
        letters: vec![],
        depth: 0,
        sizes: sizes.clone(),
        chunks: vec![1, 4096, CAP],
        wlens: vec![1, 4096, CAP, CAP + 1, 2 * CAP],
        rlens: vec![1, CAP, 4 * CAP],
        modes: vec![],
        max_child_writes: 1,
        managed: false,
        max_polls: 3,
        max_child_reads: 2,
        output: false,
    };
    let mut v = Vec::new();
    // the whole alphabet, exit mode rotating
    v.push(Family {
        name: "full",
        letters: vec![CO, CE, CI, CX, RO, RE, WI, CL, WT, H],
        depth: tier.pick(3, 4),
        sizes: if q { vec![CAP + 1] } else { vec![1, CAP + 1] },
        chunks: vec![4096],
        wlens: if q { vec![2 * CAP] } else { vec![4096, 2 * CAP] },
        rlens: vec![4 * CAP],
        max_polls: 2,
        ..base.clone()
    });
    // stdout data path: payload size x read chunk x order of write / read / harvest / exit
    v.push(Family {
        name: "out",
        letters: vec![CO, RO, H, CX, CC],
        depth: tier.pick(3, 5),
        max_child_writes: tier.pick(1, 2),
        ..base.clone()
    });
    // stderr next to stdout
    v.push(Family {
        name: "outerr",
        letters: vec![CO, CE, RO, RE, H],
        depth: tier.pick(3, 5),
        sizes: if q { vec![CAP + 1] } else { vec![1, CAP + 1] },
        chunks: vec![CAP],
        max_polls: 2,
        ..base.clone()
    });
    // stdin path: write length x how much the child reads x order
    v.push(Family {
        name: "in",
        letters: vec![WI, CI, H, CL],
        depth: tier.pick(3, 5),
        wlens: if q { vec![4096, CAP + 1, 2 * CAP] } else { base.wlens.clone() },
        rlens: if q { vec![1, 4 * CAP] } else { vec![1, CAP, 4 * CAP] },
        ..base.clone()
    });
    // both directions at once, above the pipe capacity
    v.push(Family {
        name: "duplex",
        letters: vec![CO, WI, RO, CI, H],
        depth: tier.pick(4, 6),
        sizes: if q { vec![2 * CAP] } else { vec![CAP + 1, 2 * CAP] },
        chunks: vec![CAP],
        wlens: if q { vec![2 * CAP] } else { vec![CAP, 2 * CAP] },
        rlens: vec![4 * CAP],
        max_polls: 2,
        max_child_reads: 1,
        ..base.clone()
    });
    // wait vs. exit vs. buffered output, every exit mode
    v.push(Family {
        name: "status",
        letters: if q { vec![CO, CX, WT, H] } else { vec![CO, CX, RO, WT, H] },
        depth: tier.pick(3, 5),
        sizes: if q { vec![CAP + 1] } else { vec![1, CAP + 1] },
        chunks: vec![CAP],
        modes: EXIT_MODES.to_vec(),
        max_polls: tier.pick(2, 3),
        ..base.clone()
    });
    // Child::wait_with_output(): status and both outputs collected concurrently
    v.push(Family {
        name: "output",
        letters: vec![CO, CE, CX, WO, H],
        depth: tier.pick(3, 5),
        sizes: if q { vec![2 * CAP] } else { vec![1, CAP, 2 * CAP] },
        modes: if q { vec![ExitMode::Code(1), ExitMode::Signal(libc::SIGKILL)] } else { vec![ExitMode::Code(0), ExitMode::Code(255), ExitMode::Signal(libc::SIGTERM)] },
        max_polls: tier.pick(2, 3),
        output: true,
        ..base.clone()
    });
    // buffer-pool reads (AsyncReadManaged)
    v.push(Family {
        name: "managed",
        letters: vec![CO, RO, H, CX],
        depth: tier.pick(3, 4),
        sizes: vec![1, CAP + 1],
        chunks: vec![4096],
        managed: true,
        modes: vec![ExitMode::Code(0)],
        ..base.clone()
    });
    v
}
