//! The exploration families (sub-alphabets x parameter sets x depth) per tier.
use vcore::Tier;

use crate::plan::{CAP, EXIT_MODES, Family, Letter::*};

pub fn families(tier: Tier) -> Vec<Family> {
    let sizes = vec![1, CAP - 1, CAP, CAP + 1, 2 * CAP];
    let mut v = Vec::new();
    // A: everything at once, exit mode rotating
    v.push(Family {
        name: "full",
        letters: vec![CO, CE, CI, CX, RO, RE, WI, CL, WT, H],
        depth: tier.pick(5, 7),
        sizes: sizes.clone(),
        chunks: vec![1, 4096, CAP],
        wlens: vec![1, 4096, CAP, CAP + 1, 2 * CAP],
        rlens: vec![1, CAP, 4 * CAP],
        modes: vec![],
        max_child_writes: tier.pick(1, 2),
        managed: false,
    });
    // B: wait vs. exit vs. draining, all exit modes
    v.push(Family {
        name: "status",
        letters: vec![CO, CX, RO, WT, H],
        depth: tier.pick(5, 7),
        sizes: vec![1, CAP + 1],
        chunks: vec![CAP],
        wlens: vec![1],
        rlens: vec![1],
        modes: EXIT_MODES.to_vec(),
        max_child_writes: 1,
        managed: false,
    });
    v
}
