//! e_c20 — property C20: child processes, complete stdio and the real exit status.
//!
//! `e_c20 C20 <quick|thorough> [--replay file]`   the check
//! `e_c20 --child <socket>`                       child mode (spawned through compio-process)
//! `e_c20 --count`                                number of plans per family (no execution)
mod child;
mod families;
mod harness;
mod plan;
mod proto;
mod subject;

use std::{
    cell::RefCell,
    collections::BTreeMap,
    sync::{
        Mutex,
        atomic::{AtomicUsize, Ordering},
    },
};

use plan::Plan;
use subject::Drv;
use vcore::{Chooser, Report, Tier, Violation, json};

static WORKER_IDS: AtomicUsize = AtomicUsize::new(0);

thread_local! {
    static WORKER: RefCell<Option<harness::Worker>> = const { RefCell::new(None) };
}

fn with_worker<T>(f: impl FnOnce(&mut harness::Worker) -> T) -> T {
    WORKER.with(|w| {
        let mut w = w.borrow_mut();
        if w.is_none() {
            *w = Some(harness::Worker::new(WORKER_IDS.fetch_add(1, Ordering::SeqCst)));
        }
        f(w.as_mut().unwrap())
    })
}

fn drop_worker() {
    WORKER.with(|w| *w.borrow_mut() = None);
}

struct Found {
    plan: Plan,
    what: String,
    hist: Vec<String>,
    count: u64,
}

const TOKENS: &[&str] = &[
    "Rout:P", "Rout:short", "Rout:full", "Rout:eof", "Rerr:P", "Rerr:eof", "WI:P", "WI:full", "WI:partial", "WT:P", "WT:exit0", "WT:exit1",
    "WT:exit255", "WT:sig15", "WT:sig9", "Cout:part", "Cout:all", "CI:full", "CI:short", "CX", "CL", "WI:epipe",
];

fn drivers() -> Vec<Drv> {
    match std::env::var("C20_DRIVERS").ok().as_deref() {
        Some("iour") => vec![Drv::IoUring],
        Some("poll") => vec![Drv::Poll],
        _ => vec![Drv::IoUring, Drv::Poll],
    }
}

fn run_check(args: vcore::Args) -> ! {
    let tier = args.tier;
    let rep = Report::new(&args.property, tier);
    let fams = families::families(tier);
    let drvs = drivers();
    // 1. enumerate all plans (pure)
    let mut plans: Vec<Plan> = Vec::new();
    let mut per_family = serde_json_map();
    for f in &fams {
        for &d in &drvs {
            let (p, capped) = plan::all_plans(f, d, u64::MAX);
            if capped {
                rep.cap_hit(&format!("plan enumeration of family {} capped", f.name));
            }
            per_family.insert(format!("{}:{}", f.name, d.name()), json!(p.len()));
            plans.extend(p);
        }
    }
    // development aid: C20_STRIDE=k runs every k-th plan only (never exhaustive, recorded as a cap)
    if let Some(k) = std::env::var("C20_STRIDE").ok().and_then(|s| s.parse::<usize>().ok()) {
        let off = std::env::var("C20_OFFSET").ok().and_then(|s| s.parse::<usize>().ok()).unwrap_or(0);
        plans = plans.into_iter().enumerate().filter(|(i, _)| i % k == off % k).map(|(_, p)| p).collect();
        rep.cap_hit(&format!("C20_STRIDE={k}: only every {k}-th plan executed"));
    }
    rep.extra(
        "bounds",
        json!({
            "pipe_capacity": plan::CAP,
            "families": fams.iter().map(|f| json!({
                "name": f.name, "depth": f.depth, "letters": format!("{:?}", f.letters),
                "child_write_sizes": f.sizes, "read_chunks": f.chunks, "write_lens": f.wlens, "child_read_lens": f.rlens,
                "exit_modes": if f.modes.is_empty() { "rotating over exit0,exit1,exit255,SIGTERM,SIGKILL".to_string() } else { format!("{:?}", f.modes) },
                "max_child_writes_per_stream": f.max_child_writes, "managed_reads": f.managed,
            })).collect::<Vec<_>>(),
            "drivers": drvs.iter().map(|d| d.name()).collect::<Vec<_>>(),
            "plans": per_family,
            "wait_path": if cfg!(feature = "pidfd") { "pidfd (PollOnce on the pidfd, then wait)" } else { "blocking pool (spawn_blocking(child.wait()))" },
            "watchdog_ms": harness::WATCHDOG.as_millis() as u64,
        }),
    );
    rep.rule(
        "every plan = (family, driver, [exit mode,] step sequence of length <= depth with a 'stop' alternative at every position, parameters chosen at first use) \
         is enumerated by vcore::explore over a pure planner (enabledness depends on the commanded history only) and executed once on the real compio-process/\
         compio-runtime/compio-driver code with a fresh runtime and a fresh child process, followed by a canonical epilogue (deliver everything, end the child, read \
         to EOF, wait). states = executions; transitions = harness steps incl. epilogue; distinct_nontrivial = distinct sequences of per-step observation classes",
    );
    rep.assume("the child's stdio descriptors are O_NONBLOCK on the child's side only; the child acts only on harness commands (control socket) and acks each");
    rep.assume("Linux pipe semantics (capacity 65536, POLLOUT = a free slot) are the real kernel's, not modelled");
    for t in ["Rout:P", "Rout:short", "Rout:full", "Rout:eof", "Rerr:eof", "WI:P", "WI:full", "WT:P", "WT:exit0", "WT:exit255", "WT:sig15", "WT:sig9", "Cout:part", "CI:full"] {
        rep.must_reach(t);
    }

    let found: Mutex<BTreeMap<String, Found>> = Mutex::new(BTreeMap::new());
    let mach: Mutex<Vec<String>> = Mutex::new(Vec::new());
    let nthreads = vcore::threads();
    vcore::par_for_each_n(&plans, nthreads, |_, p| {
        if mach.lock().unwrap().len() > 20 {
            return;
        }
        let r = with_worker(|w| harness::execute(w, p));
        if let Some(m) = r.machinery {
            mach.lock().unwrap().push(m);
            // the worker may be in an undefined state: start over with a new one
            drop_worker();
            return;
        }
        rep.add_execution(r.steps);
        rep.outcome(r.sig.clone());
        for t in r.sig.split(' ') {
            if TOKENS.contains(&t) {
                rep.count(t, 1);
            }
        }
        for c in &r.counters {
            rep.count(c, 1);
        }
        rep.sample(6, || json!({"plan": p.describe(), "history": r.hist}));
        if !r.vios.is_empty() {
            let mut g = found.lock().unwrap();
            for (k, w) in r.vios {
                let better = match g.get(&k) {
                    None => true,
                    Some(f) => f.plan.steps.len() > p.steps.len(),
                };
                let cnt = g.get(&k).map(|f| f.count).unwrap_or(0) + 1;
                if better {
                    g.insert(k, Found { plan: p.clone(), what: w, hist: r.hist.clone(), count: cnt });
                } else {
                    g.get_mut(&k).unwrap().count = cnt;
                }
            }
        }
    });
    // thread-local workers of the pool threads are gone with their threads

    let machs = mach.into_inner().unwrap();
    if !machs.is_empty() {
        for m in machs.iter().take(5) {
            eprintln!("MACHINERY-ERROR: {m}");
        }
        harness::cleanup_tmp();
        vcore::machinery_error(&format!("{} execution(s) failed in the machinery", machs.len()));
    }

    // 2. every violation class is re-executed twice from its recorded choice list (fresh subject
    //    thread, fresh runtime, fresh child); it is reported only if it shows up both times
    let found = found.into_inner().unwrap();
    let mut nondet = Vec::new();
    for (key, f) in &found {
        let mut seen = 0;
        for _ in 0..2 {
            let r = with_worker(|w| harness::execute(w, &f.plan));
            drop_worker();
            if r.vios.iter().any(|(k, _)| k == key) {
                seen += 1;
            }
        }
        if seen < 2 {
            nondet.push(format!("{key} (reproduced {seen}/2) plan {}", f.plan.describe()));
            continue;
        }
        let mut replay = f.plan.to_json();
        replay["tier"] = json!(tier.name());
        rep.violation(Violation {
            key: key.clone(),
            what: format!("{} | minimal history found: {} | trace: {}", f.what, f.plan.describe(), f.hist.join(" ; ")),
            replay,
        });
        rep.count(&format!("violating_executions[{key}]"), f.count);
    }
    drop_worker();
    harness::cleanup_tmp();
    if !nondet.is_empty() {
        for n in &nondet {
            eprintln!("NONDETERMINISM: {n}");
        }
        vcore::machinery_error("violation(s) did not reproduce from their choice lists");
    }
    rep.finish()
}

fn serde_json_map() -> vcore::serde_json::Map<String, vcore::Value> {
    vcore::serde_json::Map::new()
}

fn run_replay(args: vcore::Args) -> ! {
    let path = args.replay.clone().unwrap();
    let bytes = std::fs::read(&path).unwrap_or_else(|e| vcore::machinery_error(&format!("cannot read {path:?}: {e}")));
    let v: vcore::Value =
        vcore::serde_json::from_slice(&bytes).unwrap_or_else(|e| vcore::machinery_error(&format!("replay file does not parse: {e}")));
    let r = if v.get("replay").is_some() { &v["replay"] } else { &v };
    let tier = r["tier"].as_str().map(Tier::parse).unwrap_or(args.tier);
    let fam_name = r["family"].as_str().unwrap_or("");
    let drv = match r["driver"].as_str() {
        Some("iour") => Drv::IoUring,
        Some("poll") => Drv::Poll,
        d => vcore::machinery_error(&format!("unknown driver {d:?} in replay")),
    };
    let choices: Vec<u32> = r["choices"].as_array().map(|a| a.iter().map(|x| x.as_u64().unwrap_or(0) as u32).collect()).unwrap_or_default();
    let fam = families::families(tier)
        .into_iter()
        .find(|f| f.name == fam_name)
        .unwrap_or_else(|| vcore::machinery_error(&format!("unknown family {fam_name:?}")));
    let mut ch = Chooser::replay(choices);
    let p = plan::plan(&fam, drv, &mut ch);
    if !ch.prefix_consumed() {
        vcore::machinery_error("replay divergence: choice list longer than the plan");
    }
    println!("plan: {}", p.describe());
    let res = with_worker(|w| harness::execute(w, &p));
    drop_worker();
    harness::cleanup_tmp();
    for h in &res.hist {
        println!("  {h}");
    }
    println!("observation signature: {}", res.sig);
    if let Some(m) = res.machinery {
        vcore::machinery_error(&m);
    }
    if res.vios.is_empty() {
        println!("no violation in this execution");
        std::process::exit(0);
    }
    for (k, w) in &res.vios {
        println!("violation detail: key={k} what={w}");
        println!("VIOLATION property={} replay={}", args.property, path.display());
    }
    std::process::exit(1)
}

fn main() {
    let argv: Vec<String> = std::env::args().collect();
    if argv.len() >= 3 && argv[1] == "--child" {
        child::main(&argv[2]);
    }
    if argv.len() >= 2 && argv[1] == "--count" {
        for tier in [Tier::Quick, Tier::Thorough] {
            let mut total = 0;
            for f in families::families(tier) {
                let (p, capped) = plan::all_plans(&f, Drv::IoUring, 50_000_000);
                println!("{:?} {} depth={} plans={} capped={}", tier, f.name, f.depth, p.len(), capped);
                total += p.len();
            }
            println!("{:?} total per driver {}", tier, total);
        }
        return;
    }
    let args = vcore::parse_args();
    vcore::quiet_panics();
    if args.property != "C20" {
        vcore::machinery_error(&format!("e_c20 does not serve property {}", args.property));
    }
    if args.replay.is_some() {
        run_replay(args)
    } else {
        run_check(args)
    }
}
