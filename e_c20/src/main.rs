//! e_c20 — property C20: child processes, complete stdio and the real exit status.
//!
//! `e_c20 C20 <quick|thorough> [--replay file]`   the check
//! `e_c20 --child <socket>`                       child mode (spawned through compio-process)
//! `e_c20 --count`                                number of plans per family (no execution)
mod child;
mod families;
mod harness;
mod plan;
mod proto;
mod subject;

use std::{
    cell::RefCell,
    collections::BTreeMap,
    sync::{
        Mutex,
        atomic::{AtomicUsize, Ordering},
    },
};

use plan::Plan;
use subject::Drv;
use vcore::{Chooser, Report, Tier, Violation, json};

static WORKER_IDS: AtomicUsize = AtomicUsize::new(0);

thread_local! {
    static WORKER: RefCell<Option<harness::Worker>> = const { RefCell::new(None) };
}

fn with_worker<T>(f: impl FnOnce(&mut harness::Worker) -> T) -> T {
    WORKER.with(|w| {
        let mut w = w.borrow_mut();
        if w.is_none() {
            *w = Some(harness::Worker::new(WORKER_IDS.fetch_add(1, Ordering::SeqCst)));
        }
        f(w.as_mut().unwrap())
    })
}

fn drop_worker() {
    WORKER.with(|w| *w.borrow_mut() = None);
}

struct Found {
    plan: Plan,
    what: String,
    hist: Vec<String>,
    count: u64,
}

const TOKENS: &[&str] = &[
    "Rout:P", "Rout:short", "Rout:full", "Rout:eof", "Rerr:P", "Rerr:eof", "WI:P", "WI:full", "WI:partial", "WT:P", "WT:exit0", "WT:exit1",
    "WT:exit255", "WT:sig15", "WT:sig9", "WO:P", "WO:exit1", "WO:sig9", "Cout:part", "Cout:all", "CI:full", "CI:short", "CX", "CL", "WI:epipe",
];

fn drivers() -> Vec<Drv> {
    match std::env::var("C20_DRIVERS").ok().as_deref() {
        Some("iour") => vec![Drv::IoUring],
        Some("poll") => vec![Drv::Poll],
        _ => vec![Drv::IoUring, Drv::Poll],
    }
}

/// which wait implementation this binary was built with
const VARIANT: &str = if cfg!(feature = "pidfd") { "pidfd" } else { "pool" };

/// Everything one exploration produced; serialisable, so that the pidfd build can run as a
/// sub-process of the main check and have its results merged.
#[derive(Default)]
struct Agg {
    plans: vcore::serde_json::Map<String, vcore::Value>,
    executions: u64,
    steps: u64,
    outcomes: std::collections::BTreeSet<String>,
    counters: BTreeMap<String, u64>,
    samples: Vec<vcore::Value>,
    /// (key, what, replay, occurrences)
    violations: Vec<(String, String, vcore::Value, u64)>,
    nondet: Vec<String>,
    machinery: Vec<String>,
    caps: Vec<String>,
}

impl Agg {
    fn to_json(&self) -> vcore::Value {
        json!({
            "plans": self.plans, "executions": self.executions, "steps": self.steps,
            "outcomes": self.outcomes.iter().collect::<Vec<_>>(), "counters": self.counters, "samples": self.samples,
            "violations": self.violations.iter().map(|(k, w, r, c)| json!({"key": k, "what": w, "replay": r, "count": c})).collect::<Vec<_>>(),
            "nondet": self.nondet, "machinery": self.machinery, "caps": self.caps,
        })
    }

    fn from_json(v: &vcore::Value) -> Agg {
        let strs = |x: &vcore::Value| x.as_array().map(|a| a.iter().filter_map(|s| s.as_str().map(String::from)).collect::<Vec<_>>()).unwrap_or_default();
        Agg {
            plans: v["plans"].as_object().cloned().unwrap_or_default(),
            executions: v["executions"].as_u64().unwrap_or(0),
            steps: v["steps"].as_u64().unwrap_or(0),
            outcomes: strs(&v["outcomes"]).into_iter().collect(),
            counters: v["counters"].as_object().map(|m| m.iter().map(|(k, v)| (k.clone(), v.as_u64().unwrap_or(0))).collect()).unwrap_or_default(),
            samples: v["samples"].as_array().cloned().unwrap_or_default(),
            violations: v["violations"]
                .as_array()
                .map(|a| {
                    a.iter()
                        .map(|x| (x["key"].as_str().unwrap_or("").to_string(), x["what"].as_str().unwrap_or("").to_string(), x["replay"].clone(), x["count"].as_u64().unwrap_or(1)))
                        .collect()
                })
                .unwrap_or_default(),
            nondet: strs(&v["nondet"]),
            machinery: strs(&v["machinery"]),
            caps: strs(&v["caps"]),
        }
    }
}

fn explore_all(tier: Tier, fams: &[plan::Family], drvs: &[Drv], shard: (usize, usize)) -> Agg {
    let t0 = std::time::Instant::now();
    harness::set_grace_ms(tier.pick(30, 100));
    let mut agg = Agg::default();
    // 1. enumerate all plans (pure)
    let mut plans: Vec<Plan> = Vec::new();
    for f in fams {
        for &d in drvs {
            let (p, capped) = plan::all_plans(f, d, u64::MAX);
            if capped {
                agg.caps.push(format!("plan enumeration of family {} capped", f.name));
            }
            if shard.0 == 0 {
                agg.plans.insert(format!("{VARIANT}:{}:{}", f.name, d.name()), json!(p.len()));
            }
            plans.extend(p);
        }
    }
    if std::env::var_os("C20_DRIVERS").is_some() && shard.0 == 0 {
        agg.caps.push(format!("C20_DRIVERS restricts the drivers to {:?}", drvs.iter().map(|d| d.name()).collect::<Vec<_>>()));
    }
    let timing = std::env::var_os("C20_TIMING").is_some();
    if timing {
        eprintln!("timing[{VARIANT}]: {} plans enumerated after {:.2}s", plans.len(), t0.elapsed().as_secs_f64());
    }
    // this process executes its share of the plans
    if shard.1 > 1 {
        plans = plans.into_iter().enumerate().filter(|(i, _)| i % shard.1 == shard.0).map(|(_, p)| p).collect();
    }
    // development aid: C20_STRIDE=k runs every k-th plan only (never exhaustive, recorded as a cap)
    if let Some(k) = std::env::var("C20_STRIDE").ok().and_then(|s| s.parse::<usize>().ok()) {
        let off = std::env::var("C20_OFFSET").ok().and_then(|s| s.parse::<usize>().ok()).unwrap_or(0);
        plans = plans.into_iter().enumerate().filter(|(i, _)| i % k == off % k).map(|(_, p)| p).collect();
        agg.caps.push(format!("C20_STRIDE={k}: only every {k}-th plan executed"));
    }
    let found: Mutex<BTreeMap<String, Found>> = Mutex::new(BTreeMap::new());
    let shared: Mutex<Agg> = Mutex::new(agg);
    let nthreads = vcore::threads();
    // a run-away guard, far above the expected wall time; hitting it is recorded as a cap
    let budget = std::env::var("C20_BUDGET_S").ok().and_then(|s| s.parse::<f64>().ok()).unwrap_or(tier.pick(240.0, 1500.0));
    let skipped = AtomicUsize::new(0);
    vcore::par_for_each_n(&plans, nthreads, |_, p| {
        if shared.lock().unwrap().machinery.len() > 20 {
            return;
        }
        if t0.elapsed().as_secs_f64() > budget || harness::expiries() >= 16 {
            skipped.fetch_add(1, Ordering::Relaxed);
            return;
        }
        let r = with_worker(|w| harness::execute(w, p));
        if let Some(m) = r.machinery {
            shared.lock().unwrap().machinery.push(m);
            // the worker may be in an undefined state: start over with a new one
            drop_worker();
            return;
        }
        if let Some(path) = std::env::var_os("C20_DUMP") {
            use std::io::Write;
            let keys: Vec<&str> = r.vios.iter().map(|(k, _)| k.as_str()).collect();
            let line = format!("{VARIANT} {}\t{}\t{}\n", p.describe(), r.sig, keys.join(","));
            if let Ok(mut f) = std::fs::OpenOptions::new().create(true).append(true).open(path) {
                let _ = f.write_all(line.as_bytes());
            }
        }
        {
            let mut a = shared.lock().unwrap();
            a.executions += 1;
            a.steps += r.steps;
            for t in &r.tokens {
                if TOKENS.contains(&t.as_str()) {
                    *a.counters.entry(t.to_string()).or_insert(0) += 1;
                }
            }
            for c in &r.counters {
                *a.counters.entry(c.to_string()).or_insert(0) += 1;
            }
            if a.outcomes.len() < 50_000 {
                a.outcomes.insert(format!("{VARIANT} {}", r.sig));
            }
            if a.samples.len() < 4 {
                a.samples.push(json!({"plan": p.describe(), "wait_path": VARIANT, "history": r.hist}));
            }
        }
        if !r.vios.is_empty() {
            let mut g = found.lock().unwrap();
            for (k, w) in r.vios {
                let better = match g.get(&k) {
                    None => true,
                    Some(f) => f.plan.steps.len() > p.steps.len(),
                };
                let cnt = g.get(&k).map(|f| f.count).unwrap_or(0) + 1;
                if better {
                    g.insert(k, Found { plan: p.clone(), what: w, hist: r.hist.clone(), count: cnt });
                } else {
                    g.get_mut(&k).unwrap().count = cnt;
                }
            }
        }
    });
    let mut agg = shared.into_inner().unwrap();
    if timing {
        eprintln!("timing[{VARIANT}]: {} executions done after {:.2}s", agg.executions, t0.elapsed().as_secs_f64());
    }
    let skipped = skipped.load(Ordering::Relaxed);
    if skipped > 0 {
        agg.caps.push(format!(
            "exploration cut short ({}): {skipped} of {} plans not executed",
            if harness::expiries() >= 16 { "16 watchdog expiries".to_string() } else { format!("wall-time guard of {budget} s") },
            plans.len()
        ));
    }
    if !agg.machinery.is_empty() {
        return agg;
    }
    // 2. every violation class is re-executed twice from its recorded choice list (fresh subject
    //    thread, fresh runtime, fresh child); it is reported only if it shows up both times
    let found = found.into_inner().unwrap();
    for (key, f) in &found {
        let mut seen = 0;
        harness::reset_watchdog();
        for _ in 0..2 {
            let r = with_worker(|w| harness::execute(w, &f.plan));
            drop_worker();
            // same oracle class (driver:oracle:...) counts: which of several symptoms of one defect shows
            // first can depend on when a pool thread finishes
            let class = |k: &str| k.split(':').take(2).collect::<Vec<_>>().join(":");
            if r.vios.iter().any(|(k, _)| class(k) == class(key)) {
                seen += 1;
            }
        }
        if seen < 2 && harness::is_timeout_key(key) {
            // a watchdog expiry is only a candidate until it reproduces (DESIGN.md section 0)
            *agg.counters.entry("transient_watchdog_expiries_not_reproduced".into()).or_insert(0) += f.count;
            eprintln!("note: watchdog expiry {key} did not reproduce ({seen}/2) for plan {}", f.plan.describe());
            continue;
        }
        if seen < 2 {
            agg.nondet.push(format!("{key} (reproduced {seen}/2) plan {}", f.plan.describe()));
            continue;
        }
        let mut replay = f.plan.to_json();
        replay["tier"] = json!(tier.name());
        replay["wait_path"] = json!(VARIANT);
        let key = if VARIANT == "pidfd" { format!("pidfd:{key}") } else { key.clone() };
        agg.violations.push((
            key,
            format!("{} | shortest failing plan found: {} | trace: {}", f.what, f.plan.describe(), short_trace(&f.hist)),
            replay,
            f.count,
        ));
    }
    drop_worker();
    agg
}

fn pidfd_binary() -> Option<std::path::PathBuf> {
    if VARIANT == "pidfd" {
        return None;
    }
    let p = match std::env::var_os("C20_PIDFD_BIN") {
        Some(p) => std::path::PathBuf::from(p),
        None => vcore::verif_root().join(".target/e_c20_pidfd/release/e_c20"),
    };
    p.exists().then_some(p)
}

/// Worker-process mode: `e_c20 C20 <tier> --sub --shard i/n` executes every n-th plan (offset i)
/// on one controller thread and prints its results as one JSON line. Separate processes (instead of
/// threads) keep the descriptor tables apart: no other worker's fork can hold a copy of this
/// worker's pipe ends, so EOF/EPIPE arrive exactly when the harness caused them.
/// The pidfd build explores only the families in which `wait` matters.
fn run_sub(args: vcore::Args) -> ! {
    let quick = args.tier == Tier::Quick;
    let shard = args
        .rest
        .iter()
        .position(|a| a == "--shard")
        .and_then(|i| args.rest.get(i + 1))
        .and_then(|s| s.split_once('/'))
        .and_then(|(a, b)| Some((a.parse::<usize>().ok()?, b.parse::<usize>().ok()?)))
        .unwrap_or((0, 1));
    let fams: Vec<plan::Family> = families::families(args.tier)
        .into_iter()
        .filter(|f| VARIANT != "pidfd" || f.name == "status" || (f.name == "output" && !quick))
        .collect();
    let agg = explore_all(args.tier, &fams, &drivers(), shard);
    harness::cleanup_tmp();
    println!("{}", agg.to_json());
    std::process::exit(0)
}

/// run `n` worker processes of `bin` and collect their results
fn run_shards(bin: &std::path::Path, tier: Tier, n: usize) -> Vec<Agg> {
    let kids: Vec<_> = (0..n)
        .map(|i| {
            std::process::Command::new(bin)
                .arg("C20")
                .arg(tier.name())
                .arg("--sub")
                .arg("--shard")
                .arg(format!("{i}/{n}"))
                .env("VERIF_THREADS", "1")
                .stdout(std::process::Stdio::piped())
                .stderr(std::process::Stdio::inherit())
                .spawn()
                .unwrap_or_else(|e| vcore::machinery_error(&format!("cannot run {bin:?}: {e}")))
        })
        .collect();
    kids.into_iter()
        .enumerate()
        .map(|(i, k)| {
            let out = k.wait_with_output().unwrap_or_else(|e| vcore::machinery_error(&format!("waiting for worker {i} of {bin:?}: {e}")));
            let text = String::from_utf8_lossy(&out.stdout);
            let line = text.lines().rev().find(|l| l.starts_with('{')).unwrap_or("");
            match vcore::serde_json::from_str::<vcore::Value>(line) {
                Ok(v) => Agg::from_json(&v),
                Err(e) => vcore::machinery_error(&format!("worker {i} of {bin:?} gave no result ({e}); exit status {:?}", out.status)),
            }
        })
        .collect()
}

fn run_check(args: vcore::Args) -> ! {
    let tier = args.tier;
    let rep = Report::new(&args.property, tier);
    let fams = families::families(tier);
    let drvs = drivers();
    rep.rule(
        "every plan = (family, driver, [exit mode,] step sequence of length <= depth with a 'stop' alternative at every position, parameters chosen at first use) \
         is enumerated by vcore::explore over a pure planner (enabledness depends on the commanded history only, so the plan list is computed before anything runs) \
         and executed once on the real compio-process/compio-runtime/compio-driver code with a fresh runtime, a fresh runtime thread and a fresh child process, \
         followed by a canonical epilogue (deliver everything, end the child, read to EOF, wait) judged by the same oracle. Plans are distributed over worker \
         processes (one controller thread each); the pidfd build of compio-process explores the wait-related families the same way. Every violation class is \
         re-executed twice from its choice list before it is reported. states = executions; transitions = harness steps incl. epilogue; distinct_nontrivial = \
         distinct outcome classes (per-step observation classes of the enumerated part + final byte totals and status)",
    );
    rep.assume("the child's stdio descriptors are O_NONBLOCK on the child's side only; the child acts only on harness commands (control socket) and acks each; a pending child write continues after every harness step, like a writer blocked in write(2)");
    rep.assume("Linux pipe semantics (capacity 65536, POLLOUT = a free slot) are the real kernel's, not modelled");
    rep.assume(
        "owned nondeterminism: completions are harvested with zero-timeout polls only; completions the harness itself enabled (data acked by the child, write end closed, \
         child dead) are awaited with a watchdog; 'wait stays pending while the child lives' is a negative observation with a fixed grace period. NOT owned: when the kernel \
         executes an io_uring read/write that was submitted before the peer acted (it runs concurrently with the child's command) - the split of the bytes over the following \
         observations is then timing dependent; the oracle (position-coded streams, totals) is insensitive to it and the outcome classes abstract from it",
    );
    for t in ["Rout:P", "Rout:short", "Rout:full", "Rout:eof", "Rerr:eof", "WI:P", "WI:full", "WT:P", "WT:exit0", "WT:exit255", "WT:sig15", "WT:sig9", "WO:P", "WO:sig9", "Cout:part", "CI:full"] {
        rep.must_reach(t);
    }
    let n = vcore::threads();
    let me = std::path::PathBuf::from(harness::exe_path());
    let mut wait_paths = vec![VARIANT.to_string()];
    let mut aggs = run_shards(&me, tier, n);
    // the pidfd wait path (compio-process feature linux_pidfd, nightly-gated) lives in a second build
    match pidfd_binary() {
        Some(bin) => {
            aggs.extend(run_shards(&bin, tier, n));
            wait_paths.push("pidfd".into());
        }
        None => rep.assume(
            "the pidfd wait path (compio-process feature linux_pidfd) was NOT explored in this run: no binary built with \
             `RUSTC_BOOTSTRAP=1 cargo build --release --features pidfd` found at $C20_PIDFD_BIN or <VERIF_ROOT>/.target/e_c20_pidfd/release/e_c20",
        ),
    }
    let mut plans = serde_json_map();
    let mut merged: BTreeMap<String, (String, vcore::Value, u64)> = BTreeMap::new();
    let mut machinery = Vec::new();
    let mut nondet = Vec::new();
    for a in &aggs {
        plans.extend(a.plans.clone());
        rep.evaluations.fetch_add(a.executions, Ordering::Relaxed);
        rep.traces_validated.fetch_add(a.executions, Ordering::Relaxed);
        rep.transitions.fetch_add(a.steps, Ordering::Relaxed);
        for o in &a.outcomes {
            rep.outcome(o.clone());
        }
        for (k, n) in &a.counters {
            rep.count(k, *n);
        }
        for s in a.samples.iter().take(3) {
            rep.sample(6, || s.clone());
        }
        for c in &a.caps {
            rep.cap_hit(c);
        }
        for (key, what, replay, count) in &a.violations {
            let e = merged.entry(key.clone()).or_insert_with(|| (what.clone(), replay.clone(), 0u64));
            let len = |r: &vcore::Value| r["choices"].as_array().map(|a| a.len()).unwrap_or(usize::MAX);
            if len(replay) < len(&e.1) {
                e.0 = what.clone();
                e.1 = replay.clone();
            }
            e.2 += *count;
        }
        machinery.extend(a.machinery.iter().cloned());
        nondet.extend(a.nondet.iter().cloned());
    }
    for (key, (what, replay, count)) in merged {
        rep.count(&format!("violating_executions[{key}]"), count);
        rep.violation(Violation { key, what, replay });
    }
    rep.extra(
        "bounds",
        json!({
            "pipe_capacity": plan::CAP,
            "families": fams.iter().map(|f| json!({
                "name": f.name, "depth": f.depth, "letters": format!("{:?}", f.letters),
                "child_write_sizes": f.sizes, "read_chunks": f.chunks, "write_lens": f.wlens, "child_read_lens": f.rlens,
                "exit_modes": if f.modes.is_empty() { "rotating over exit0,exit1,exit255,SIGTERM,SIGKILL".to_string() } else { format!("{:?}", f.modes) },
                "max_child_writes_per_stream": f.max_child_writes, "max_polls_per_future_kind": f.max_polls,
                "managed_reads": f.managed, "wait_with_output": f.output,
            })).collect::<Vec<_>>(),
            "drivers": drvs.iter().map(|d| d.name()).collect::<Vec<_>>(),
            "plans": plans,
            "wait_paths": wait_paths,
            "worker_processes": n,
            "watchdog_ms": harness::WATCHDOG.as_millis() as u64,
            "negative_observation_grace_ms": tier.pick(30, 100),
        }),
    );
    if !machinery.is_empty() {
        for m in machinery.iter().take(5) {
            eprintln!("MACHINERY-ERROR: {m}");
        }
        vcore::machinery_error(&format!("{} execution(s) failed in the machinery", machinery.len()));
    }
    if !nondet.is_empty() {
        for n in &nondet {
            eprintln!("NONDETERMINISM: {n}");
        }
        vcore::machinery_error("violation(s) did not reproduce from their choice lists");
    }
    rep.finish()
}

/// the enumerated part of the history, and of the epilogue only what surrounds the first violation
fn short_trace(hist: &[String]) -> String {
    let epi = hist.iter().position(|h| h.starts_with("-- epilogue")).unwrap_or(hist.len());
    let vio = hist.iter().position(|h| h.trim_start().starts_with("!!")).unwrap_or(hist.len());
    let mut out: Vec<String> = hist[..epi.min(hist.len())].iter().map(|h| h.trim().to_string()).collect();
    if vio >= epi {
        out.push("(epilogue)".into());
        let lo = vio.saturating_sub(6).max(epi + 1).min(hist.len());
        if lo > epi + 1 {
            out.push("...".into());
        }
        let hi = (vio + 1).min(hist.len());
        out.extend(hist[lo..hi].iter().map(|h| h.trim().to_string()));
    }
    out.join(" ; ")
}

fn serde_json_map() -> vcore::serde_json::Map<String, vcore::Value> {
    vcore::serde_json::Map::new()
}

fn run_replay(args: vcore::Args) -> ! {
    let path = args.replay.clone().unwrap();
    let bytes = std::fs::read(&path).unwrap_or_else(|e| vcore::machinery_error(&format!("cannot read {path:?}: {e}")));
    let v: vcore::Value =
        vcore::serde_json::from_slice(&bytes).unwrap_or_else(|e| vcore::machinery_error(&format!("replay file does not parse: {e}")));
    let r = if v.get("replay").is_some() { &v["replay"] } else { &v };
    let tier = r["tier"].as_str().map(Tier::parse).unwrap_or(args.tier);
    if let Some(wp) = r["wait_path"].as_str() {
        if wp != VARIANT {
            // recorded by the other build: hand over
            let bin = if wp == "pidfd" { pidfd_binary() } else { None };
            let Some(bin) = bin else { vcore::machinery_error(&format!("replay needs the {wp} build of e_c20, which was not found")) };
            let st = std::process::Command::new(bin)
                .arg("C20")
                .arg(tier.name())
                .arg("--replay")
                .arg(&path)
                .status()
                .unwrap_or_else(|e| vcore::machinery_error(&format!("cannot run the {wp} build: {e}")));
            std::process::exit(st.code().unwrap_or(2));
        }
    }
    let fam_name = r["family"].as_str().unwrap_or("");
    let drv = match r["driver"].as_str() {
        Some("iour") => Drv::IoUring,
        Some("poll") => Drv::Poll,
        d => vcore::machinery_error(&format!("unknown driver {d:?} in replay")),
    };
    let choices: Vec<u32> = r["choices"].as_array().map(|a| a.iter().map(|x| x.as_u64().unwrap_or(0) as u32).collect()).unwrap_or_default();
    let fam = families::families(tier)
        .into_iter()
        .find(|f| f.name == fam_name)
        .unwrap_or_else(|| vcore::machinery_error(&format!("unknown family {fam_name:?}")));
    let mut ch = Chooser::replay(choices);
    let p = plan::plan(&fam, drv, &mut ch);
    if !ch.prefix_consumed() {
        vcore::machinery_error("replay divergence: choice list longer than the plan");
    }
    println!("plan: {}", p.describe());
    let res = with_worker(|w| harness::execute(w, &p));
    drop_worker();
    harness::cleanup_tmp();
    for h in &res.hist {
        println!("  {h}");
    }
    println!("observation signature: {}", res.sig);
    if let Some(m) = res.machinery {
        vcore::machinery_error(&m);
    }
    if res.vios.is_empty() {
        println!("no violation in this execution");
        std::process::exit(0);
    }
    for (k, w) in &res.vios {
        println!("violation detail: key={k} what={w}");
        println!("VIOLATION property={} replay={}", args.property, path.display());
    }
    std::process::exit(1)
}

fn main() {
    let argv: Vec<String> = std::env::args().collect();
    if argv.len() >= 3 && argv[1] == "--child" {
        child::main(&argv[2]);
    }
    if argv.len() >= 4 && argv[1] == "--demo-duplex" {
        demo_duplex(&argv[2], argv[3].parse().unwrap_or(1 << 20));
        return;
    }
    if argv.len() >= 2 && argv[1] == "--count" {
        for tier in [Tier::Quick, Tier::Thorough] {
            if argv.len() >= 3 && argv[2] != tier.name() {
                continue;
            }
            let mut total = 0;
            for f in families::families(tier) {
                let (p, capped) = plan::all_plans(&f, Drv::IoUring, 50_000_000);
                println!("{:?} {} depth={} plans={} capped={}", tier, f.name, f.depth, p.len(), capped);
                total += p.len();
            }
            println!("{:?} total per driver {}", tier, total);
        }
        return;
    }
    let args = vcore::parse_args();
    vcore::quiet_panics();
    if args.property != "C20" {
        vcore::machinery_error(&format!("e_c20 does not serve property {}", args.property));
    }
    if args.replay.is_some() {
        run_replay(args)
    } else if args.rest.iter().any(|a| a == "--sub") {
        run_sub(args)
    } else {
        run_check(args)
    }
}

/// Stand-alone illustration of the finding on the polling driver (not part of the check):
/// `e_c20 --demo-duplex <poll|iour> <bytes>` pipes `bytes` through `cat` with the usual
/// "write everything to stdin while reading stdout to the end" program.
fn demo_duplex(drv: &str, n: usize) {
    use compio_io::{AsyncReadExt, AsyncWriteExt};
    let mut pb = compio_driver::ProactorBuilder::new();
    pb.driver_type(if drv == "poll" { compio_driver::DriverType::Poll } else { compio_driver::DriverType::IoUring });
    let rt = compio_runtime::Runtime::builder().with_proactor(pb).build().unwrap();
    std::thread::spawn(|| {
        std::thread::sleep(std::time::Duration::from_secs(5));
        println!("DEADLOCK: no progress for 5 s");
        std::process::exit(3);
    });
    let got = rt.block_on(async move {
        let mut cmd = compio_process::Command::new("cat");
        cmd.stdin(std::process::Stdio::piped()).unwrap();
        cmd.stdout(std::process::Stdio::piped()).unwrap();
        let mut child = cmd.spawn().unwrap();
        let mut stdin = child.stdin.take().unwrap();
        let mut stdout = child.stdout.take().unwrap();
        let w = async move {
            stdin.write_all(vec![7u8; n]).await.0.unwrap();
            drop(stdin);
        };
        let r = async move { stdout.read_to_end(Vec::new()).await.1.len() };
        let (_, got) = futures_join(w, r).await;
        let st = child.wait().await.unwrap();
        (got, st)
    });
    println!("{drv}: piped {n} bytes through cat, got {} back, status {:?}", got.0, got.1);
}

async fn futures_join<A: std::future::Future, B: std::future::Future>(a: A, b: B) -> (A::Output, B::Output) {
    let mut a = std::pin::pin!(a);
    let mut b = std::pin::pin!(b);
    let (mut ra, mut rb) = (None, None);
    std::future::poll_fn(|cx| {
        if ra.is_none() {
            if let std::task::Poll::Ready(x) = a.as_mut().poll(cx) {
                ra = Some(x);
            }
        }
        if rb.is_none() {
            if let std::task::Poll::Ready(x) = b.as_mut().poll(cx) {
                rb = Some(x);
            }
        }
        if ra.is_some() && rb.is_some() { std::task::Poll::Ready((ra.take().unwrap(), rb.take().unwrap())) } else { std::task::Poll::Pending }
    })
    .await
}
