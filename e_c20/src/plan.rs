//! Pure planner: turns a choice list into a harness program (a step sequence with parameters).
//! Enabledness depends only on the commanded history, never on what the real code answered, so
//! the set of all plans can be enumerated up front with `vcore::explore` (no child process is
//! needed for that) and the executions can then be distributed over the cores.

use vcore::{Chooser, Value, json};

use crate::subject::Drv;

pub const CAP: usize = 65536;

#[derive(Clone, Copy, Debug, PartialEq, Eq)]
pub enum ExitMode {
    Code(i32),
    Signal(i32),
}

pub const EXIT_MODES: [ExitMode; 5] = [
    ExitMode::Code(0),
    ExitMode::Code(1),
    ExitMode::Code(255),
    ExitMode::Signal(libc::SIGTERM),
    ExitMode::Signal(libc::SIGKILL),
];

impl ExitMode {
    pub fn name(self) -> String {
        match self {
            ExitMode::Code(c) => format!("exit{c}"),
            ExitMode::Signal(s) => format!("sig{s}"),
        }
    }
}

#[derive(Clone, Copy, Debug, PartialEq, Eq)]
pub enum Step {
    /// child writes `n` more bytes to stdout (1) / stderr (2), as far as the pipe takes them;
    /// the remainder stays pending in the child and continues as soon as there is room
    ChildWrite { stream: u8, n: usize },
    /// child reads up to `n` bytes from stdin (what is there), reports count + checksum
    ChildRead { n: usize },
    /// child closes its stdout/stderr without exiting
    ChildClose { stream: u8 },
    ChildExit(ExitMode),
    /// poll the parent's read future on stdout/stderr once (created with this chunk if none)
    Read { stream: u8, chunk: usize },
    /// poll the parent's write future once (created with a buffer of `len` bytes if none)
    WriteIn { len: usize },
    CloseIn,
    /// poll the wait future once (created if none)
    Wait,
    /// poll the `wait_with_output()` future once (created if none); only in "output" families, where
    /// stdout/stderr stay inside the `Child`
    Output,
    Harvest,
}

impl Step {
    pub fn name(&self) -> String {
        match self {
            Step::ChildWrite { stream: 1, n } => format!("ChildOut({n})"),
            Step::ChildWrite { n, .. } => format!("ChildErr({n})"),
            Step::ChildRead { n } => format!("ChildReadIn({n})"),
            Step::ChildClose { stream } => format!("ChildClose({stream})"),
            Step::ChildExit(m) => format!("ChildExit({})", m.name()),
            Step::Read { stream: 1, chunk } => format!("ReadOut({chunk})"),
            Step::Read { chunk, .. } => format!("ReadErr({chunk})"),
            Step::WriteIn { len } => format!("WriteIn({len})"),
            Step::CloseIn => "CloseIn".into(),
            Step::Wait => "WaitPoll".into(),
            Step::Output => "OutputPoll".into(),
            Step::Harvest => "Harvest".into(),
        }
    }
}

#[derive(Clone, Copy, Debug, PartialEq, Eq)]
pub enum Letter {
    CO,
    CE,
    CI,
    CC,
    CX,
    RO,
    RE,
    WI,
    CL,
    WT,
    WO,
    H,
}

/// One exploration family: a sub-alphabet, a depth and the parameter sets that are crossed.
#[derive(Clone, Debug)]
pub struct Family {
    pub name: &'static str,
    pub letters: Vec<Letter>,
    pub depth: usize,
    /// sizes of a child write (chosen at the first ChildOut/ChildErr, kept for the execution)
    pub sizes: Vec<usize>,
    /// chunk of parent reads (chosen at the first read or by the epilogue)
    pub chunks: Vec<usize>,
    /// buffer length of a parent write (chosen at the first WriteIn)
    pub wlens: Vec<usize>,
    /// how much the child reads per ChildReadIn
    pub rlens: Vec<usize>,
    /// exit modes crossed exhaustively (chosen first); if empty the mode rotates with the plan index
    pub modes: Vec<ExitMode>,
    pub max_child_writes: usize,
    pub managed: bool,
    /// at most this many polls of each parent-side future kind (ReadOut, ReadErr, WriteIn, WaitPoll)
    pub max_polls: usize,
    /// at most this many ChildReadIn steps
    pub max_child_reads: usize,
    /// drive `Child::wait_with_output()` instead of separate reads and wait
    pub output: bool,
}

#[derive(Clone, Debug)]
pub struct Plan {
    pub family: &'static str,
    pub drv: Drv,
    pub steps: Vec<Step>,
    pub chunk: usize,
    pub mode: ExitMode,
    pub managed: bool,
    pub output: bool,
    pub choices: Vec<u32>,
}

impl Plan {
    pub fn describe(&self) -> String {
        let s: Vec<String> = self.steps.iter().map(|s| s.name()).collect();
        format!(
            "[{} {} chunk={} exit={}{}] {}",
            self.family,
            self.drv.name(),
            self.chunk,
            self.mode.name(),
            if self.managed { " managed" } else if self.output { " wait_with_output" } else { "" },
            s.join(", ")
        )
    }

    pub fn to_json(&self) -> Value {
        json!({
            "engine": "e_c20",
            "family": self.family,
            "driver": self.drv.name(),
            "choices": self.choices,
            "decoded": self.describe(),
        })
    }
}

#[derive(Default)]
struct Counts {
    co: usize,
    ce: usize,
    ci: usize,
    ro: usize,
    re: usize,
    wi: usize,
    wt: usize,
}

/// Derive one plan from the chooser. Pure.
pub fn plan(fam: &Family, drv: Drv, ch: &mut Chooser) -> Plan {
    let mode_fixed = if fam.modes.is_empty() {
        None
    } else {
        Some(fam.modes[ch.pick(fam.modes.len())])
    };
    let mut steps: Vec<Step> = Vec::new();
    let mut c = Counts::default();
    let mut alive = true;
    let mut closed_in = false;
    let mut closed_stream = [false; 3];
    let mut size: Option<usize> = None;
    let mut chunk: Option<usize> = None;
    let mut wlen: Option<usize> = None;
    let mut rlen: Option<usize> = None;
    // letters that may not repeat before the next Harvest (re-polling a future without a harvest in
    // between cannot observe anything new: completions are delivered only by the harvest)
    let mut since_h: Vec<Letter> = Vec::new();
    let mut stdout_touched = false;
    while steps.len() < fam.depth {
        let mut en: Vec<Letter> = Vec::new();
        for &l in &fam.letters {
            let ok = match l {
                Letter::CO => alive && c.co < fam.max_child_writes && !closed_stream[1],
                Letter::CE => alive && c.ce < fam.max_child_writes && !closed_stream[2] && (stdout_touched || fam.output),
                Letter::CI => alive && c.ci < fam.max_child_reads && (c.wi > 0 || closed_in),
                Letter::CC => alive && !closed_stream[1] && c.co > 0,
                Letter::CX => alive,
                Letter::RO => c.ro < fam.max_polls && !since_h.contains(&l),
                Letter::RE => c.re < fam.max_polls && !since_h.contains(&l) && stdout_touched,
                Letter::WI => !closed_in && c.wi < fam.max_polls && !since_h.contains(&l),
                Letter::CL => !closed_in,
                Letter::WT => c.wt < fam.max_polls && !since_h.contains(&l),
                Letter::WO => c.wt < fam.max_polls && !since_h.contains(&l),
                Letter::H => !steps.is_empty() && !matches!(steps.last(), Some(Step::Harvest)),
            };
            if ok {
                en.push(l);
            }
        }
        // alternative 0 = stop here (the epilogue finishes the execution)
        let k = ch.pick(en.len() + 1);
        if k == 0 {
            break;
        }
        let l = en[k - 1];
        let st = match l {
            Letter::CO | Letter::CE => {
                let n = *size.get_or_insert_with(|| fam.sizes[ch.pick(fam.sizes.len())]);
                if l == Letter::CO {
                    c.co += 1;
                    stdout_touched = true;
                } else {
                    c.ce += 1;
                }
                Step::ChildWrite { stream: if l == Letter::CO { 1 } else { 2 }, n }
            }
            Letter::CI => {
                c.ci += 1;
                let n = *rlen.get_or_insert_with(|| fam.rlens[ch.pick(fam.rlens.len())]);
                Step::ChildRead { n }
            }
            Letter::CC => {
                closed_stream[1] = true;
                Step::ChildClose { stream: 1 }
            }
            Letter::CX => {
                alive = false;
                Step::ChildExit(ExitMode::Code(0)) // patched below
            }
            Letter::RO | Letter::RE => {
                let ck = *chunk.get_or_insert_with(|| pick_chunk(fam, size, ch));
                if l == Letter::RO {
                    c.ro += 1;
                    stdout_touched = true;
                } else {
                    c.re += 1;
                }
                since_h.push(l);
                Step::Read { stream: if l == Letter::RO { 1 } else { 2 }, chunk: ck }
            }
            Letter::WI => {
                c.wi += 1;
                since_h.push(l);
                let len = *wlen.get_or_insert_with(|| fam.wlens[ch.pick(fam.wlens.len())]);
                Step::WriteIn { len }
            }
            Letter::CL => {
                closed_in = true;
                Step::CloseIn
            }
            Letter::WT => {
                c.wt += 1;
                since_h.push(l);
                Step::Wait
            }
            Letter::WO => {
                c.wt += 1;
                since_h.push(l);
                Step::Output
            }
            Letter::H => {
                since_h.clear();
                Step::Harvest
            }
        };
        steps.push(st);
    }
    // the epilogue reads with a chunk too
    let chunk = match chunk {
        Some(c) => c,
        None => pick_chunk(fam, size, ch),
    };
    let choices = ch.choices();
    let mode = mode_fixed.unwrap_or_else(|| {
        let s: u64 = choices.iter().enumerate().map(|(i, c)| (*c as u64 + 1) * (i as u64 + 1)).sum();
        EXIT_MODES[(s % EXIT_MODES.len() as u64) as usize]
    });
    for s in steps.iter_mut() {
        if let Step::ChildExit(m) = s {
            *m = mode;
        }
    }
    Plan { family: fam.name, drv, steps, chunk, mode, managed: fam.managed, output: fam.output, choices }
}

fn pick_chunk(fam: &Family, size: Option<usize>, ch: &mut Chooser) -> usize {
    // chunk 1 only together with a small payload (a 1-byte chunk over >= 64 KiB is ~10^5 operations)
    let small = size.map(|s| s <= 8).unwrap_or(false);
    let opts: Vec<usize> = fam.chunks.iter().copied().filter(|&c| c > 1 || small).collect();
    if opts.is_empty() {
        return *fam.chunks.last().unwrap();
    }
    opts[ch.pick(opts.len())]
}

pub fn all_plans(fam: &Family, drv: Drv, cap: u64) -> (Vec<Plan>, bool) {
    let mut v = Vec::new();
    let st = vcore::explore(0, cap, |ch| {
        v.push(plan(fam, drv, ch));
        true
    });
    (v, st.capped)
}
