//! Child mode: `e_c20 --child <socket path>`.
//!
//! A pure command/reply state machine. The child never does anything by itself: every write to
//! stdout/stderr, every read from stdin, closing a stream, exiting or killing itself happens
//! because the harness sent a command, and the reply tells the harness exactly what happened.
//! All three stdio descriptors are switched to O_NONBLOCK *on the child's side* (the parent's ends
//! are separate open file descriptions and stay as compio-process created them), so a command
//! never blocks: a write that does not fit stays pending (`want > done`) and is continued by `P`.

use std::{
    io::{BufRead, BufReader, Write},
    os::unix::net::UnixStream,
};

use crate::proto::*;

fn set_nonblock(fd: i32) {
    unsafe {
        let fl = libc::fcntl(fd, libc::F_GETFL);
        if fl >= 0 {
            libc::fcntl(fd, libc::F_SETFL, fl | libc::O_NONBLOCK);
        }
    }
}

struct OutStream {
    fd: i32,
    id: u8,
    want: u64,
    done: u64,
    err: i32,
    closed: bool,
}

impl OutStream {
    fn pump(&mut self) {
        while self.done < self.want && self.err == 0 && !self.closed {
            let n = ((self.want - self.done) as usize).min(1 << 16);
            let buf = fill(self.id, self.done, n);
            let r = unsafe { libc::write(self.fd, buf.as_ptr().cast(), buf.len()) };
            if r > 0 {
                self.done += r as u64;
            } else if r == 0 {
                break;
            } else {
                let e = std::io::Error::last_os_error().raw_os_error().unwrap_or(0);
                if e == libc::EINTR {
                    continue;
                }
                if e != libc::EAGAIN {
                    self.err = e;
                }
                break;
            }
        }
    }
}

pub fn main(path: &str) -> ! {
    let sock = match UnixStream::connect(path) {
        Ok(s) => s,
        Err(_) => std::process::exit(98),
    };
    for fd in 0..3 {
        set_nonblock(fd);
    }
    let mut tx = sock.try_clone().unwrap();
    let mut rx = BufReader::new(sock);
    let mut out = [
        OutStream { fd: 1, id: STDOUT, want: 0, done: 0, err: 0, closed: false },
        OutStream { fd: 2, id: STDERR, want: 0, done: 0, err: 0, closed: false },
    ];
    let mut in_total: u64 = 0;
    let mut in_hash: u64 = FNV0;
    let mut in_eof = false;
    let mut in_err = 0i32;
    let mut line = String::new();
    let mut rbuf = vec![0u8; 1 << 16];
    let _ = writeln!(tx, "hello {}", std::process::id());
    loop {
        line.clear();
        match rx.read_line(&mut line) {
            Ok(0) | Err(_) => std::process::exit(99), // harness went away
            Ok(_) => {}
        }
        let mut it = line.split_whitespace();
        let cmd = it.next().unwrap_or("");
        let mut num = || it.next().and_then(|x| x.parse::<i64>().ok()).unwrap_or(0);
        match cmd {
            "W" => {
                let s = num();
                let n = num();
                let o = &mut out[(s - 1) as usize];
                o.want += n as u64;
                o.pump();
            }
            "P" => {
                for o in out.iter_mut() {
                    o.pump();
                }
            }
            "R" => {
                let mut left = num() as usize;
                while left > 0 && !in_eof {
                    let n = left.min(rbuf.len());
                    let r = unsafe { libc::read(0, rbuf.as_mut_ptr().cast(), n) };
                    if r > 0 {
                        let r = r as usize;
                        in_hash = fnv_step(in_hash, &rbuf[..r]);
                        in_total += r as u64;
                        left -= r;
                    } else if r == 0 {
                        in_eof = true;
                    } else {
                        let e = std::io::Error::last_os_error().raw_os_error().unwrap_or(0);
                        if e == libc::EINTR {
                            continue;
                        }
                        if e != libc::EAGAIN {
                            in_err = e;
                        }
                        break;
                    }
                }
            }
            "C" => {
                let s = num();
                let o = &mut out[(s - 1) as usize];
                if !o.closed {
                    unsafe { libc::close(o.fd) };
                    o.closed = true;
                }
            }
            "Z" => {
                let fd = num() as i32;
                let sz = num() as i32;
                let r = unsafe { libc::fcntl(fd, libc::F_SETPIPE_SZ, sz) };
                let _ = writeln!(tx, "z {r}");
                continue;
            }
            "X" => {
                let c = num() as i32;
                // leave without running any destructor or flushing anything
                unsafe { libc::_exit(c) }
            }
            "K" => {
                let s = num() as i32;
                unsafe {
                    libc::kill(libc::getpid(), s);
                    // not reached for TERM/KILL; keep the protocol honest if it is
                    libc::pause();
                }
            }
            _ => {}
        }
        // one status line after every state-changing command
        let _ = writeln!(
            tx,
            "s {} {} {} {} {} {} {} {:x} {} {}",
            out[0].done, out[0].want, out[0].err, out[1].done, out[1].want, out[1].err, in_total, in_hash, in_eof as u8, in_err
        );
    }
}
