//! The compio side of one execution. Everything here runs on a dedicated "subject" thread that
//! owns the runtime (it is `!Send`), the child handle and the in-flight futures. The controller
//! sends one request per harness step and waits for the answer; if the subject thread gets stuck
//! inside the kernel (a blocking `write(2)` issued by the driver), the controller sees that from
//! outside and can rescue it by commanding the child.
//!
//! Nothing here waits for the OS "by itself": futures are polled by hand with counting wakers,
//! completions are harvested with `poll_with(Some(ZERO))` + `run()`. A harvest may be told which
//! completions the harness itself has enabled (data acked by the child, child known dead); only
//! for those it retries with a bounded watchdog.

use std::{
    future::Future,
    io,
    os::fd::AsRawFd,
    pin::Pin,
    process::{ExitStatus, Stdio},
    sync::{
        Arc,
        atomic::{AtomicU64, Ordering},
        mpsc::{Receiver, Sender},
    },
    task::{Context, Poll, Wake, Waker},
    time::{Duration, Instant},
};

use compio_buf::BufResult;
use compio_driver::{DriverType, ProactorBuilder};
use compio_io::{AsyncRead, AsyncReadManaged, AsyncWrite};
use compio_process::{Child, ChildStderr, ChildStdin, ChildStdout, Command};
use compio_runtime::Runtime;

#[derive(Clone, Copy, Debug, PartialEq, Eq)]
pub enum Drv {
    IoUring,
    Poll,
}

impl Drv {
    pub fn name(self) -> &'static str {
        match self {
            Drv::IoUring => "iour",
            Drv::Poll => "poll",
        }
    }
}

pub const SLOT_OUT: usize = 0;
pub const SLOT_ERR: usize = 1;
pub const SLOT_IN: usize = 2;
pub const SLOT_WAIT: usize = 3;

pub enum Req {
    Begin { drv: Drv, exe: String, sock: String, keep_out: bool },
    /// poll the read future of stdout (`SLOT_OUT`) / stderr (`SLOT_ERR`), creating it first if none
    Read { slot: usize, chunk: usize, managed: bool },
    /// poll the write future, creating it with `data` if none is in flight
    Write { data: Option<Vec<u8>> },
    /// is a write in flight?
    CloseIn,
    WaitPoll,
    OutputPoll,
    Harvest { expect: [bool; 4], watchdog: Duration },
    End,
    Quit,
}

#[derive(Debug)]
pub enum ReadRes {
    Pending,
    /// n reported by read, the buffer as returned (len = what the buffer says is initialised)
    Ready { n: Result<usize, String>, buf: Vec<u8> },
}

#[derive(Debug)]
pub enum Resp {
    Began { pid: u32, fds: [i32; 3], tid: i32 },
    Failed(String),
    Read(ReadRes),
    /// Pending, or Ready(n written) — `started` tells whether this step created the future
    Write { res: Option<Result<usize, String>> },
    /// CloseIn: true = closed now, false = a write is in flight (nothing done)
    Closed(bool),
    Wait { res: Option<Result<ExitStatus, String>> },
    Output { res: Option<Result<(ExitStatus, Vec<u8>, Vec<u8>), String>> },
    Harvest { rounds: u32, woken: [bool; 4], timed_out: bool, unsettled: bool },
    Ended,
}

struct CountWaker(AtomicU64);

impl Wake for CountWaker {
    fn wake(self: Arc<Self>) {
        self.0.fetch_add(1, Ordering::SeqCst);
    }

    fn wake_by_ref(self: &Arc<Self>) {
        self.0.fetch_add(1, Ordering::SeqCst);
    }
}

type ReadFut<H> = Pin<Box<dyn Future<Output = (H, Result<usize, String>, Vec<u8>)>>>;

struct Exec {
    rt: Runtime,
    child: Option<Child>,
    stdin: Option<ChildStdin>,
    stdout: Option<ChildStdout>,
    stderr: Option<ChildStderr>,
    out_fut: Option<ReadFut<ChildStdout>>,
    err_fut: Option<ReadFut<ChildStderr>>,
    in_fut: Option<Pin<Box<dyn Future<Output = (ChildStdin, Result<usize, String>)>>>>,
    wait_fut: Option<Pin<Box<dyn Future<Output = io::Result<ExitStatus>>>>>,
    output_fut: Option<Pin<Box<dyn Future<Output = io::Result<std::process::Output>>>>>,
    wait_done: bool,
    counters: [Arc<CountWaker>; 4],
    wakers: [Waker; 4],
    /// wake count at the time of the last poll of the slot
    seen: [u64; 4],
}

fn read_fut<H: AsyncRead + AsyncReadManaged + 'static>(mut h: H, chunk: usize, managed: bool) -> ReadFut<H>
where
    <H as AsyncReadManaged>::Buffer: std::ops::Deref<Target = [u8]>,
{
    if managed {
        Box::pin(async move {
            match h.read_managed(chunk).await {
                Ok(Some(b)) => {
                    let v = b.to_vec();
                    let n = v.len();
                    drop(b);
                    (h, Ok(n), v)
                }
                Ok(None) => (h, Ok(0), Vec::new()),
                Err(e) => (h, Err(e.to_string()), Vec::new()),
            }
        })
    } else {
        Box::pin(async move {
            let BufResult(r, buf) = h.read(Vec::with_capacity(chunk)).await;
            (h, r.map_err(|e| e.to_string()), buf)
        })
    }
}

impl Exec {
    fn begin(drv: Drv, exe: &str, sock: &str, keep_out: bool) -> Result<(Exec, u32, [i32; 3]), String> {
        let mut pb = ProactorBuilder::new();
        pb.driver_type(match drv {
            Drv::IoUring => DriverType::IoUring,
            Drv::Poll => DriverType::Poll,
        });
        pb.capacity(64);
        let rt = Runtime::builder()
            .with_proactor(pb)
            .build()
            .map_err(|e| format!("runtime build: {e}"))?;
        let want = match drv {
            Drv::IoUring => DriverType::IoUring,
            Drv::Poll => DriverType::Poll,
        };
        if rt.driver_type() != want {
            return Err(format!("driver type {:?} not available (got {:?})", want, rt.driver_type()));
        }
        let mut child = rt
            .enter(|| {
                let mut cmd = Command::new(exe);
                cmd.arg("--child").arg(sock);
                cmd.stdin(Stdio::piped()).unwrap();
                cmd.stdout(Stdio::piped()).unwrap();
                cmd.stderr(Stdio::piped()).unwrap();
                cmd.spawn()
            })
            .map_err(|e| format!("spawn: {e}"))?;
        let pid = child.id();
        let stdin = child.stdin.take();
        let fds = [
            stdin.as_ref().map(|h| h.as_raw_fd()).unwrap_or(-1),
            child.stdout.as_ref().map(|h| h.as_raw_fd()).unwrap_or(-1),
            child.stderr.as_ref().map(|h| h.as_raw_fd()).unwrap_or(-1),
        ];
        let (stdout, stderr) = if keep_out { (None, None) } else { (child.stdout.take(), child.stderr.take()) };
        let counters: [Arc<CountWaker>; 4] = std::array::from_fn(|_| Arc::new(CountWaker(AtomicU64::new(0))));
        let wakers: [Waker; 4] = std::array::from_fn(|i| Waker::from(counters[i].clone()));
        Ok((
            Exec {
                rt,
                child: Some(child),
                stdin,
                stdout,
                stderr,
                out_fut: None,
                err_fut: None,
                in_fut: None,
                wait_fut: None,
                output_fut: None,
                wait_done: false,
                counters,
                wakers,
                seen: [0; 4],
            },
            pid,
            fds,
        ))
    }

    fn count(&self, slot: usize) -> u64 {
        self.counters[slot].0.load(Ordering::SeqCst)
    }

    fn mark_polled(&mut self, slot: usize) {
        self.seen[slot] = self.count(slot);
    }

    fn read(&mut self, slot: usize, chunk: usize, managed: bool) -> ReadRes {
        let rt = self.rt.clone();
        rt.enter(|| {
            self.mark_polled(slot);
            let mut cx = Context::from_waker(&self.wakers[slot]);
            if slot == SLOT_OUT {
                if self.out_fut.is_none() {
                    let h = self.stdout.take().expect("stdout handle");
                    self.out_fut = Some(read_fut(h, chunk, managed));
                }
                match self.out_fut.as_mut().unwrap().as_mut().poll(&mut cx) {
                    Poll::Pending => ReadRes::Pending,
                    Poll::Ready((h, n, buf)) => {
                        self.out_fut = None;
                        self.stdout = Some(h);
                        ReadRes::Ready { n, buf }
                    }
                }
            } else {
                if self.err_fut.is_none() {
                    let h = self.stderr.take().expect("stderr handle");
                    self.err_fut = Some(read_fut(h, chunk, managed));
                }
                match self.err_fut.as_mut().unwrap().as_mut().poll(&mut cx) {
                    Poll::Pending => ReadRes::Pending,
                    Poll::Ready((h, n, buf)) => {
                        self.err_fut = None;
                        self.stderr = Some(h);
                        ReadRes::Ready { n, buf }
                    }
                }
            }
        })
    }

    fn write(&mut self, data: Option<Vec<u8>>) -> Resp {
        let rt = self.rt.clone();
        rt.enter(|| {
            self.mark_polled(SLOT_IN);
            if self.in_fut.is_none() {
                let Some(data) = data else {
                    return Resp::Write { res: None };
                };
                let Some(mut h) = self.stdin.take() else {
                    return Resp::Failed("stdin already closed".into());
                };
                self.in_fut = Some(Box::pin(async move {
                    let BufResult(r, _buf) = h.write(data).await;
                    (h, r.map_err(|e| e.to_string()))
                }));
            }
            let mut cx = Context::from_waker(&self.wakers[SLOT_IN]);
            match self.in_fut.as_mut().unwrap().as_mut().poll(&mut cx) {
                Poll::Pending => Resp::Write { res: None },
                Poll::Ready((h, r)) => {
                    self.in_fut = None;
                    self.stdin = Some(h);
                    Resp::Write { res: Some(r) }
                }
            }
        })
    }

    fn close_in(&mut self) -> Resp {
        if self.in_fut.is_some() {
            return Resp::Closed(false);
        }
        let rt = self.rt.clone();
        rt.enter(|| drop(self.stdin.take()));
        Resp::Closed(true)
    }

    fn wait_poll(&mut self) -> Resp {
        if self.wait_done {
            return Resp::Wait { res: None };
        }
        let rt = self.rt.clone();
        rt.enter(|| {
            self.mark_polled(SLOT_WAIT);
            if self.wait_fut.is_none() {
                let child = self.child.take().expect("child handle");
                self.wait_fut = Some(Box::pin(child.wait()));
            }
            let mut cx = Context::from_waker(&self.wakers[SLOT_WAIT]);
            match self.wait_fut.as_mut().unwrap().as_mut().poll(&mut cx) {
                Poll::Pending => Resp::Wait { res: None },
                Poll::Ready(r) => {
                    self.wait_fut = None;
                    self.wait_done = true;
                    Resp::Wait { res: Some(r.map_err(|e| e.to_string())) }
                }
            }
        })
    }

    fn output_poll(&mut self) -> Resp {
        if self.wait_done {
            return Resp::Output { res: None };
        }
        let rt = self.rt.clone();
        rt.enter(|| {
            self.mark_polled(SLOT_WAIT);
            if self.output_fut.is_none() {
                let child = self.child.take().expect("child handle");
                self.output_fut = Some(Box::pin(child.wait_with_output()));
            }
            let mut cx = Context::from_waker(&self.wakers[SLOT_WAIT]);
            match self.output_fut.as_mut().unwrap().as_mut().poll(&mut cx) {
                Poll::Pending => Resp::Output { res: None },
                Poll::Ready(r) => {
                    self.output_fut = None;
                    self.wait_done = true;
                    Resp::Output { res: Some(r.map(|o| (o.status, o.stdout, o.stderr)).map_err(|e| e.to_string())) }
                }
            }
        })
    }

    fn woken(&self) -> [bool; 4] {
        std::array::from_fn(|i| self.count(i) > self.seen[i])
    }

    fn harvest(&mut self, expect: [bool; 4], watchdog: Duration) -> Resp {
        let rt = self.rt.clone();
        let start = Instant::now();
        let mut rounds = 0u32;
        let mut quiet = 0u32;
        let mut timed_out = false;
        let mut unsettled = false;
        let mut last: [u64; 4] = std::array::from_fn(|i| self.count(i));
        rt.enter(|| {
            loop {
                rt.poll_with(Some(Duration::ZERO));
                let more = rt.run();
                rounds += 1;
                let now: [u64; 4] = std::array::from_fn(|i| self.count(i));
                if now != last || more {
                    quiet = 0;
                    last = now;
                } else {
                    quiet += 1;
                }
                if quiet < 2 {
                    // something changes in every zero-timeout round: a self-waking loop inside the runtime
                    if rounds >= 20_000 {
                        unsettled = true;
                        break;
                    }
                    continue;
                }
                let w = self.woken();
                let has = [
                    self.out_fut.is_some(),
                    self.err_fut.is_some(),
                    self.in_fut.is_some(),
                    self.wait_fut.is_some() || self.output_fut.is_some(),
                ];
                let missing = (0..4).any(|i| expect[i] && has[i] && !w[i]);
                if !missing {
                    break;
                }
                if start.elapsed() > watchdog {
                    timed_out = true;
                    break;
                }
                // something the harness enabled has not arrived yet (thread-pool completion,
                // a descriptor copy in a sibling's fork window): give the OS a moment
                if rounds > 8 {
                    std::thread::sleep(Duration::from_micros(100));
                } else {
                    std::thread::yield_now();
                }
            }
        });
        Resp::Harvest { rounds, woken: self.woken(), timed_out, unsettled }
    }

    fn end(mut self) {
        let rt = self.rt.clone();
        rt.enter(|| {
            self.out_fut = None;
            self.err_fut = None;
            self.in_fut = None;
            self.wait_fut = None;
            self.output_fut = None;
            self.stdin = None;
            self.stdout = None;
            self.stderr = None;
            self.child = None;
            // let cancellations and the blocking pool drain
            for _ in 0..3 {
                rt.poll_with(Some(Duration::ZERO));
                rt.run();
            }
        });
        drop(self);
        drop(rt);
    }
}

pub fn gettid() -> i32 {
    unsafe { libc::syscall(libc::SYS_gettid) as i32 }
}

/// Body of the subject thread.
pub fn subject_main(rx: Receiver<Req>, tx: Sender<Resp>) {
    let tid = gettid();
    let mut ex: Option<Exec> = None;
    while let Ok(req) = rx.recv() {
        let resp = match req {
            Req::Begin { drv, exe, sock, keep_out } => {
                if let Some(e) = ex.take() {
                    e.end();
                }
                match vcore::catch(|| Exec::begin(drv, &exe, &sock, keep_out)) {
                    Ok(Ok((e, pid, fds))) => {
                        ex = Some(e);
                        Resp::Began { pid, fds, tid }
                    }
                    Ok(Err(m)) => Resp::Failed(m),
                    Err(p) => Resp::Failed(format!("panic in begin: {p}")),
                }
            }
            Req::End => {
                if let Some(e) = ex.take() {
                    match vcore::catch(move || e.end()) {
                        Ok(()) => Resp::Ended,
                        Err(p) => Resp::Failed(format!("panic in teardown: {p}")),
                    }
                } else {
                    Resp::Ended
                }
            }
            Req::Quit => break,
            other => {
                let Some(e) = ex.as_mut() else {
                    let _ = tx.send(Resp::Failed("no execution".into()));
                    continue;
                };
                let r = vcore::catch(|| match other {
                    Req::Read { slot, chunk, managed } => Resp::Read(e.read(slot, chunk, managed)),
                    Req::Write { data } => e.write(data),
                    Req::CloseIn => e.close_in(),
                    Req::WaitPoll => e.wait_poll(),
                    Req::OutputPoll => e.output_poll(),
                    Req::Harvest { expect, watchdog } => e.harvest(expect, watchdog),
                    _ => unreachable!(),
                });
                match r {
                    Ok(r) => r,
                    Err(p) => Resp::Failed(format!("panic: {p}")),
                }
            }
        };
        if tx.send(resp).is_err() {
            break;
        }
    }
}
