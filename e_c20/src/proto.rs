//! Shared between harness and child: position-coded stream contents and the checksum.

pub const STDIN: u8 = 0;
pub const STDOUT: u8 = 1;
pub const STDERR: u8 = 2;

/// Byte at offset `i` of stream `s`. Any shift, duplication, loss or cross-stream mix-up of a range
/// changes almost every byte of it.
#[inline]
pub fn code(s: u8, i: u64) -> u8 {
    let x = (i.wrapping_add(1)).wrapping_mul(0x9E37_79B9_7F4A_7C15) ^ ((s as u64 + 1) * 0x5851_F42D);
    (x >> 29) as u8 ^ (x >> 53) as u8
}

pub fn fill(s: u8, off: u64, n: usize) -> Vec<u8> {
    let mut v = Vec::with_capacity(n);
    for k in 0..n as u64 {
        v.push(code(s, off + k));
    }
    v
}

/// first index at which `buf` differs from stream `s` starting at `off`
pub fn first_mismatch(s: u8, off: u64, buf: &[u8]) -> Option<usize> {
    buf.iter()
        .enumerate()
        .find(|(k, b)| **b != code(s, off + *k as u64))
        .map(|(k, _)| k)
}

pub const FNV0: u64 = 0xcbf29ce484222325;

#[inline]
pub fn fnv_step(mut h: u64, b: &[u8]) -> u64 {
    for &x in b {
        h ^= x as u64;
        h = h.wrapping_mul(0x100000001b3);
    }
    h
}

/// checksum of stream `s` over `[0, n)`, continued from `(h, from)`
pub fn fnv_stream(s: u8, h: u64, from: u64, to: u64) -> u64 {
    let mut h = h;
    for i in from..to {
        h ^= code(s, i) as u64;
        h = h.wrapping_mul(0x100000001b3);
    }
    h
}
