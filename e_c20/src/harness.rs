//! Controller side of an execution: talks to the child over the control socket, sends harness
//! steps to the subject thread, keeps the reference model and judges every answer.

use std::{
    io::{BufRead, BufReader, Write},
    os::{
        fd::{AsRawFd, FromRawFd, OwnedFd},
        unix::{
            net::{UnixListener, UnixStream},
            process::ExitStatusExt,
        },
    },
    path::PathBuf,
    sync::mpsc::{Receiver, RecvTimeoutError, Sender, channel},
    time::{Duration, Instant},
};

use crate::{
    plan::{ExitMode, Plan, Step},
    proto::*,
    subject::{self, ReadRes, Req, Resp, SLOT_ERR, SLOT_IN, SLOT_OUT, SLOT_WAIT},
};

/// bound on waiting for a completion the harness itself has enabled; it only ever elapses on a failure
pub const WATCHDOG: Duration = Duration::from_millis(20_000);
static EXPIRIES: std::sync::atomic::AtomicU32 = std::sync::atomic::AtomicU32::new(0);

/// after a few expiries in one run the remaining ones are cut short (a failing tree would otherwise
/// spend the whole budget sleeping); a violation is re-validated with the full watchdog anyway
fn watchdog() -> Duration {
    if EXPIRIES.load(std::sync::atomic::Ordering::Relaxed) >= 4 { WATCHDOG / 10 } else { WATCHDOG }
}

static GRACE_MS: std::sync::atomic::AtomicU64 = std::sync::atomic::AtomicU64::new(30);

pub fn set_grace_ms(ms: u64) {
    GRACE_MS.store(ms, std::sync::atomic::Ordering::Relaxed);
}

pub fn grace() -> Duration {
    Duration::from_millis(GRACE_MS.load(std::sync::atomic::Ordering::Relaxed))
}

pub fn expiries() -> u32 {
    EXPIRIES.load(std::sync::atomic::Ordering::Relaxed)
}

/// violation classes that rest on a watchdog expiry (candidates until they reproduce)
pub fn is_timeout_key(key: &str) -> bool {
    key.contains(":liveness:") || key.contains(":no-eof") || key.contains("harvest:unsettled")
}

pub fn reset_watchdog() {
    EXPIRIES.store(0, std::sync::atomic::Ordering::Relaxed);
}

/// why an execution was cut short
pub enum Abort {
    /// the machinery failed (control channel, spawn, hang of the harness itself)
    Mach(String),
    /// a violation that makes continuing pointless (already recorded)
    Vio,
}

impl From<String> for Abort {
    fn from(s: String) -> Self {
        Abort::Mach(s)
    }
}

type R<T> = Result<T, Abort>;

/// path of this binary, resolved once at start-up (a rebuild while the check runs must not matter)
pub fn exe_path() -> String {
    static EXE: std::sync::OnceLock<String> = std::sync::OnceLock::new();
    EXE.get_or_init(|| {
        std::env::current_exe()
            .unwrap_or_else(|e| vcore::machinery_error(&format!("current_exe: {e}")))
            .to_string_lossy()
            .trim_end_matches(" (deleted)")
            .to_string()
    })
    .clone()
}

/// the program spawned as the child: the lean `e_c20_child` next to this binary if it exists,
/// else this binary itself in `--child` mode
pub fn child_exe() -> String {
    let me = PathBuf::from(exe_path());
    let lean = me.with_file_name("e_c20_child");
    if lean.exists() { lean.to_string_lossy().to_string() } else { exe_path() }
}

pub fn tmp_root() -> PathBuf {
    let base = std::env::var_os("TMPDIR").map(PathBuf::from).unwrap_or_else(|| PathBuf::from("/tmp"));
    base.join(format!("e_c20-{}", std::process::id()))
}

// ---------------------------------------------------------------------------------------------
// worker = controller thread state + its subject thread
// ---------------------------------------------------------------------------------------------

pub struct Worker {
    exe: String,
    dir: PathBuf,
    listener: UnixListener,
    sock_path: String,
    req_tx: Sender<Req>,
    resp_rx: Receiver<Resp>,
    handle: Option<std::thread::JoinHandle<()>>,
    seq: u64,
}

impl Worker {
    pub fn new(idx: usize) -> Worker {
        let exe = child_exe();
        let dir = tmp_root().join(format!("w{idx}"));
        std::fs::create_dir_all(&dir).unwrap_or_else(|e| vcore::machinery_error(&format!("mkdir {dir:?}: {e}")));
        let sock = dir.join("ctl.sock");
        let _ = std::fs::remove_file(&sock);
        let listener =
            UnixListener::bind(&sock).unwrap_or_else(|e| vcore::machinery_error(&format!("bind {sock:?}: {e}")));
        listener.set_nonblocking(true).unwrap();
        let (req_tx, req_rx) = channel();
        let (resp_tx, resp_rx) = channel();
        let handle = std::thread::Builder::new()
            .name(format!("subject-{idx}"))
            .spawn(move || subject::subject_main(req_rx, resp_tx))
            .unwrap();
        Worker {
            exe,
            dir,
            listener,
            sock_path: sock.to_string_lossy().to_string(),
            req_tx,
            resp_rx,
            handle: Some(handle),
            seq: 0,
        }
    }

    /// A new subject thread for every execution: whatever the kernel still owes the previous
    /// runtime's thread (io_uring task work of cancelled operations) must not reach this one.
    fn fresh_subject(&mut self) {
        let _ = self.req_tx.send(Req::Quit);
        if let Some(h) = self.handle.take() {
            if h.is_finished() {
                let _ = h.join();
            }
        }
        let (req_tx, req_rx) = channel();
        let (resp_tx, resp_rx) = channel();
        self.seq += 1;
        let handle = std::thread::Builder::new()
            .name(format!("subject-{}", self.seq))
            .spawn(move || subject::subject_main(req_rx, resp_tx))
            .unwrap();
        self.req_tx = req_tx;
        self.resp_rx = resp_rx;
        self.handle = Some(handle);
    }

    fn accept(&self) -> Result<UnixStream, String> {
        let start = Instant::now();
        loop {
            match self.listener.accept() {
                Ok((s, _)) => {
                    s.set_nonblocking(false).ok();
                    s.set_read_timeout(Some(Duration::from_secs(10))).ok();
                    return Ok(s);
                }
                Err(e) if e.kind() == std::io::ErrorKind::WouldBlock => {
                    if start.elapsed() > Duration::from_secs(30) {
                        return Err("child did not connect to the control socket within 30 s".into());
                    }
                    let mut p = libc::pollfd { fd: self.listener.as_raw_fd(), events: libc::POLLIN, revents: 0 };
                    unsafe { libc::poll(&mut p, 1, 100) };
                }
                Err(e) => return Err(format!("accept: {e}")),
            }
        }
    }
}

impl Drop for Worker {
    fn drop(&mut self) {
        // detach: a subject thread that is stuck inside compio must not take the controller with it
        let _ = self.req_tx.send(Req::Quit);
        drop(self.handle.take());
        let _ = std::fs::remove_dir_all(&self.dir);
    }
}

// ---------------------------------------------------------------------------------------------
// child proxy
// ---------------------------------------------------------------------------------------------

struct Kid {
    tx: UnixStream,
    rx: BufReader<UnixStream>,
    pidfd: OwnedFd,
    alive: bool,
    done: [u64; 2],
    want: [u64; 2],
    werr: [i32; 2],
    in_total: u64,
    in_hash: u64,
    in_eof: bool,
    in_err: i32,
    closed: [bool; 2],
}

impl Kid {
    fn cmd(&mut self, c: &str) -> Result<(), String> {
        self.tx.write_all(c.as_bytes()).and_then(|_| self.tx.write_all(b"\n")).map_err(|e| format!("control write: {e}"))?;
        let mut line = String::new();
        match self.rx.read_line(&mut line) {
            Ok(0) => return Err(format!("child closed the control channel after `{c}`")),
            Ok(_) => {}
            Err(e) => return Err(format!("control read after `{c}`: {e}")),
        }
        let f: Vec<&str> = line.split_whitespace().collect();
        if f.len() != 11 || f[0] != "s" {
            return Err(format!("bad status line {line:?}"));
        }
        let p = |i: usize| f[i].parse::<u64>().unwrap_or(u64::MAX);
        self.done = [p(1), p(4)];
        self.want = [p(2), p(5)];
        self.werr = [p(3) as i32, p(6) as i32];
        self.in_total = p(7);
        self.in_hash = u64::from_str_radix(f[8], 16).unwrap_or(0);
        self.in_eof = f[9] == "1";
        self.in_err = p(10) as i32;
        Ok(())
    }

    fn send_only(&mut self, c: &str) -> Result<(), String> {
        self.tx.write_all(c.as_bytes()).and_then(|_| self.tx.write_all(b"\n")).map_err(|e| format!("control write: {e}"))
    }

    /// wait until the process is gone (zombie or reaped)
    fn wait_dead(&mut self, max: Duration) -> bool {
        let mut p = libc::pollfd { fd: self.pidfd.as_raw_fd(), events: libc::POLLIN, revents: 0 };
        let start = Instant::now();
        loop {
            let r = unsafe { libc::poll(&mut p, 1, 100) };
            if r > 0 {
                self.alive = false;
                return true;
            }
            if start.elapsed() > max {
                return false;
            }
        }
    }

    fn kill_and_reap(&mut self) {
        unsafe {
            libc::syscall(libc::SYS_pidfd_send_signal, self.pidfd.as_raw_fd(), libc::SIGKILL, 0usize, 0u32);
        }
        self.wait_dead(Duration::from_secs(5));
        self.reap();
    }

    /// reap the zombie if nobody did (ECHILD otherwise)
    fn reap(&mut self) {
        unsafe {
            let mut info: libc::siginfo_t = std::mem::zeroed();
            libc::waitid(libc::P_PIDFD, self.pidfd.as_raw_fd() as libc::id_t, &mut info, libc::WEXITED | libc::WNOHANG);
        }
    }
}

// ---------------------------------------------------------------------------------------------
// one execution
// ---------------------------------------------------------------------------------------------

#[derive(Default, Clone, Copy)]
struct StreamSt {
    read: u64,
    eof: bool,
    pending: bool,
}

#[derive(Clone, Copy, PartialEq, Eq, Debug)]
enum WaitSt {
    No,
    Pending,
    Done,
}

pub struct ExecResult {
    pub sig: String,
    /// all observation classes incl. the epilogue's (for the reach counters)
    pub tokens: Vec<String>,
    pub vios: Vec<(String, String)>,
    pub steps: u64,
    pub hist: Vec<String>,
    pub machinery: Option<String>,
    pub counters: Vec<&'static str>,
}

struct Run<'a> {
    w: &'a mut Worker,
    plan: &'a Plan,
    kid: Kid,
    tid: i32,
    fds: [i32; 3],
    st: [StreamSt; 2],
    in_acked: u64,
    in_pending: Option<usize>,
    in_closed: bool,
    in_broken: bool,
    in_exp_hash: (u64, u64),
    wait: WaitSt,
    dead: bool,
    hist: Vec<String>,
    sig: Vec<String>,
    vios: Vec<(String, String)>,
    steps: u64,
    in_epilogue: bool,
    counters: Vec<&'static str>,
    /// the harness had to kill the child to get the runtime thread back: stop judging
    poisoned: bool,
    /// index into `sig` where the epilogue starts
    epi_at: usize,
    /// a rescue (child made to drain stdin while the runtime thread sat in write(2)) happened
    rescued: bool,
}

/// If the thread sleeps inside a system call: (syscall number, first argument).
fn thread_sleeping_in_syscall(tid: i32) -> Option<(i64, i64)> {
    let s = std::fs::read_to_string(format!("/proc/self/task/{tid}/syscall")).ok()?;
    let mut it = s.split_whitespace();
    let nr = it.next()?.parse::<i64>().ok()?;
    if nr < 0 {
        return None;
    }
    let a0 = it.next()?;
    let a0 = i64::from_str_radix(a0.trim_start_matches("0x"), 16).ok()?;
    let stat = std::fs::read_to_string(format!("/proc/self/task/{tid}/stat")).ok()?;
    let state = stat.rsplit(')').next()?.split_whitespace().next()?.to_string();
    if state == "S" { Some((nr, a0)) } else { None }
}

fn thread_blocked_in_write(tid: i32) -> Option<i32> {
    match thread_sleeping_in_syscall(tid) {
        Some((nr, a0)) if nr == libc::SYS_write => Some(a0 as i32),
        _ => None,
    }
}

impl<'a> Run<'a> {
    fn vio(&mut self, key: &str, what: String) {
        let key = format!("{}:{}", self.plan.drv.name(), key);
        if !self.vios.iter().any(|(k, _)| *k == key) {
            self.hist.push(format!("  !! {key}: {what}"));
            self.vios.push((key, what));
        }
    }

    fn note(&mut self, s: String) {
        self.hist.push(s);
    }

    /// child status sanity after every child command
    fn check_kid(&mut self) {
        for s in 0..2 {
            if self.kid.werr[s] != 0 {
                let e = self.kid.werr[s];
                self.vio(
                    &format!("child-write-failed:{}", if s == 0 { "stdout" } else { "stderr" }),
                    format!("the child's write to stream {} failed with errno {e}: the parent's read end is gone although the handle is alive", s + 1),
                );
            }
        }
        // stdin bytes seen by the child
        let max = self.in_acked + self.in_pending.unwrap_or(0) as u64;
        if self.kid.in_total > max {
            self.vio(
                "stdin:child-got-more",
                format!("child has read {} bytes from stdin, but at most {} were submitted", self.kid.in_total, max),
            );
        }
        if self.kid.in_total >= self.in_exp_hash.1 {
            let h = fnv_stream(STDIN, self.in_exp_hash.0, self.in_exp_hash.1, self.kid.in_total);
            self.in_exp_hash = (h, self.kid.in_total);
            if h != self.kid.in_hash {
                self.vio(
                    "stdin:content",
                    format!("checksum of the {} bytes the child read from stdin differs from the bytes written", self.kid.in_total),
                );
            }
        }
        if self.kid.in_eof && !(self.in_closed || self.dead) {
            self.vio("stdin:early-eof", "child saw EOF on stdin although the parent did not close it".into());
        }
        if self.kid.in_err != 0 {
            let e = self.kid.in_err;
            self.vio("stdin:child-read-error", format!("child's read from stdin failed with errno {e}"));
        }
    }

    fn kid_cmd(&mut self, c: &str) -> R<()> {
        self.kid.cmd(c)?;
        self.check_kid();
        Ok(())
    }

    /// the child behaves like a writer blocked in write(2): it continues as soon as there is room
    fn poke(&mut self) -> R<()> {
        if self.kid.alive && (0..2).any(|s| self.kid.want[s] > self.kid.done[s] && !self.kid.closed[s]) {
            self.kid_cmd("P")?;
        }
        Ok(())
    }

    /// Send a request to the subject thread and wait for the answer. If the subject thread is
    /// found sleeping inside write(2) on the child's stdin, that is reported and the child is
    /// commanded to drain its stdin so that the execution can go on.
    fn call(&mut self, req: Req, what: &str) -> R<Resp> {
        self.w.req_tx.send(req).map_err(|_| Abort::Mach("subject thread is gone".to_string()))?;
        let start = Instant::now();
        let mut rescued = 0u32;
        loop {
            let slice = if start.elapsed() < Duration::from_millis(20) { 2 } else { 10 };
            match self.w.resp_rx.recv_timeout(Duration::from_millis(slice)) {
                Ok(Resp::Failed(m)) => {
                    if m.starts_with("panic") {
                        self.vio(&format!("panic:{what}"), format!("compio panicked during {what}: {m}"));
                        return Err(Abort::Vio);
                    }
                    return Err(Abort::Mach(format!("{what}: {m}")));
                }
                Ok(r) => {
                    if self.poisoned {
                        return Err(Abort::Vio);
                    }
                    return Ok(r);
                }
                Err(RecvTimeoutError::Disconnected) => return Err(Abort::Mach("subject thread died".into())),
                Err(RecvTimeoutError::Timeout) => {}
            }
            if let Some(fd) = thread_blocked_in_write(self.tid) {
                if fd == self.fds[0] {
                    if rescued == 0 {
                        self.counters.push("runtime_thread_blocked_in_write");
                        let len = self.in_pending.unwrap_or(0);
                        let child_blocked = self.kid.alive && (0..2).any(|s| self.kid.want[s] > self.kid.done[s] && !self.kid.closed[s]);
                        let unread = self.in_acked.saturating_sub(self.kid.in_total);
                        if child_blocked {
                            self.vio(
                                "stdin-write-blocks-runtime-thread:deadlock-with-child-blocked-on-output",
                                format!(
                                    "during {what} the runtime thread went to sleep inside write(2) on the child's stdin (buffer of {len} bytes, {unread} earlier bytes unread in the pipe) \
                                     while the child itself is blocked writing its output (stdout {}/{} , stderr {}/{} bytes written) which only this runtime thread could read: \
                                     with a sequential child (write output, then read input) this is a deadlock, nothing written to stdin ever reaches the child",
                                    self.kid.done[0], self.kid.want[0], self.kid.done[1], self.kid.want[1]
                                ),
                            );
                        } else {
                            self.vio(
                                "stdin-write-blocks-runtime-thread",
                                format!(
                                    "during {what} the runtime thread went to sleep inside write(2) on the child's stdin (buffer of {len} bytes, {unread} earlier bytes unread in the pipe): \
                                     nothing else on this runtime (reading the child's stdout/stderr, wait, any other task) can make progress until the child consumes its stdin"
                                ),
                            );
                        }
                    }
                    rescued += 1;
                    self.rescued = true;
                    if self.kid.alive {
                        // the write in flight is now partly in the pipe
                        if self.in_pending.is_none() {
                            return Err(Abort::Mach("blocked in write without a write in flight".into()));
                        }
                        self.kid_cmd("R 1048576")?;
                        self.note(format!("  (rescue: child drained stdin, total read {})", self.kid.in_total));
                    }
                }
            }
            if let Some((nr, _)) = thread_sleeping_in_syscall(self.tid) {
                if (nr == libc::SYS_wait4 || nr == libc::SYS_waitid) && self.kid.alive && start.elapsed() > Duration::from_millis(50) {
                    // the runtime thread itself waits for the child: it will not return before the child ends
                    self.vio(
                        "wait-blocks-runtime-thread",
                        format!("during {what} the runtime thread went to sleep inside wait4/waitid for the live child: the whole runtime is stalled until the child ends"),
                    );
                    self.kid.kill_and_reap();
                    self.dead = true;
                    self.poisoned = true;
                }
            }
            if let Some((nr, a0)) = thread_sleeping_in_syscall(self.tid) {
                let on = (1..3).find(|&k| a0 as i32 == self.fds[k]);
                if (nr == libc::SYS_read || nr == libc::SYS_readv) && on.is_some() && start.elapsed() > Duration::from_millis(100) && !self.poisoned {
                    // the runtime thread sleeps inside read(2) on an empty blocking pipe of the child
                    // (seeded change C20-c m2: an eager read before the readiness wait)
                    self.counters.push("runtime_thread_blocked_in_read");
                    self.vio(
                        "stdio-read-blocks-runtime-thread",
                        format!(
                            "during {what} the runtime thread went to sleep inside read(2) on the child's {} pipe, which is empty: nothing else on this runtime (the stdin write, the other stream, wait, timers) can make progress until the child writes or exits",
                            if on == Some(1) { "stdout" } else { "stderr" }
                        ),
                    );
                    self.kid.kill_and_reap();
                    self.dead = true;
                    self.poisoned = true;
                }
            }
            if start.elapsed() > Duration::from_secs(60) {
                return Err(Abort::Mach(format!("{what}: subject thread did not answer within 60 s")));
            }
        }
    }

    fn stream_name(s: usize) -> &'static str {
        if s == 0 { "out" } else { "err" }
    }

    fn do_read(&mut self, s: usize, chunk: usize) -> R<bool> {
        let slot = if s == 0 { SLOT_OUT } else { SLOT_ERR };
        let nm = Self::stream_name(s);
        let r = self.call(Req::Read { slot, chunk, managed: self.plan.managed }, "read")?;
        let Resp::Read(r) = r else { return Err(Abort::Mach("unexpected response to Read".into())) };
        let stream_id = if s == 0 { STDOUT } else { STDERR };
        match r {
            ReadRes::Pending => {
                self.st[s].pending = true;
                self.note(format!("Read{nm}({chunk}) -> Pending"));
                self.sig.push(format!("R{nm}:P"));
                Ok(false)
            }
            ReadRes::Ready { n: Err(e), .. } => {
                self.st[s].pending = false;
                self.note(format!("Read{nm}({chunk}) -> Err({e})"));
                self.sig.push(format!("R{nm}:E"));
                self.vio(&format!("read-{nm}:error"), format!("read returned an error: {e}"));
                self.st[s].eof = true;
                Ok(true)
            }
            ReadRes::Ready { n: Ok(n), buf } => {
                self.st[s].pending = false;
                self.note(format!("Read{nm}({chunk}) -> Ready({n}) [buffer len {}]", buf.len()));
                let class = if n == 0 {
                    "eof"
                } else if n == chunk {
                    "full"
                } else {
                    "short"
                };
                self.sig.push(format!("R{nm}:{class}"));
                if buf.len() != n {
                    self.vio(
                        &format!("read-{nm}:buffer-length"),
                        format!("read reported {n} bytes but the returned buffer has length {}", buf.len()),
                    );
                }
                if n > chunk && !self.plan.managed {
                    self.vio(&format!("read-{nm}:overlong"), format!("read returned {n} > chunk {chunk}"));
                }
                if n == 0 {
                    let closed = self.dead || self.kid.closed[s];
                    if !closed {
                        self.vio(
                            &format!("read-{nm}:early-eof"),
                            "read returned EOF although the child is alive and has the stream open".into(),
                        );
                    } else if self.st[s].read != self.kid.done[s] {
                        self.vio(
                            &format!("read-{nm}:lost-tail"),
                            format!("EOF after {} bytes but the child wrote {}", self.st[s].read, self.kid.done[s]),
                        );
                    }
                    self.st[s].eof = true;
                } else {
                    if self.st[s].eof {
                        self.vio(&format!("read-{nm}:data-after-eof"), format!("{n} bytes after EOF"));
                    }
                    let data = &buf[..n.min(buf.len())];
                    if let Some(k) = first_mismatch(stream_id, self.st[s].read, data) {
                        self.vio(
                            &format!("read-{nm}:content"),
                            format!("byte {} of the stream (offset {k} of this read of {n}) is not what the child wrote there", self.st[s].read + k as u64),
                        );
                    }
                    self.st[s].read += n as u64;
                    if self.st[s].read > self.kid.done[s] {
                        self.vio(
                            &format!("read-{nm}:more-than-written"),
                            format!("{} bytes read but the child wrote only {}", self.st[s].read, self.kid.done[s]),
                        );
                    }
                }
                Ok(true)
            }
        }
    }

    fn do_write(&mut self, len: usize) -> R<bool> {
        if self.in_closed {
            self.note("WriteIn -> n/a (stdin closed)".into());
            return Ok(true);
        }
        let data = if self.in_pending.is_none() {
            self.in_pending = Some(len);
            Some(fill(STDIN, self.in_acked, len))
        } else {
            None
        };
        let len = self.in_pending.unwrap();
        let r = self.call(Req::Write { data }, "write")?;
        let Resp::Write { res } = r else { return Err(Abort::Mach("unexpected response to Write".into())) };
        match res {
            None => {
                self.note(format!("WriteIn({len}) -> Pending"));
                self.sig.push("WI:P".into());
                Ok(false)
            }
            Some(Ok(n)) => {
                self.in_pending = None;
                self.note(format!("WriteIn({len}) -> Ready({n})"));
                self.sig.push(format!("WI:{}", if n == len { "full" } else { "partial" }));
                if n == 0 || n > len {
                    self.vio("write-in:count", format!("write of {len} bytes reported {n}"));
                }
                self.in_acked += n.min(len) as u64;
                Ok(true)
            }
            Some(Err(e)) => {
                self.in_pending = None;
                self.note(format!("WriteIn({len}) -> Err({e})"));
                if self.dead {
                    self.sig.push("WI:epipe".into());
                    self.in_broken = true;
                } else {
                    self.sig.push("WI:E".into());
                    self.vio("write-in:error", format!("write to the live child's stdin failed: {e}"));
                    self.in_broken = true;
                }
                Ok(true)
            }
        }
    }

    fn do_close_in(&mut self) -> R<bool> {
        if self.in_closed {
            return Ok(true);
        }
        let r = self.call(Req::CloseIn, "close-in")?;
        let Resp::Closed(c) = r else { return Err(Abort::Mach("unexpected response to CloseIn".into())) };
        if c {
            self.in_closed = true;
            self.note("CloseIn -> closed".into());
            self.sig.push("CL".into());
        } else {
            self.note("CloseIn -> n/a (a write is in flight)".into());
            self.sig.push("CL:busy".into());
        }
        Ok(c)
    }

    fn do_wait(&mut self) -> R<bool> {
        if self.wait == WaitSt::Done {
            self.note("WaitPoll -> n/a (already yielded)".into());
            return Ok(true);
        }
        let r = self.call(Req::WaitPoll, "wait")?;
        let Resp::Wait { res } = r else { return Err(Abort::Mach("unexpected response to WaitPoll".into())) };
        match res {
            None => {
                self.wait = WaitSt::Pending;
                self.note("WaitPoll -> Pending".into());
                self.sig.push("WT:P".into());
                Ok(false)
            }
            Some(Err(e)) => {
                self.wait = WaitSt::Done;
                self.note(format!("WaitPoll -> Err({e})"));
                self.sig.push("WT:E".into());
                self.vio("wait:error", format!("wait failed: {e}"));
                Ok(true)
            }
            Some(Ok(status)) => {
                self.wait = WaitSt::Done;
                self.note(format!("WaitPoll -> Ready({status:?})"));
                let got = match (status.code(), status.signal()) {
                    (Some(c), _) => format!("exit{c}"),
                    (None, Some(s)) => format!("sig{s}"),
                    _ => format!("raw{:#x}", status.into_raw()),
                };
                self.sig.push(format!("WT:{got}"));
                if !self.dead {
                    self.vio(
                        "wait:before-exit",
                        format!("wait yielded {got} although the child had not been told to exit yet"),
                    );
                } else if got != self.plan.mode.name() {
                    self.vio(
                        &format!("wait:wrong-status:{}", self.plan.mode.name()),
                        format!("child ended with {} but wait yielded {got}", self.plan.mode.name()),
                    );
                }
                Ok(true)
            }
        }
    }

    /// `wait_with_output()`: status and both complete outputs at once
    fn do_output(&mut self) -> R<bool> {
        if self.wait == WaitSt::Done {
            self.note("OutputPoll -> n/a (already yielded)".into());
            return Ok(true);
        }
        let r = self.call(Req::OutputPoll, "wait_with_output")?;
        let Resp::Output { res } = r else { return Err(Abort::Mach("unexpected response to OutputPoll".into())) };
        match res {
            None => {
                self.wait = WaitSt::Pending;
                self.note("OutputPoll -> Pending".into());
                self.sig.push("WO:P".into());
                Ok(false)
            }
            Some(Err(e)) => {
                self.wait = WaitSt::Done;
                self.note(format!("OutputPoll -> Err({e})"));
                self.sig.push("WO:E".into());
                self.vio("output:error", format!("wait_with_output failed: {e}"));
                self.st[0].eof = true;
                self.st[1].eof = true;
                Ok(true)
            }
            Some(Ok((status, out, err))) => {
                self.wait = WaitSt::Done;
                self.note(format!("OutputPoll -> Ready({status:?}, stdout {} bytes, stderr {} bytes)", out.len(), err.len()));
                let got = match (status.code(), status.signal()) {
                    (Some(c), _) => format!("exit{c}"),
                    (None, Some(s)) => format!("sig{s}"),
                    _ => format!("raw{:#x}", status.into_raw()),
                };
                self.sig.push(format!("WO:{got}"));
                if !self.dead {
                    self.vio("output:before-exit", format!("wait_with_output yielded {got} although the child had not been told to exit yet"));
                } else if got != self.plan.mode.name() {
                    self.vio(
                        &format!("output:wrong-status:{}", self.plan.mode.name()),
                        format!("child ended with {} but wait_with_output yielded {got}", self.plan.mode.name()),
                    );
                }
                for (s, data) in [(0usize, &out), (1usize, &err)] {
                    let nm = Self::stream_name(s);
                    let id = if s == 0 { STDOUT } else { STDERR };
                    if data.len() as u64 != self.kid.done[s] {
                        self.vio(
                            &format!("output:{nm}-length"),
                            format!("collected std{nm} has {} bytes, the child wrote {}", data.len(), self.kid.done[s]),
                        );
                    }
                    if let Some(k) = first_mismatch(id, 0, data) {
                        self.vio(&format!("output:{nm}-content"), format!("byte {k} of the collected std{nm} is not what the child wrote there"));
                    }
                    self.st[s].read = data.len() as u64;
                    self.st[s].eof = true;
                }
                Ok(true)
            }
        }
    }

    fn do_harvest(&mut self) -> R<()> {
        let mut expect = [false; 4];
        for s in 0..2 {
            expect[if s == 0 { SLOT_OUT } else { SLOT_ERR }] =
                self.st[s].pending && (self.kid.done[s] > self.st[s].read || self.dead || self.kid.closed[s]);
        }
        expect[SLOT_IN] = self.in_pending.is_some() && (self.kid.in_total >= self.in_acked || self.dead);
        expect[SLOT_WAIT] = self.wait == WaitSt::Pending && self.dead;
        let r = self.call(Req::Harvest { expect, watchdog: watchdog() }, "harvest")?;
        let Resp::Harvest { rounds, woken, timed_out, unsettled } = r else {
            return Err(Abort::Mach("unexpected response to Harvest".into()));
        };
        let names = ["read-out", "read-err", "write-in", "wait"];
        let w: Vec<&str> = (0..4).filter(|&i| woken[i]).map(|i| names[i]).collect();
        self.note(format!("Harvest -> woke [{}] ({} rounds)", w.join(","), rounds));
        if !self.in_epilogue {
            self.sig.push(format!("H:{}", w.join("+")));
        }
        // negative observation: a pending wait must stay pending while the child lives. Its completion
        // would come from another thread (blocking pool) at a time the harness does not control, so give
        // it a fixed grace period; too short a grace can only miss a bug, never raise a false alarm.
        if self.wait == WaitSt::Pending && !self.dead && !self.in_epilogue && !self.plan.output {
            std::thread::sleep(grace());
            let r = self.call(Req::Harvest { expect: [false; 4], watchdog: Duration::ZERO }, "harvest")?;
            if let Resp::Harvest { woken, .. } = r {
                if woken[SLOT_WAIT] {
                    self.note("  (wait future woken while the child is alive: polling it)".into());
                    self.do_wait()?;
                }
            }
        }
        if unsettled {
            self.vio("harvest:unsettled", format!("the runtime did not become quiescent within {rounds} zero-timeout rounds"));
        }
        if timed_out {
            EXPIRIES.fetch_add(1, std::sync::atomic::Ordering::Relaxed);
            for i in 0..4 {
                if expect[i] && !woken[i] {
                    self.vio(
                        &format!("liveness:{}", names[i]),
                        format!(
                            "{} was enabled by the harness ({}) but its future was not woken within {} ms of zero-timeout harvesting",
                            names[i],
                            match i {
                                SLOT_WAIT => "child is dead".to_string(),
                                SLOT_IN => "pipe drained by the child".to_string(),
                                _ => "data acked by the child / write end closed".to_string(),
                            },
                            WATCHDOG.as_millis()
                        ),
                    );
                }
            }
        }
        Ok(())
    }

    fn do_step(&mut self, st: Step) -> R<()> {
        self.steps += 1;
        match st {
            Step::ChildWrite { stream, n } => {
                if self.kid.alive {
                    self.kid_cmd(&format!("W {stream} {n}"))?;
                    let s = (stream - 1) as usize;
                    self.note(format!(
                        "Child{}({n}) -> child has written {}/{}",
                        if s == 0 { "Out" } else { "Err" },
                        self.kid.done[s],
                        self.kid.want[s]
                    ));
                    // with an io_uring read already in flight the kernel drains the pipe concurrently with the
                    // child's write: how much fits at once is then a matter of timing, not of the plan
                    let racing = self.st[s].pending && self.plan.drv == subject::Drv::IoUring;
                    let class = if racing { "inflight" } else if self.kid.done[s] == self.kid.want[s] { "all" } else { "part" };
                    self.sig.push(format!("C{}:{class}", Self::stream_name(s)));
                }
            }
            Step::ChildRead { n } => {
                if self.kid.alive {
                    let before = self.kid.in_total;
                    self.kid_cmd(&format!("R {n}"))?;
                    self.note(format!("ChildReadIn({n}) -> got {} (total {}, eof {})", self.kid.in_total - before, self.kid.in_total, self.kid.in_eof));
                    let got = self.kid.in_total - before;
                    let racing = (self.in_pending.is_some() && self.plan.drv == subject::Drv::IoUring) || self.rescued;
                    let class = if racing { "inflight" } else if got == 0 { "0" } else if got == n as u64 { "full" } else { "short" };
                    self.sig.push(format!("CI:{class}{}", if self.kid.in_eof { "+eof" } else { "" }));
                }
            }
            Step::ChildClose { stream } => {
                if self.kid.alive {
                    let s = (stream - 1) as usize;
                    self.kid.closed[s] = true;
                    self.kid_cmd(&format!("C {stream}"))?;
                    self.note(format!("ChildClose({stream}) -> child had written {}/{}", self.kid.done[s], self.kid.want[s]));
                    self.sig.push("CC".into());
                }
            }
            Step::ChildExit(mode) => {
                if self.kid.alive {
                    match mode {
                        ExitMode::Code(c) => self.kid.send_only(&format!("X {c}"))?,
                        ExitMode::Signal(s) => self.kid.send_only(&format!("K {s}"))?,
                    }
                    if !self.kid.wait_dead(Duration::from_secs(10)) {
                        return Err(Abort::Mach("child did not die within 10 s of being told to".into()));
                    }
                    self.dead = true;
                    self.note(format!(
                        "ChildExit({}) -> dead; it had written out {}/{} err {}/{} and read {} from stdin",
                        mode.name(),
                        self.kid.done[0],
                        self.kid.want[0],
                        self.kid.done[1],
                        self.kid.want[1],
                        self.kid.in_total
                    ));
                    self.sig.push("CX".into());
                }
            }
            Step::Read { stream, chunk } => {
                self.do_read((stream - 1) as usize, chunk)?;
            }
            Step::WriteIn { len } => {
                self.do_write(len)?;
            }
            Step::CloseIn => {
                self.do_close_in()?;
            }
            Step::Wait => {
                self.do_wait()?;
            }
            Step::Output => {
                self.do_output()?;
            }
            Step::Harvest => self.do_harvest()?,
        }
        self.poke()
    }

    /// Canonical completion of every execution: deliver everything, end the child, read to EOF,
    /// obtain the status. Uses the same steps and the same oracle as the enumerated part.
    fn epilogue(&mut self) -> R<()> {
        self.in_epilogue = true;
        self.epi_at = self.sig.len();
        self.note("-- epilogue --".into());
        let chunk = self.plan.chunk;
        // 1. stdin: complete the write in flight, close, let the child read to EOF
        let mut guard = 0;
        while self.in_pending.is_some() {
            guard += 1;
            if guard > 64 {
                self.vio("liveness:write-in", "a write to stdin did not complete although the child kept draining its stdin".into());
                break;
            }
            if self.kid.alive {
                self.steps += 1;
                self.kid_cmd("R 1048576")?;
                self.note(format!("ChildReadIn(all) -> total {}", self.kid.in_total));
            }
            self.steps += 2;
            self.do_harvest()?;
            self.do_write(0)?;
        }
        if !self.in_closed {
            self.steps += 1;
            self.do_close_in()?;
        }
        if self.kid.alive {
            let start = Instant::now();
            loop {
                self.steps += 1;
                self.kid_cmd("R 1048576")?;
                if self.kid.in_eof {
                    break;
                }
                if start.elapsed() > watchdog() {
                    EXPIRIES.fetch_add(1, std::sync::atomic::Ordering::Relaxed);
                    self.vio("stdin:no-eof", format!("the parent closed stdin but the child does not see EOF (it has read {} bytes)", self.kid.in_total));
                    break;
                }
                std::thread::sleep(Duration::from_micros(200));
            }
            self.note(format!("ChildReadIn(to EOF) -> total {} eof {}", self.kid.in_total, self.kid.in_eof));
            if self.kid.in_eof && self.kid.in_total != self.in_acked {
                self.vio(
                    "stdin:lost",
                    format!("writes to stdin reported {} bytes in total but the child read {} before EOF", self.in_acked, self.kid.in_total),
                );
            }
        }
        if self.plan.output {
            return self.epilogue_output();
        }
        // 2. let the child finish what it was told to write (the parent must read for that)
        let mut guard = 0u64;
        while self.kid.alive && (0..2).any(|s| self.kid.want[s] > self.kid.done[s] && !self.kid.closed[s]) {
            guard += 1;
            if guard > 4 * (self.kid.want[0] + self.kid.want[1]) / chunk as u64 + 64 {
                self.vio("liveness:child-write", "the child's pending write did not finish although the parent kept reading".into());
                break;
            }
            for s in 0..2 {
                if self.kid.want[s] > self.kid.done[s] || self.st[s].pending {
                    self.steps += 1;
                    if !self.do_read(s, chunk)? {
                        self.steps += 1;
                        self.do_harvest()?;
                        self.steps += 1;
                        self.do_read(s, chunk)?;
                    }
                }
            }
            self.poke()?;
        }
        // 3. end the child
        if self.kid.alive {
            self.do_step(Step::ChildExit(self.plan.mode))?;
        }
        // 4. read both streams to EOF
        for s in 0..2 {
            let mut guard = 0u64;
            let bound = (self.kid.done[s] - self.st[s].read.min(self.kid.done[s])) + 16;
            while !self.st[s].eof {
                guard += 1;
                if guard > bound {
                    self.vio(&format!("read-{}:no-eof", Self::stream_name(s)), "no EOF after the child died and everything was read".into());
                    break;
                }
                self.steps += 1;
                if !self.do_read(s, chunk)? {
                    self.steps += 1;
                    self.do_harvest()?;
                    self.steps += 1;
                    if !self.do_read(s, chunk)? {
                        // harvest reported (or will have reported) the liveness problem
                        break;
                    }
                }
            }
            if self.st[s].eof && self.st[s].read < self.kid.done[s] {
                // reported as lost-tail at the EOF already
            }
        }
        // 5. the status
        let mut guard = 0;
        while self.wait != WaitSt::Done {
            guard += 1;
            if guard > 3 {
                self.vio("liveness:wait", "wait did not yield although the child is dead and the runtime was harvested".into());
                break;
            }
            self.steps += 1;
            if !self.do_wait()? {
                self.steps += 1;
                self.do_harvest()?;
            }
        }
        Ok(())
    }
}

impl<'a> Run<'a> {
    fn epilogue_output(&mut self) -> R<()> {
        // the future reads both streams itself; keep polling + harvesting until the child is done
        let mut guard = 0u64;
        while self.kid.alive && (0..2).any(|s| self.kid.want[s] > self.kid.done[s] && !self.kid.closed[s]) {
            guard += 1;
            if guard > 20_000 {
                self.vio("liveness:child-write", "the child's pending write did not finish although wait_with_output kept being polled".into());
                break;
            }
            self.steps += 2;
            self.do_output()?;
            self.do_harvest()?;
            self.poke()?;
        }
        if self.kid.alive {
            self.do_step(Step::ChildExit(self.plan.mode))?;
        }
        let start = Instant::now();
        let mut guard = 0u64;
        while self.wait != WaitSt::Done {
            guard += 1;
            if guard > 20_000 || start.elapsed() > 4 * WATCHDOG {
                self.vio("liveness:output", "wait_with_output did not yield although the child is dead and the runtime was harvested".into());
                break;
            }
            self.steps += 1;
            if !self.do_output()? {
                self.steps += 1;
                self.do_harvest()?;
            }
        }
        Ok(())
    }
}

/// Execute one plan from a fresh runtime and a fresh child.
pub fn execute(w: &mut Worker, plan: &Plan) -> ExecResult {
    let mut res = ExecResult { sig: String::new(), tokens: vec![], vios: vec![], steps: 0, hist: vec![], machinery: None, counters: vec![] };
    let t0 = Instant::now();
    let timing = std::env::var_os("C20_TIMING_EXEC").is_some();
    w.fresh_subject();
    if w.req_tx.send(Req::Begin { drv: plan.drv, exe: w.exe.clone(), sock: w.sock_path.clone(), keep_out: plan.output }).is_err() {
        res.machinery = Some("subject thread is gone".into());
        return res;
    }
    let (pid, fds, tid) = match w.resp_rx.recv_timeout(Duration::from_secs(20)) {
        Ok(Resp::Began { pid, fds, tid }) => (pid, fds, tid),
        Ok(Resp::Failed(m)) => {
            res.machinery = Some(m);
            return res;
        }
        _ => {
            res.machinery = Some("no answer to Begin".into());
            return res;
        }
    };
    if timing { eprintln!("t begin {:?}", t0.elapsed()); }
    let pidfd = unsafe { libc::syscall(libc::SYS_pidfd_open, pid as libc::pid_t, 0u32) } as i32;
    if pidfd < 0 {
        res.machinery = Some(format!("pidfd_open: {}", std::io::Error::last_os_error()));
        return res;
    }
    let pidfd = unsafe { OwnedFd::from_raw_fd(pidfd) };
    let kill_reap = |pidfd: &OwnedFd| unsafe {
        libc::syscall(libc::SYS_pidfd_send_signal, pidfd.as_raw_fd(), libc::SIGKILL, 0usize, 0u32);
        let mut info: libc::siginfo_t = std::mem::zeroed();
        libc::waitid(libc::P_PIDFD, pidfd.as_raw_fd() as libc::id_t, &mut info, libc::WEXITED);
    };
    let sock = match w.accept() {
        Ok(s) => s,
        Err(m) => {
            kill_reap(&pidfd);
            res.machinery = Some(m);
            return res;
        }
    };
    let tx = sock.try_clone().unwrap();
    let mut rx = BufReader::new(sock);
    let mut hello = String::new();
    let _ = rx.read_line(&mut hello);
    if hello.trim() != format!("hello {pid}") {
        res.machinery = Some(format!("unexpected greeting {hello:?} (expected pid {pid})"));
        kill_reap(&pidfd);
        return res;
    }
    if timing { eprintln!("t hello {:?}", t0.elapsed()); }
    let kid = Kid {
        tx,
        rx,
        pidfd,
        alive: true,
        done: [0; 2],
        want: [0; 2],
        werr: [0; 2],
        in_total: 0,
        in_hash: FNV0,
        in_eof: false,
        in_err: 0,
        closed: [false; 2],
    };
    let mut run = Run {
        w,
        plan,
        kid,
        tid,
        fds,
        st: [StreamSt::default(); 2],
        in_acked: 0,
        in_pending: None,
        in_closed: false,
        in_broken: false,
        in_exp_hash: (FNV0, 0),
        wait: WaitSt::No,
        dead: false,
        hist: vec![],
        sig: vec![plan.drv.name().to_string()],
        vios: vec![],
        steps: 0,
        in_epilogue: false,
        counters: vec![],
        poisoned: false,
        epi_at: usize::MAX,
        rescued: false,
    };
    let mut r: R<()> = Ok(());
    for st in plan.steps.iter() {
        r = run.do_step(*st);
        if r.is_err() {
            break;
        }
    }
    if timing { eprintln!("t steps {:?}", t0.elapsed()); }
    if r.is_ok() {
        r = run.epilogue();
    }
    if timing { eprintln!("t epilogue {:?}", t0.elapsed()); }
    if r.is_ok() {
        // final accounting
        for s in 0..2 {
            if run.st[s].eof && run.st[s].read != run.kid.done[s] && !run.vios.iter().any(|(k, _)| k.contains("lost-tail")) {
                let nm = Run::stream_name(s);
                let (a, b) = (run.st[s].read, run.kid.done[s]);
                run.vio(&format!("read-{nm}:total"), format!("{a} bytes read in total, the child wrote {b}"));
            }
        }
        run.sig.push(format!(
            "end:{} out={} err={} in={}/{}",
            run.plan.mode.name(),
            run.st[0].read,
            run.st[1].read,
            run.kid.in_total,
            run.in_acked
        ));
    }
    // teardown
    if run.kid.alive {
        run.kid.kill_and_reap();
    }
    let _ = run.in_broken;
    let ended = run.w.req_tx.send(Req::End).is_ok()
        && matches!(run.w.resp_rx.recv_timeout(Duration::from_secs(20)), Ok(Resp::Ended));
    run.kid.reap();
    if timing { eprintln!("t end {:?}", t0.elapsed()); }
    // the outcome class of an execution: what the enumerated steps observed + the final totals (the
    // epilogue's intermediate observations follow from them)
    let cut = run.epi_at.min(run.sig.len());
    let mut sig: Vec<String> = run.sig[..cut].to_vec();
    if let Some(last) = run.sig.last() {
        if last.starts_with("end:") && cut < run.sig.len() {
            sig.push(last.clone());
        }
    }
    res.sig = sig.join(" ");
    res.tokens = std::mem::take(&mut run.sig);
    res.vios = std::mem::take(&mut run.vios);
    res.steps = run.steps;
    res.hist = std::mem::take(&mut run.hist);
    res.counters = std::mem::take(&mut run.counters);
    if let Err(Abort::Mach(m)) = r {
        res.machinery = Some(format!("{m}\nplan: {}\nhistory:\n{}", plan.describe(), res.hist.join("\n")));
    } else if !ended {
        res.machinery = Some("teardown of the runtime failed or hung".into());
    }
    res
}

pub fn cleanup_tmp() {
    let _ = std::fs::remove_dir_all(tmp_root());
}
