//! Scenarios: initial state + the operation alphabet enabled in a given (reference) state.
use std::collections::BTreeSet;

use crate::world::*;

#[derive(Clone, Copy, Debug, PartialEq, Eq)]
pub enum Level {
    Full,
    Mid,
}

#[derive(Clone, Copy, Debug, PartialEq, Eq)]
pub enum Handle {
    Rw,
    Ro,
    Wo,
    /// read + write + O_APPEND
    Ap,
}

#[derive(Clone, Copy, Debug, PartialEq, Eq)]
pub enum OpenInit {
    Absent,
    Present,
    IsDir,
}

#[derive(Clone, Debug, PartialEq, Eq)]
pub enum Scenario {
    /// one open handle on file "f" (initial content given), positional I/O alphabet
    File { handle: Handle, initial: Vec<u8>, level: Level },
    /// path "f" in a given initial condition, alphabet = every OpenOptions combination + probes
    Open { init: OpenInit, level: Level },
    /// one read/write handle on "f" = "ABCD"; offsets and sizes at the edge of the signed 64-bit range
    FileExtreme,
    /// anonymous pipe; reads are enabled only when they cannot block (data buffered or writer closed)
    Pipe { level: Level },
    /// zero-capacity reads on an EMPTY pipe whose writer is open (the OS answers 0 at once)
    PipeZero,
    /// directory utilities over a small tree
    Dir { level: Level },
}

pub const SHAPES: [Shape; 4] = [(0, 4), (2, 4), (4, 4), (0, 0)];
pub const LAYOUTS: [&[usize]; 4] = [&[4], &[0, 4], &[2, 2], &[1, 0, 3]];

#[derive(Clone, Copy, Debug, PartialEq, Eq)]
pub enum Fill {
    Spare,
    Init,
    Half,
}

fn members(layout: &[usize], fill: Fill) -> Vec<Shape> {
    layout
        .iter()
        .map(|&cap| {
            let len = match fill {
                Fill::Spare => 0,
                Fill::Init => cap,
                Fill::Half => cap / 2,
            };
            (len, cap)
        })
        .collect()
}

/// payload of the write issued at step `step`: every byte identifies (step, index)
pub fn payload(step: usize, n: usize) -> Vec<u8> {
    (0..n).map(|i| ((step as u8 + 1) << 4) | i as u8).collect()
}

fn parts(step: usize, layout: &[usize]) -> Vec<Vec<u8>> {
    let total: usize = layout.iter().sum();
    let all = payload(step, total);
    let mut out = Vec::new();
    let mut pos = 0;
    for &l in layout {
        out.push(all[pos..pos + l].to_vec());
        pos += l;
    }
    out
}

fn offsets(len: u64, which: &[&str]) -> Vec<u64> {
    let mut s = BTreeSet::new();
    for w in which {
        match *w {
            "0" => {
                s.insert(0);
            }
            "1" => {
                s.insert(1);
            }
            "len-1" => {
                if len >= 1 {
                    s.insert(len - 1);
                }
            }
            "len" => {
                s.insert(len);
            }
            "len+3" => {
                s.insert(len + 3);
            }
            _ => unreachable!(),
        }
    }
    s.into_iter().collect()
}

pub fn file_len(st: &State) -> Option<u64> {
    st.tree.iter().find(|e| e.0 == "f" && e.1 == 'f').map(|e| e.2)
}

impl Scenario {
    pub fn family(&self) -> &'static str {
        match self {
            Scenario::File { .. } | Scenario::FileExtreme => "file",
            Scenario::Open { .. } => "open",
            Scenario::Pipe { .. } | Scenario::PipeZero => "pipe",
            Scenario::Dir { .. } => "dir",
        }
    }

    pub fn snap_mode(&self) -> SnapMode {
        match self {
            Scenario::File { .. } | Scenario::FileExtreme => SnapMode::FileFd,
            Scenario::Open { .. } | Scenario::Dir { .. } => SnapMode::Walk,
            Scenario::Pipe { .. } | Scenario::PipeZero => SnapMode::None,
        }
    }

    pub fn name(&self) -> String {
        match self {
            Scenario::File { handle, initial, level } => format!("file.{handle:?}.init{}.{level:?}", initial.len()),
            Scenario::FileExtreme => "file.extreme-offsets".into(),
            Scenario::Open { init, level } => format!("open.{init:?}.{level:?}"),
            Scenario::Pipe { level } => format!("pipe.{level:?}"),
            Scenario::PipeZero => "pipe.zero-read-on-empty".into(),
            Scenario::Dir { level } => format!("dir.{level:?}"),
        }
    }

    /// Bring a freshly reset world into the initial state. The part done through the world's own
    /// API (opening the handle, creating the pipe) is returned as observations and compared.
    pub fn setup(&self, w: &mut dyn World) -> Vec<(String, Obs)> {
        let mut out = Vec::new();
        let dir = w.base().dir.clone();
        let must = |r: std::io::Result<()>| {
            if let Err(e) = r {
                vcore::machinery_error(&format!("scenario setup failed in {dir:?}: {e}"));
            }
        };
        match self {
            Scenario::File { handle, initial, .. } => {
                must(w.base().create_probe_file(initial));
                let fl = match handle {
                    Handle::Rw => OpenFlags::from_bits(1 | 2),
                    Handle::Ro => OpenFlags::from_bits(1),
                    Handle::Wo => OpenFlags::from_bits(2),
                    Handle::Ap => OpenFlags::from_bits(1 | 2 | 4),
                };
                let op = Op::Open(fl);
                let o = w.exec(&op);
                out.push((format!("{op:?}"), o));
            }
            Scenario::FileExtreme => {
                must(w.base().create_probe_file(b"ABCD"));
                let op = Op::Open(OpenFlags::from_bits(1 | 2));
                let o = w.exec(&op);
                out.push((format!("{op:?}"), o));
            }
            Scenario::Open { init, .. } => match init {
                OpenInit::Absent => {}
                OpenInit::Present => must(std::fs::write(dir.join("f"), b"ABCD")),
                OpenInit::IsDir => must(std::fs::create_dir(dir.join("f"))),
            },
            Scenario::Pipe { .. } | Scenario::PipeZero => {
                let o = w.make_pipe();
                out.push(("pipe::anonymous()".into(), o));
            }
            Scenario::Dir { .. } => {
                must(std::fs::write(dir.join("a"), b"ABCD"));
                must(std::fs::create_dir(dir.join("d")));
                must(std::fs::create_dir(dir.join("e")));
                must(std::fs::write(dir.join("e/x"), b"xy"));
            }
        }
        out
    }

    /// Operations enabled in reference state `st` at step `step`.
    pub fn alphabet(&self, st: &State, step: usize) -> Vec<Op> {
        let mut a = Vec::new();
        match self {
            Scenario::File { level, .. } => {
                if !st.has_file {
                    return a;
                }
                let len = file_len(st).unwrap_or(0);
                file_ops(&mut a, len, step, *level);
            }
            Scenario::FileExtreme => {
                if !st.has_file {
                    return a;
                }
                for off in [i64::MAX as u64, 1u64 << 63, u64::MAX] {
                    a.push(Op::ReadAt { off, shape: (0, 4) });
                    a.push(Op::WriteAt { off, data: payload(step, 1) });
                    a.push(Op::WriteAt { off, data: vec![] });
                    a.push(Op::ReadVAt { off, members: vec![(2, 2), (2, 2)] });
                    a.push(Op::WriteVAt { off, parts: parts(step, &[1, 1]) });
                }
                a.push(Op::SetLen(1u64 << 63));
                a.push(Op::SetLen(u64::MAX));
                // probes that make a moved file position / changed content visible
                a.push(Op::ReadAt { off: 0, shape: (0, 4) });
                a.push(Op::Metadata);
            }
            Scenario::Open { level, .. } => {
                let combos: Vec<u32> = match level {
                    Level::Full => (0..64).collect(),
                    // r, w, rw, w+a, a alone, r+a, w+t, t alone, w+c, c alone, w+n, r+w+c+t, w+c+n, r+t
                    _ => vec![1, 2, 3, 6, 4, 5, 10, 8, 18, 16, 34, 27, 50, 9],
                };
                for c in combos {
                    a.push(Op::Open(OpenFlags::from_bits(c)));
                }
                if st.has_file {
                    let len = file_len(st).unwrap_or(0);
                    a.push(Op::WriteAt { off: 0, data: payload(step, 1) });
                    a.push(Op::WriteAt { off: 1, data: payload(step, 2) });
                    a.push(Op::ReadAt { off: 0, shape: (0, 4) });
                    a.push(Op::SetLen(1));
                    a.push(Op::SetLen(len + 3));
                    a.push(Op::Metadata);
                    a.push(Op::Close);
                }
                a.push(Op::RemoveFile("f".into()));
                a.push(Op::PathMeta("f".into()));
            }
            Scenario::Pipe { level } => {
                let buffered = st.pipe_buffered.unwrap_or(0);
                if st.tx_open {
                    for n in [0usize, 1, 4] {
                        a.push(Op::PWrite { data: payload(step, n) });
                    }
                    let lays: &[&[usize]] = if *level == Level::Full { &LAYOUTS } else { &LAYOUTS[2..] };
                    for l in lays {
                        a.push(Op::PWriteV { parts: parts(step, l) });
                    }
                }
                if st.rx_open && (buffered > 0 || !st.tx_open) {
                    let shapes: &[Shape] = if *level == Level::Full { &SHAPES } else { &SHAPES[..2] };
                    for s in shapes {
                        a.push(Op::PRead { shape: *s });
                    }
                    let lays: &[&[usize]] = if *level == Level::Full { &LAYOUTS } else { &LAYOUTS[2..] };
                    for l in lays {
                        for f in [Fill::Spare, Fill::Init] {
                            a.push(Op::PReadV { members: members(l, f) });
                        }
                    }
                }
                if st.tx_open {
                    a.push(Op::CloseTx);
                }
                if st.rx_open {
                    a.push(Op::CloseRx);
                }
            }
            Scenario::PipeZero => {
                if st.tx_open && st.rx_open && st.pipe_buffered == Some(0) {
                    a.push(Op::PRead { shape: (0, 0) });
                    a.push(Op::PReadV { members: vec![(0, 0), (0, 0)] });
                    a.push(Op::PWrite { data: vec![] });
                }
            }
            Scenario::Dir { level } => dir_ops(&mut a, step, *level),
        }
        a
    }
}

fn file_ops(a: &mut Vec<Op>, len: u64, step: usize, level: Level) {
    match level {
        Level::Full => {
            let offs = offsets(len, &["0", "1", "len-1", "len", "len+3"]);
            for &off in &offs {
                for n in [0usize, 1, 4] {
                    a.push(Op::WriteAt { off, data: payload(step, n) });
                }
            }
            for &off in &offs {
                for shape in SHAPES {
                    a.push(Op::ReadAt { off, shape });
                }
            }
            for &off in &offs {
                for l in LAYOUTS {
                    a.push(Op::WriteVAt { off, parts: parts(step, l) });
                }
            }
            for &off in &offs {
                for l in LAYOUTS {
                    for f in [Fill::Spare, Fill::Init, Fill::Half] {
                        a.push(Op::ReadVAt { off, members: members(l, f) });
                    }
                }
            }
            for &n in &offs {
                a.push(Op::SetLen(n));
            }
            a.push(Op::SyncAll);
            a.push(Op::SyncData);
            a.push(Op::Metadata);
        }
        Level::Mid => {
            for &off in &offsets(len, &["0", "len-1", "len+3"]) {
                for n in [0usize, 1, 4] {
                    a.push(Op::WriteAt { off, data: payload(step, n) });
                }
            }
            for &off in &offsets(len, &["0", "len-1", "len", "len+3"]) {
                for shape in SHAPES {
                    a.push(Op::ReadAt { off, shape });
                }
            }
            for &off in &offsets(len, &["0", "len+3"]) {
                for l in LAYOUTS {
                    a.push(Op::WriteVAt { off, parts: parts(step, l) });
                }
            }
            for &off in &offsets(len, &["0", "len-1"]) {
                for l in LAYOUTS {
                    for f in [Fill::Spare, Fill::Init] {
                        a.push(Op::ReadVAt { off, members: members(l, f) });
                    }
                }
            }
            for &n in &offsets(len, &["0", "len-1", "len+3"]) {
                a.push(Op::SetLen(n));
            }
            a.push(Op::SyncAll);
            a.push(Op::SyncData);
            a.push(Op::Metadata);
        }
    }
}

fn dir_ops(a: &mut Vec<Op>, step: usize, level: Level) {
    let s = |x: &str| x.to_string();
    let full = level == Level::Full;
    let pick = |f: &[&'static str], m: &[&'static str]| -> Vec<&'static str> { if full { f.to_vec() } else { m.to_vec() } };
    let pick2 = |f: &[(&'static str, &'static str)], m: &[(&'static str, &'static str)]| -> Vec<(&'static str, &'static str)> { if full { f.to_vec() } else { m.to_vec() } };
    for p in pick(&["b", "d", "a", "n/m"], &["b", "n/m"]) {
        a.push(Op::CreateDir(s(p)));
    }
    for p in pick(&["b", "d", "a", "n/m", "a/z"], &["d", "n/m", "a/z"]) {
        a.push(Op::CreateDirAll(s(p)));
    }
    for p in pick(&["a", "b", "d", "e/x"], &["a", "d"]) {
        a.push(Op::RemoveFile(s(p)));
    }
    for p in pick(&["d", "e", "a", "b"], &["d", "e"]) {
        a.push(Op::RemoveDir(s(p)));
    }
    for (x, y) in pick2(&[("a", "b"), ("a", "d"), ("d", "e"), ("d", "b"), ("b", "a"), ("a", "e/x"), ("e", "d")], &[("a", "b"), ("d", "e"), ("a", "e/x")]) {
        a.push(Op::Rename(s(x), s(y)));
    }
    // ("l", "c"): the source is itself a symbolic link (link(2) links the link, it does not follow it)
    for (x, y) in pick2(&[("a", "b"), ("a", "e/x"), ("d", "b"), ("b", "c"), ("l", "c")], &[("a", "b"), ("d", "b"), ("l", "c")]) {
        a.push(Op::HardLink(s(x), s(y)));
    }
    for (x, y) in pick2(&[("a", "l"), ("b", "l"), ("a", "a"), ("d", "l")], &[("a", "l"), ("b", "l")]) {
        a.push(Op::Symlink(s(x), s(y)));
    }
    for p in pick(&["a", "b", "d", "l", "e/x"], &["a", "l", "d"]) {
        a.push(Op::ReadFile(s(p)));
    }
    a.push(Op::WriteFile(s("a"), payload(step, 1)));
    a.push(Op::WriteFile(s("b"), payload(step, 4)));
    a.push(Op::WriteFile(s("l"), payload(step, 2)));
    if full {
        a.push(Op::WriteFile(s("d"), payload(step, 2)));
        a.push(Op::WriteFile(s("n/m"), payload(step, 2)));
        a.push(Op::WriteFile(s("b"), vec![]));
    }
    for p in pick(&["a", "d", "l", "b"], &["a", "l"]) {
        a.push(Op::PathMeta(s(p)));
    }
    for p in pick(&["a", "l", "b"], &["l"]) {
        a.push(Op::SymlinkMeta(s(p)));
    }
}
