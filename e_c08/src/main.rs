//! C08 — File and pipe I/O matches the OS, identically on every driver.
//!
//! Differential, input-exhaustive check. Every operation sequence up to a depth bound over small
//! alphabets (see scen.rs) is executed in lock-step in three worlds that start from the same
//! initial state: the OS reference (synchronous std::fs / libc calls), compio on the io_uring
//! driver and compio on the polling driver (file operations run on its thread pool there).
//! After every operation the harness compares: the result (Ok value / ErrorKind+errno), every
//! returned buffer (length, capacity and ALL bytes up to the capacity, so untouched spare capacity
//! is checked), returned metadata, and the externally visible state (directory tree with file
//! bytes / modes / link counts, bytes buffered in the pipe) read through std/libc.
//!
//! Every compio call is awaited to completion before the next one starts and pipe reads are only
//! enabled when they cannot block, so the observations are a function of the choice list alone.
mod scen;
mod world;

use std::{
    cell::RefCell,
    collections::{BTreeMap, HashMap, HashSet},
    path::PathBuf,
    sync::{
        Mutex, OnceLock,
        atomic::{AtomicBool, AtomicUsize, Ordering},
    },
    time::Duration,
};

use compio_driver::DriverType;
use scen::*;
use vcore::{Chooser, Report, Tier, Violation, json, next_prefix};
use world::*;

// ---------------------------------------------------------------------------------------------
// per-thread context: three worlds below a per-process temporary directory
// ---------------------------------------------------------------------------------------------

static ROOT: OnceLock<PathBuf> = OnceLock::new();
static WORKER: AtomicUsize = AtomicUsize::new(0);

extern "C" fn cleanup_root() {
    if let Some(r) = ROOT.get() {
        let _ = std::fs::remove_dir_all(r);
    }
}

fn init_root() {
    // $TMPDIR if set; otherwise a tmpfs if there is one (10^5..10^6 file creations: rmdir/unlink on
    // the sandbox's ext4 with online discard take 5-20 ms each), otherwise /tmp
    let base = std::env::var_os("TMPDIR").map(PathBuf::from).unwrap_or_else(|| {
        let shm = PathBuf::from("/dev/shm");
        let probe = shm.join(format!(".e_c08-probe-{}", std::process::id()));
        if std::fs::create_dir(&probe).is_ok() {
            let _ = std::fs::remove_dir(&probe);
            shm
        } else {
            PathBuf::from("/tmp")
        }
    });
    let root = base.join(format!("e_c08-{}", std::process::id()));
    let _ = std::fs::remove_dir_all(&root);
    if let Err(e) = std::fs::create_dir_all(&root) {
        vcore::machinery_error(&format!("cannot create {root:?}: {e}"));
    }
    ROOT.set(root).unwrap();
    unsafe { libc::atexit(cleanup_root) };
}

struct Ctx {
    os: RefWorld,
    iour: CompioWorld,
    poll: CompioWorld,
    counters: HashMap<&'static str, u64>,
    confirmed: HashSet<String>,
    seen_sigs: HashSet<u64>,
    new_sigs: Vec<String>,
}

impl Ctx {
    fn new() -> Self {
        let w = WORKER.fetch_add(1, Ordering::Relaxed);
        let base = ROOT.get().unwrap().join(format!("w{w}"));
        Self {
            os: RefWorld::new(base.join("os")),
            iour: CompioWorld::new(DriverType::IoUring, base.join("iour")),
            poll: CompioWorld::new(DriverType::Poll, base.join("poll")),
            counters: HashMap::new(),
            confirmed: HashSet::new(),
            seen_sigs: HashSet::new(),
            new_sigs: Vec::new(),
        }
    }

    fn hit(&mut self, k: &'static str) {
        *self.counters.entry(k).or_insert(0) += 1;
    }
}

thread_local! {
    static CTX: RefCell<Option<Ctx>> = const { RefCell::new(None) };
}

fn with_ctx<R>(f: impl FnOnce(&mut Ctx) -> R) -> R {
    CTX.with(|c| {
        let mut g = c.borrow_mut();
        if g.is_none() {
            *g = Some(Ctx::new());
        }
        f(g.as_mut().unwrap())
    })
}

// ---------------------------------------------------------------------------------------------
// comparison
// ---------------------------------------------------------------------------------------------

/// first field in which `got` differs from the reference
fn cmp_obs(r: &Obs, g: &Obs) -> Option<(String, String)> {
    if !r.res.same(&g.res) {
        return Some((
            format!("result:os={},got={}", r.res.class(), g.res.class()),
            format!("result {:?}, OS reference {:?}", g.res, r.res),
        ));
    }
    if r.bufs.len() != g.bufs.len() {
        return Some(("buffer-count".into(), format!("{} buffers came back, expected {}", g.bufs.len(), r.bufs.len())));
    }
    for (i, (a, b)) in r.bufs.iter().zip(&g.bufs).enumerate() {
        if a.cap != b.cap {
            return Some(("buffer-capacity".into(), format!("buffer {i} capacity {} expected {}", b.cap, a.cap)));
        }
        if a.len != b.len {
            return Some((
                format!("buffer-length:{}", if b.len < a.len { "too-short" } else { "too-long" }),
                format!("buffer {i} came back with length {}, the OS call implies {} ({:?} vs {:?})", b.len, a.len, b, a),
            ));
        }
        if a.bytes != b.bytes {
            let at = a.bytes.iter().zip(&b.bytes).position(|(x, y)| x != y).unwrap_or(0);
            let region = if at < a.len { "within-length" } else { "spare-capacity" };
            return Some((
                format!("buffer-bytes:{region}"),
                format!("buffer {i} byte {at} is {:02x}, expected {:02x} ({:?} vs {:?})", b.bytes[at], a.bytes[at], b, a),
            ));
        }
    }
    if r.meta != g.meta {
        return Some(("metadata".into(), format!("metadata {:?}, OS reference {:?}", g.meta, r.meta)));
    }
    if r.data != g.data {
        return Some(("read-data".into(), format!("returned data {:02x?}, OS reference {:02x?}", g.data, r.data)));
    }
    if let Some(d) = &g.stat_disagreement {
        return Some(("stat-vs-os-stat".into(), format!("Metadata differs from the OS's stat of the same object: {d}")));
    }
    None
}

fn cmp_state(r: &State, g: &State) -> Option<(String, String)> {
    if r.tree != g.tree {
        return Some(("file-state".into(), format!("directory tree / file bytes {:?}, OS reference {:?}", fmt_tree(&g.tree), fmt_tree(&r.tree))));
    }
    if r.pipe_buffered != g.pipe_buffered || r.tx_open != g.tx_open || r.rx_open != g.rx_open {
        return Some((
            "pipe-state".into(),
            format!("pipe holds {:?} bytes (tx open {}, rx open {}), OS reference {:?} ({}, {})", g.pipe_buffered, g.tx_open, g.rx_open, r.pipe_buffered, r.tx_open, r.rx_open),
        ));
    }
    if r.has_file != g.has_file {
        return Some(("handle-state".into(), "an open handle exists in one world only".into()));
    }
    None
}

fn fmt_tree(t: &[(String, char, u64, u32, u64, Vec<u8>)]) -> Vec<String> {
    t.iter().map(|e| format!("{}:{}:len{}:mode{:o}:nlink{}:{:02x?}", e.0, e.1, e.2, e.3, e.4, e.5)).collect()
}

fn fmt_obs(o: &Obs) -> String {
    let mut s = format!("{:?}", o.res);
    if !o.bufs.is_empty() {
        s.push_str(&format!(" bufs={:?}", o.bufs));
    }
    if let Some(m) = &o.meta {
        s.push_str(&format!(" meta={m:?}"));
    }
    if let Some(d) = &o.data {
        s.push_str(&format!(" data={d:02x?}"));
    }
    s
}

// ---------------------------------------------------------------------------------------------
// one execution
// ---------------------------------------------------------------------------------------------

struct Found {
    key: String,
    what: String,
    hist_len: usize,
}

enum LogItem {
    Setup(String, [Obs; 3]),
    Step(usize, Op, [Obs; 3]),
    StateAfter([State; 3]),
    Drain([Vec<u8>; 3]),
}

struct SeqResult {
    steps: usize,
    found: Vec<Found>,
    /// raw material of the human-readable history; rendered only when somebody reads it
    items: Vec<LogItem>,
}

impl SeqResult {
    fn log(&self) -> Vec<String> {
        self.items
            .iter()
            .map(|it| match it {
                LogItem::Setup(what, o) => format!("setup {what} -> os: {} | iour: {} | poll: {}", fmt_obs(&o[0]), fmt_obs(&o[1]), fmt_obs(&o[2])),
                LogItem::Step(k, op, o) => format!("#{k} {op:?} -> os: {} | iour: {} | poll: {}", fmt_obs(&o[0]), fmt_obs(&o[1]), fmt_obs(&o[2])),
                LogItem::StateAfter(s) => format!(
                    "   state after: os {:?} pipe {:?} | iour {:?} pipe {:?} | poll {:?} pipe {:?}",
                    fmt_tree(&s[0].tree), s[0].pipe_buffered, fmt_tree(&s[1].tree), s[1].pipe_buffered, fmt_tree(&s[2].tree), s[2].pipe_buffered
                ),
                LogItem::Drain(p) => format!("drain -> os: {:02x?} | iour: {:02x?} | poll: {:02x?}", p[0], p[1], p[2]),
            })
            .collect()
    }
}

fn off_class(op: &Op, len: Option<u64>) -> &'static str {
    let off = match op {
        Op::WriteAt { off, .. } | Op::ReadAt { off, .. } | Op::WriteVAt { off, .. } | Op::ReadVAt { off, .. } => *off,
        _ => return "",
    };
    match len {
        Some(l) if off < l => ",off<len",
        Some(l) if off == l => ",off=len",
        Some(_) => ",off>len",
        None => "",
    }
}

fn reach(ctx: &mut Ctx, scen: &Scenario, op: &Op, o: &Obs, before: &State) {
    let len = file_len(before);
    match (scen.family(), op, &o.res) {
        ("file", Op::ReadAt { shape, off }, Res::Ok(n)) => {
            if *n as usize > shape.0 {
                ctx.hit("file:read-extends-into-spare-capacity");
            }
            if *n == 0 && shape.1 > 0 && Some(*off) >= len {
                ctx.hit("file:read-at-or-beyond-eof-returns-0");
            }
            if *n > 0 && (*n as usize) < shape.1 {
                ctx.hit("file:short-read-at-eof");
            }
        }
        ("file", Op::ReadVAt { members, .. }, Res::Ok(n)) => {
            if *n > 0 && members.iter().all(|m| m.0 == 0) {
                ctx.hit("file:vectored-read-into-spare-capacity");
            }
        }
        ("file", Op::WriteAt { off, data }, Res::Ok(_)) => {
            if !data.is_empty() && Some(*off) > len {
                ctx.hit("file:write-beyond-eof");
            }
        }
        ("file", _, Res::Err { .. }) => ctx.hit("file:error-result"),
        ("pipe", Op::PRead { shape }, Res::Ok(0)) if shape.1 > 0 => ctx.hit("pipe:eof"),
        ("pipe", Op::PRead { .. }, Res::Ok(n)) if *n > 0 => ctx.hit("pipe:data-read"),
        ("pipe", Op::PWrite { .. } | Op::PWriteV { .. }, Res::Err { .. }) => ctx.hit("pipe:write-after-reader-closed"),
        ("open", Op::Open(_), Res::Ok(_)) => ctx.hit("open:ok"),
        // std rejects contradictory option sets with a synthetic InvalidInput (no errno)
        ("open", Op::Open(_), Res::Err { kind, .. }) => match kind.as_str() {
            "InvalidInput" => ctx.hit("open:EINVAL"),
            "AlreadyExists" => ctx.hit("open:EEXIST"),
            "NotFound" => ctx.hit("open:ENOENT"),
            "IsADirectory" => ctx.hit("open:EISDIR"),
            _ => {}
        },
        ("dir", _, Res::Ok(_)) => ctx.hit("dir:ok-result"),
        ("dir", _, Res::Err { errno: Some(e), .. }) => {
            ctx.hit("dir:error-result");
            if *e == libc::ENOTEMPTY {
                ctx.hit("dir:ENOTEMPTY");
            }
        }
        _ => {}
    }
}

/// Execute one sequence (choices from `ch`) in the three worlds in lock-step.
fn run_sequence(ctx: &mut Ctx, scen: &Scenario, depth: usize, ch: &mut Chooser) -> SeqResult {
    let mut res = SeqResult { steps: 0, found: vec![], items: vec![] };
    let mode = scen.snap_mode();
    ctx.os.reset(mode);
    ctx.iour.reset(mode);
    ctx.poll.reset(mode);
    let wd = if *scen == Scenario::PipeZero { Duration::from_millis(1000) } else { Duration::from_secs(20) };
    ctx.iour.watchdog = wd;
    ctx.poll.watchdog = wd;

    // setup (the handle / pipe is created through each world's own API and compared)
    let s_os = scen.setup(&mut ctx.os);
    let s_io = scen.setup(&mut ctx.iour);
    let s_po = scen.setup(&mut ctx.poll);
    for i in 0..s_os.len() {
        let d_io = cmp_obs(&s_os[i].1, &s_io[i].1);
        let d_po = cmp_obs(&s_os[i].1, &s_po[i].1);
        res.items.push(LogItem::Setup(s_os[i].0.clone(), [s_os[i].1.clone(), s_io[i].1.clone(), s_po[i].1.clone()]));
        if d_io.is_some() || d_po.is_some() {
            push_found(&mut res, scen, &format!("setup:{}", s_os[i].0), d_io, d_po, 0);
            return res;
        }
    }
    let mut st_os = ctx.os.state();
    {
        let st_io = ctx.iour.state();
        let st_po = ctx.poll.state();
        let d_io = cmp_state(&st_os, &st_io);
        let d_po = cmp_state(&st_os, &st_po);
        if d_io.is_some() || d_po.is_some() {
            push_found(&mut res, scen, "setup", d_io, d_po, 0);
            return res;
        }
    }

    for step in 0..depth {
        let alpha = scen.alphabet(&st_os, step);
        if alpha.is_empty() {
            break;
        }
        let op = alpha[ch.pick(alpha.len())].clone();
        let o_os = ctx.os.exec(&op);
        let o_io = ctx.iour.exec(&op);
        let o_po = ctx.poll.exec(&op);
        let n_os = ctx.os.state();
        let n_io = ctx.iour.state();
        let n_po = ctx.poll.state();
        res.steps += 1;
        let opclass = format!("{}{}", op.class(), off_class(&op, file_len(&st_os)));
        let opclass = if off_class(&op, file_len(&st_os)).is_empty() { opclass } else { opclass.replacen("]", "", 1) + "]" };
        {
            let rc = o_os.res.class();
            let h = vcore::fnv(opclass.as_bytes()) ^ vcore::fnv(rc.as_bytes()).rotate_left(17) ^ vcore::fnv(scen.family().as_bytes()).rotate_left(33);
            if ctx.seen_sigs.insert(h) {
                ctx.new_sigs.push(format!("{}|{}|{}", scen.family(), opclass, rc));
            }
        }
        reach(ctx, scen, &op, &o_os, &st_os);
        let d_io = cmp_obs(&o_os, &o_io).or_else(|| cmp_state(&n_os, &n_io));
        let d_po = cmp_obs(&o_os, &o_po).or_else(|| cmp_state(&n_os, &n_po));
        res.items.push(LogItem::Step(step, op, [o_os, o_io, o_po]));
        if d_io.is_some() || d_po.is_some() {
            res.items.push(LogItem::StateAfter([n_os, n_io, n_po]));
            push_found(&mut res, scen, &opclass, d_io, d_po, step + 1);
            return res;
        }
        st_os = n_os;
    }

    // what is still in the pipe must be the same bytes
    if scen.family() == "pipe" {
        let p_os = ctx.os.drain_pipe();
        let p_io = ctx.iour.drain_pipe();
        let p_po = ctx.poll.drain_pipe();
        let d = |g: &Vec<u8>| (g != &p_os).then(|| ("pipe-content".to_string(), format!("bytes left in the pipe {g:02x?}, OS reference {p_os:02x?}")));
        let (d_io, d_po) = (d(&p_io), d(&p_po));
        res.items.push(LogItem::Drain([p_os.clone(), p_io.clone(), p_po.clone()]));
        if d_io.is_some() || d_po.is_some() {
            let n = res.steps;
            push_found(&mut res, scen, "final-drain", d_io, d_po, n);
        }
    }
    res
}

fn push_found(res: &mut SeqResult, scen: &Scenario, opclass: &str, d_io: Option<(String, String)>, d_po: Option<(String, String)>, hist_len: usize) {
    let mut add = |who: &str, field: &str, detail: &str| {
        res.found.push(Found {
            key: format!("{}:{}:{}:{}", scen.family(), opclass, field, who),
            what: format!("[{who}] {detail}"),
            hist_len,
        });
    };
    match (&d_io, &d_po) {
        (Some(a), Some(b)) if a.0 == b.0 => add("iour+poll", &a.0, &format!("both drivers: {}", a.1)),
        _ => {
            if let Some(a) = &d_io {
                add("iour", &a.0, &a.1);
            }
            if let Some(b) = &d_po {
                add("poll", &b.0, &b.1);
            }
        }
    }
}

// ---------------------------------------------------------------------------------------------
// exploration
// ---------------------------------------------------------------------------------------------

struct Collected {
    v: Violation,
    hist_len: usize,
    count: u64,
}

struct Shared<'a> {
    rep: &'a Report,
    found: Mutex<BTreeMap<String, Collected>>,
    stop: AtomicBool,
    deadline_s: f64,
}

/// all executions below `prefix` (depth-first, prefix replay), each compared in three worlds
fn explore_prefix(sh: &Shared, scen: &Scenario, depth: usize, prefix0: &[u32]) -> u64 {
    let mut n = 0;
    let mut prefix = prefix0.to_vec();
    loop {
        if sh.stop.load(Ordering::Relaxed) {
            break;
        }
        let mut ch = Chooser::new(prefix.clone(), 0);
        let r = with_ctx(|ctx| run_sequence(ctx, scen, depth, &mut ch));
        if !ch.prefix_consumed() {
            // the subtree below this prefix does not exist (sequence ended earlier)
            break;
        }
        n += 1;
        sh.rep.add_execution(r.steps as u64 * 3);
        if !r.found.is_empty() {
            handle_found(sh, scen, depth, &ch, &r);
        } else {
            sh.rep.sample(6, || json!({"scenario": scen.name(), "choices": ch.choices(), "log": r.log()}));
        }
        match next_prefix(&ch.trace) {
            Some(p) if p.len() >= prefix0.len() && p[..prefix0.len()] == *prefix0 => prefix = p,
            _ => break,
        }
    }
    if sh.rep.elapsed() > sh.deadline_s && !sh.stop.swap(true, Ordering::Relaxed) {
        sh.rep.cap_hit(&format!("wall-clock budget of {} s reached; remaining work items were skipped", sh.deadline_s));
    }
    n
}

fn handle_found(sh: &Shared, scen: &Scenario, depth: usize, ch: &Chooser, r: &SeqResult) {
    // the same choice list must give the same observations: re-execute once per (thread, key)
    let need_confirm = with_ctx(|ctx| r.found.iter().any(|f| ctx.confirmed.insert(f.key.clone())));
    if need_confirm {
        let mut ch2 = Chooser::replay(ch.choices());
        let r2 = with_ctx(|ctx| run_sequence(ctx, scen, depth, &mut ch2));
        let k1: Vec<&String> = r.found.iter().map(|f| &f.key).collect();
        let k2: Vec<&String> = r2.found.iter().map(|f| &f.key).collect();
        if k1 != k2 || r.log() != r2.log() {
            eprintln!("first run:\n  {}\nsecond run:\n  {}", r.log().join("\n  "), r2.log().join("\n  "));
            vcore::machinery_error(&format!("NONDETERMINISM: scenario {} choices {:?} gave different observations when re-executed", scen.name(), ch.choices()));
        }
        sh.rep.count("violations_confirmed_by_reexecution", 1);
    }
    let log = r.log();
    let mut g = sh.found.lock().unwrap();
    for f in &r.found {
        let better = match g.get(&f.key) {
            None => true,
            Some(c) => f.hist_len < c.hist_len,
        };
        let count = g.get(&f.key).map(|c| c.count).unwrap_or(0) + 1;
        if better {
            let v = Violation {
                key: f.key.clone(),
                what: format!("scenario {}: {} || history: {}", scen.name(), f.what, log.join(" ;; ")),
                replay: json!({"engine": "e_c08", "scenario": scen.name(), "depth": depth, "choices": ch.choices(), "log": log}),
            };
            g.insert(f.key.clone(), Collected { v, hist_len: f.hist_len, count });
        } else {
            g.get_mut(&f.key).unwrap().count = count;
        }
    }
}

struct Job {
    scen: Scenario,
    depth: usize,
}

fn jobs(tier: Tier) -> Vec<Job> {
    use Handle::*;
    use Level::*;
    let abcd = b"ABCD".to_vec();
    let mut j = Vec::new();
    let file = |handle, initial: &Vec<u8>, level| Scenario::File { handle, initial: initial.clone(), level };
    match tier {
        Tier::Quick => {
            j.push(Job { scen: file(Rw, &abcd, Full), depth: 2 });
            j.push(Job { scen: file(Rw, &abcd, Mid), depth: 3 });
            for h in [Ro, Wo, Ap] {
                j.push(Job { scen: file(h, &abcd, Full), depth: 2 });
            }
            j.push(Job { scen: file(Rw, &vec![], Full), depth: 2 });
            for init in [OpenInit::Absent, OpenInit::Present, OpenInit::IsDir] {
                j.push(Job { scen: Scenario::Open { init, level: Full }, depth: 2 });
                j.push(Job { scen: Scenario::Open { init, level: Mid }, depth: 3 });
            }
            j.push(Job { scen: Scenario::FileExtreme, depth: 2 });
            j.push(Job { scen: Scenario::Pipe { level: Full }, depth: 4 });
            j.push(Job { scen: Scenario::PipeZero, depth: 2 });
            j.push(Job { scen: Scenario::Dir { level: Full }, depth: 2 });
            j.push(Job { scen: Scenario::Dir { level: Mid }, depth: 3 });
        }
        Tier::Thorough => {
            j.push(Job { scen: file(Rw, &abcd, Full), depth: 3 });
            j.push(Job { scen: file(Rw, &abcd, Mid), depth: 4 });
            for h in [Ro, Wo, Ap] {
                j.push(Job { scen: file(h, &abcd, Full), depth: 2 });
                j.push(Job { scen: file(h, &abcd, Mid), depth: 3 });
            }
            j.push(Job { scen: file(Rw, &vec![], Full), depth: 2 });
            j.push(Job { scen: file(Rw, &vec![], Mid), depth: 3 });
            for init in [OpenInit::Absent, OpenInit::Present, OpenInit::IsDir] {
                j.push(Job { scen: Scenario::Open { init, level: Full }, depth: 3 });
                j.push(Job { scen: Scenario::Open { init, level: Mid }, depth: 4 });
            }
            j.push(Job { scen: Scenario::FileExtreme, depth: 3 });
            j.push(Job { scen: Scenario::Pipe { level: Full }, depth: 5 });
            j.push(Job { scen: Scenario::Pipe { level: Mid }, depth: 6 });
            j.push(Job { scen: Scenario::PipeZero, depth: 2 });
            j.push(Job { scen: Scenario::Dir { level: Full }, depth: 3 });
            j.push(Job { scen: Scenario::Dir { level: Mid }, depth: 4 });
        }
    }
    if let Ok(only) = std::env::var("VERIF_C08_ONLY") {
        j.retain(|job| only.split(',').any(|f| job.scen.name().starts_with(f)));
    }
    j
}

const MUST_REACH: &[&str] = &[
    "file:read-extends-into-spare-capacity",
    "file:read-at-or-beyond-eof-returns-0",
    "file:short-read-at-eof",
    "file:vectored-read-into-spare-capacity",
    "file:write-beyond-eof",
    "file:error-result",
    "pipe:eof",
    "pipe:data-read",
    "pipe:write-after-reader-closed",
    "open:ok",
    "open:EINVAL",
    "open:EEXIST",
    "open:ENOENT",
    "open:EISDIR",
    "dir:ok-result",
    "dir:error-result",
    "dir:ENOTEMPTY",
];

fn flush_counters(rep: &Report) {
    with_ctx(|ctx| {
        for (k, n) in ctx.counters.drain() {
            rep.count(k, n);
        }
        for s in ctx.new_sigs.drain(..) {
            rep.outcome(s);
        }
        let rc = ctx.iour.runtimes_created + ctx.poll.runtimes_created;
        ctx.iour.runtimes_created = 0;
        ctx.poll.runtimes_created = 0;
        rep.count("compio_runtimes_created", rc);
    });
}

fn replay(path: &std::path::Path) -> ! {
    let body: vcore::Value = match std::fs::read(path).map_err(|e| e.to_string()).and_then(|b| vcore::serde_json::from_slice(&b).map_err(|e| e.to_string())) {
        Ok(v) => v,
        Err(e) => vcore::machinery_error(&format!("cannot read replay file {path:?}: {e}")),
    };
    let r = &body["replay"];
    let name = r["scenario"].as_str().unwrap_or("");
    let depth = r["depth"].as_u64().unwrap_or(0) as usize;
    let choices: Vec<u32> = r["choices"].as_array().map(|a| a.iter().map(|x| x.as_u64().unwrap_or(0) as u32).collect()).unwrap_or_default();
    let all: Vec<Job> = jobs(Tier::Quick).into_iter().chain(jobs(Tier::Thorough)).collect();
    let Some(job) = all.iter().find(|j| j.scen.name() == name) else {
        vcore::machinery_error(&format!("replay names unknown scenario {name:?}"));
    };
    let mut ch = Chooser::replay(choices.clone());
    let res = with_ctx(|ctx| run_sequence(ctx, &job.scen, depth, &mut ch));
    println!("replay of scenario {name} depth {depth} choices {choices:?}");
    for l in &res.log() {
        println!("  {l}");
    }
    for f in &res.found {
        println!("MISMATCH key={} {}", f.key, f.what);
    }
    let code = if res.found.is_empty() { 0 } else { 1 };
    cleanup_root();
    std::process::exit(code)
}

fn main() {
    let args = vcore::parse_args();
    if args.property != "C08" {
        vcore::machinery_error(&format!("e_c08 does not serve property {}", args.property));
    }
    vcore::quiet_panics();
    init_root();
    if let Some(p) = &args.replay {
        replay(p);
    }
    let tier = args.tier;
    let rep = Report::new("C08", tier);
    let jobs = jobs(tier);
    let sh = Shared {
        rep: &rep,
        found: Mutex::new(BTreeMap::new()),
        stop: AtomicBool::new(false),
        deadline_s: tier.pick(38.0, 900.0),
    };
    for k in MUST_REACH {
        if jobs.iter().any(|j| k.starts_with(j.scen.family())) {
            rep.must_reach(k);
        }
    }

    // work items: one per (scenario, depth' <= depth, first two choices). The sizes of the first
    // two choice points are learnt from a sequential pre-pass.
    let mut items: Vec<(usize, usize, Vec<u32>)> = Vec::new(); // (job index, depth, prefix)
    let mut alphabet_sizes = BTreeMap::new();
    for (ji, job) in jobs.iter().enumerate() {
        let mut first = Vec::new();
        let mut i = 0u32;
        loop {
            let mut ch = Chooser::new(vec![i], 0);
            let _ = with_ctx(|ctx| run_sequence(ctx, &job.scen, 2.min(job.depth), &mut ch));
            if ch.trace.is_empty() {
                vcore::machinery_error(&format!("scenario {} has an empty alphabet in its initial state", job.scen.name()));
            }
            let n0 = ch.trace[0].n;
            let n1 = ch.trace.get(1).map(|p| p.n).unwrap_or(0);
            first.push(n1);
            i += 1;
            if i >= n0 {
                break;
            }
        }
        alphabet_sizes.insert(job.scen.name(), first.len());
        for d in 1..=job.depth {
            for (i, &n1) in first.iter().enumerate() {
                if d == 1 || n1 == 0 {
                    items.push((ji, d, vec![i as u32]));
                } else {
                    for k in 0..n1 {
                        items.push((ji, d, vec![i as u32, k]));
                    }
                }
            }
        }
    }
    // shallow first (short histories are found early), deep items interleaved across scenarios
    items.sort_by_key(|(_, d, _)| *d);
    flush_counters(&rep);

    let per_job: Vec<std::sync::atomic::AtomicU64> = jobs.iter().map(|_| Default::default()).collect();
    vcore::par_for_each(&items, |_, (ji, d, prefix)| {
        let job = &jobs[*ji];
        let n = explore_prefix(&sh, &job.scen, *d, prefix);
        per_job[*ji].fetch_add(n, Ordering::Relaxed);
        flush_counters(&rep);
    });

    let found = sh.found.into_inner().unwrap();
    rep.extra("violation_occurrences", json!(found.iter().map(|(k, c)| (k.clone(), c.count)).collect::<BTreeMap<_, _>>()));
    for (_, c) in found {
        let mut v = c.v;
        v.what = format!("{} || sequences hitting this class: {}", v.what, c.count);
        rep.violation(v);
    }

    let bounds: Vec<vcore::Value> = jobs
        .iter()
        .enumerate()
        .map(|(i, j)| json!({"scenario": j.scen.name(), "max_depth": j.depth, "first_step_alphabet": alphabet_sizes.get(&j.scen.name()), "executions": per_job[i].load(Ordering::Relaxed)}))
        .collect();
    rep.extra("bounds", json!({
        "tier": tier.name(),
        "scenarios": bounds,
        "domains": {
            "offsets": "{0, 1, len-1, len, len+3} relative to the current file length (Full); subsets at Mid/Small",
            "write_lengths": [0, 1, 4],
            "read_buffer_shapes_len_cap": SHAPES.iter().map(|s| json!([s.0, s.1])).collect::<Vec<_>>(),
            "vectored_layouts": LAYOUTS.iter().map(|l| json!(l)).collect::<Vec<_>>(),
            "vectored_read_fill": ["all spare capacity", "fully initialized", "half initialized (Full level only)"],
            "open_options": "all 64 subsets of {read, write, append(O_APPEND via custom_flags), truncate, create, create_new} (Full) / 14 representatives (Mid)",
            "drivers": ["os reference", "io_uring", "polling (thread-pool fallback for file ops)"]
        }
    }));
    rep.rule("every sequence of enabled operations up to max_depth per scenario, executed from a fresh initial state in three worlds (OS reference via std/libc, compio on io_uring, compio on polling) in lock-step; after every operation result, returned buffers (len, cap, all bytes up to cap), metadata and externally visible state are compared; a sequence stops at its first mismatch; distinct_nontrivial = distinct (scenario family, operation class, reference result class) signatures");
    rep.assume("compio runtimes are reused across sequences of one worker thread (recreated after a hang/panic); files and pipes are fresh per sequence");
    rep.assume("pipe reads are enabled only when data is buffered or the writer is closed (a read that would block has no OS answer to compare with); zero-capacity reads on an empty pipe are covered by the separate pipe.zero-read-on-empty scenario with a 1 s watchdog");
    rep.assume("compio's OpenOptions has no append(); append is modelled as custom_flags(O_APPEND) on both sides");
    rep.assume("the check runs with the privileges and umask of the caller; permission-denied paths are not enumerated");
    cleanup_root();
    rep.finish()
}
