//! Operations, observations and the three worlds that execute them:
//! the OS reference (synchronous std::fs / libc calls) and compio on a chosen driver.
use std::{
    future::Future,
    io,
    os::fd::{AsRawFd, FromRawFd, OwnedFd, RawFd},
    os::unix::fs::{MetadataExt, OpenOptionsExt, PermissionsExt},
    path::{Path, PathBuf},
    pin::pin,
    task::{Context, Poll},
    time::{Duration, Instant},
};

use compio_buf::BufResult;
use compio_driver::{DriverType, ProactorBuilder};
use compio_io::{AsyncRead, AsyncReadAt, AsyncWrite, AsyncWriteAt};
use compio_runtime::Runtime;

// ---------------------------------------------------------------------------------------------
// operations (concrete: every argument is a literal, so a list of Ops is a complete program)
// ---------------------------------------------------------------------------------------------

#[derive(Clone, Debug, PartialEq, Eq)]
pub struct OpenFlags {
    pub read: bool,
    pub write: bool,
    pub append: bool,
    pub truncate: bool,
    pub create: bool,
    pub create_new: bool,
}

impl OpenFlags {
    pub fn from_bits(b: u32) -> Self {
        Self {
            read: b & 1 != 0,
            write: b & 2 != 0,
            append: b & 4 != 0,
            truncate: b & 8 != 0,
            create: b & 16 != 0,
            create_new: b & 32 != 0,
        }
    }

    pub fn name(&self) -> String {
        let mut s = String::new();
        for (f, n) in [
            (self.read, "r"),
            (self.write, "w"),
            (self.append, "a"),
            (self.truncate, "t"),
            (self.create, "c"),
            (self.create_new, "n"),
        ] {
            if f {
                s.push_str(n);
            }
        }
        if s.is_empty() {
            s.push('-');
        }
        s
    }
}

/// (len, cap) of one read buffer member
pub type Shape = (usize, usize);

#[derive(Clone, Debug, PartialEq, Eq)]
pub enum Op {
    // ---- on the current file handle
    WriteAt { off: u64, data: Vec<u8> },
    ReadAt { off: u64, shape: Shape },
    WriteVAt { off: u64, parts: Vec<Vec<u8>> },
    ReadVAt { off: u64, members: Vec<Shape> },
    SetLen(u64),
    SyncAll,
    SyncData,
    Metadata,
    Close,
    /// open path "f" of the world directory with these options; replaces the current handle
    Open(OpenFlags),
    // ---- anonymous pipe
    PWrite { data: Vec<u8> },
    PWriteV { parts: Vec<Vec<u8>> },
    PRead { shape: Shape },
    PReadV { members: Vec<Shape> },
    CloseTx,
    CloseRx,
    // ---- path utilities (paths relative to the world directory)
    CreateDir(String),
    CreateDirAll(String),
    RemoveFile(String),
    RemoveDir(String),
    Rename(String, String),
    HardLink(String, String),
    /// (original text stored in the link, link path)
    Symlink(String, String),
    ReadFile(String),
    WriteFile(String, Vec<u8>),
    PathMeta(String),
    SymlinkMeta(String),
}

fn fill_class(members: &[Shape]) -> &'static str {
    let total_cap: usize = members.iter().map(|m| m.1).sum();
    let total_len: usize = members.iter().map(|m| m.0).sum();
    if total_cap == 0 {
        "zero-cap"
    } else if total_len == 0 {
        "spare"
    } else if total_len == total_cap {
        "init"
    } else {
        "partial"
    }
}

impl Op {
    /// short name of the compio entry point
    pub fn api(&self) -> &'static str {
        match self {
            Op::WriteAt { .. } => "write_at",
            Op::ReadAt { .. } => "read_at",
            Op::WriteVAt { .. } => "write_vectored_at",
            Op::ReadVAt { .. } => "read_vectored_at",
            Op::SetLen(_) => "set_len",
            Op::SyncAll => "sync_all",
            Op::SyncData => "sync_data",
            Op::Metadata => "file_metadata",
            Op::Close => "close",
            Op::Open(_) => "open",
            Op::PWrite { .. } => "pipe_write",
            Op::PWriteV { .. } => "pipe_write_vectored",
            Op::PRead { .. } => "pipe_read",
            Op::PReadV { .. } => "pipe_read_vectored",
            Op::CloseTx => "pipe_close_sender",
            Op::CloseRx => "pipe_close_receiver",
            Op::CreateDir(_) => "create_dir",
            Op::CreateDirAll(_) => "create_dir_all",
            Op::RemoveFile(_) => "remove_file",
            Op::RemoveDir(_) => "remove_dir",
            Op::Rename(..) => "rename",
            Op::HardLink(..) => "hard_link",
            Op::Symlink(..) => "symlink",
            Op::ReadFile(_) => "read",
            Op::WriteFile(..) => "write",
            Op::PathMeta(_) => "metadata",
            Op::SymlinkMeta(_) => "symlink_metadata",
        }
    }

    /// canonical class of the input (goes into violation keys): api + buffer-shape class
    pub fn class(&self) -> String {
        match self {
            Op::ReadAt { shape, .. } | Op::PRead { shape } => {
                format!("{}[buf={}]", self.api(), fill_class(&[*shape]))
            }
            Op::ReadVAt { members, .. } | Op::PReadV { members } => {
                format!("{}[bufs={}]", self.api(), fill_class(members))
            }
            Op::WriteAt { data, .. } | Op::PWrite { data } => {
                format!("{}[{}]", self.api(), if data.is_empty() { "empty" } else { "data" })
            }
            Op::WriteVAt { parts, .. } | Op::PWriteV { parts } => {
                let total: usize = parts.iter().map(|p| p.len()).sum();
                format!("{}[{}]", self.api(), if total == 0 { "empty" } else { "data" })
            }
            Op::Open(f) => format!("open[{}]", f.name()),
            _ => self.api().to_string(),
        }
    }

}

// ---------------------------------------------------------------------------------------------
// observations
// ---------------------------------------------------------------------------------------------

#[derive(Clone, Debug, PartialEq, Eq)]
pub enum Res {
    Ok(u64),
    Err { kind: String, errno: Option<i32> },
    /// the operation did not complete within the watchdog although nothing it waits for can
    /// ever happen (harness owns the peer)
    Hang,
    Panic(String),
}

impl Res {
    pub fn from_io<T>(r: &io::Result<T>, ok: u64) -> Res {
        match r {
            Ok(_) => Res::Ok(ok),
            Err(e) => Res::Err {
                kind: format!("{:?}", e.kind()),
                errno: e.raw_os_error(),
            },
        }
    }

    pub fn n(r: &io::Result<usize>) -> Res {
        match r {
            Ok(n) => Res::Ok(*n as u64),
            Err(_) => Res::from_io(r, 0),
        }
    }

    pub fn class(&self) -> String {
        match self {
            Res::Ok(0) => "Ok0".into(),
            Res::Ok(_) => "Ok+".into(),
            Res::Err { kind, .. } => format!("Err({kind})"),
            Res::Hang => "Hang".into(),
            Res::Panic(_) => "Panic".into(),
        }
    }

    /// equality by ErrorKind, and by errno where both sides carry one
    pub fn same(&self, o: &Res) -> bool {
        match (self, o) {
            (Res::Err { kind: k1, errno: e1 }, Res::Err { kind: k2, errno: e2 }) => {
                k1 == k2 && (e1.is_none() || e2.is_none() || e1 == e2)
            }
            _ => self == o,
        }
    }
}

/// one buffer as it came back: its length, its capacity and ALL bytes up to the capacity
#[derive(Clone, PartialEq, Eq)]
pub struct BufDump {
    pub len: usize,
    pub cap: usize,
    pub bytes: Vec<u8>,
}

impl std::fmt::Debug for BufDump {
    fn fmt(&self, f: &mut std::fmt::Formatter<'_>) -> std::fmt::Result {
        write!(f, "{{len {} cap {} bytes {:02x?}}}", self.len, self.cap, self.bytes)
    }
}

#[derive(Clone, Debug, PartialEq, Eq, Default)]
pub struct MetaObs {
    pub len: u64,
    pub is_file: bool,
    pub is_dir: bool,
    pub is_symlink: bool,
    pub mode: u32,
    pub nlink: u64,
}

#[derive(Clone, Debug, PartialEq, Eq)]
pub struct Obs {
    pub res: Res,
    pub bufs: Vec<BufDump>,
    pub meta: Option<MetaObs>,
    /// whole-file helper results (`read`)
    pub data: Option<Vec<u8>>,
    /// set when compio's Metadata disagrees with an fstat/lstat of the very same object taken by
    /// the harness right after the call (all stat fields incl. times, inode, blocks)
    pub stat_disagreement: Option<String>,
}

impl Obs {
    pub fn of(res: Res) -> Obs {
        Obs {
            res,
            bufs: vec![],
            meta: None,
            data: None,
            stat_disagreement: None,
        }
    }
}

/// Externally visible state of a world, read by the harness through std/libc only.
#[derive(Clone, Debug, PartialEq, Eq, Default)]
pub struct State {
    /// every entry below the world directory: (relative path, kind, len, mode, nlink, content / link text)
    pub tree: Vec<(String, char, u64, u32, u64, Vec<u8>)>,
    /// bytes buffered in the pipe (FIONREAD on the read end), if a read end is open
    pub pipe_buffered: Option<usize>,
    pub tx_open: bool,
    pub rx_open: bool,
    pub has_file: bool,
}

// ---------------------------------------------------------------------------------------------
// buffers with a known pattern in every byte of the capacity
// ---------------------------------------------------------------------------------------------

pub fn mk_buf(shape: Shape, member: usize) -> Vec<u8> {
    let (len, cap) = shape;
    assert!(len <= cap);
    let mut v: Vec<u8> = Vec::with_capacity(cap);
    if v.capacity() != cap {
        vcore::machinery_error(&format!("Vec::with_capacity({cap}) gave capacity {}", v.capacity()));
    }
    for i in 0..cap {
        let b = if i < len { 0x80 } else { 0xC0 } + (member as u8) * 0x10 + i as u8;
        v.push(b);
    }
    v.truncate(len); // u8 has no drop glue: the bytes stay where they are
    v
}

pub fn dump(v: &Vec<u8>) -> BufDump {
    let cap = v.capacity();
    // SAFETY: every byte up to the capacity was written by mk_buf (or is part of a plain data
    // vector whose capacity equals its length)
    let bytes = if cap == 0 { vec![] } else { unsafe { std::slice::from_raw_parts(v.as_ptr(), cap) }.to_vec() };
    BufDump { len: v.len(), cap, bytes }
}

fn exact(data: &[u8]) -> Vec<u8> {
    let mut v = Vec::with_capacity(data.len());
    v.extend_from_slice(data);
    v
}

// ---------------------------------------------------------------------------------------------
// harness-side state snapshot (identical code for all worlds)
// ---------------------------------------------------------------------------------------------

fn walk(base: &Path, rel: &str, out: &mut Vec<(String, char, u64, u32, u64, Vec<u8>)>) {
    let dir = if rel.is_empty() { base.to_path_buf() } else { base.join(rel) };
    let mut names: Vec<String> = match std::fs::read_dir(&dir) {
        Ok(rd) => rd.filter_map(|e| e.ok()).map(|e| e.file_name().to_string_lossy().into_owned()).collect(),
        Err(_) => return,
    };
    names.sort();
    for n in names {
        let r = if rel.is_empty() { n.clone() } else { format!("{rel}/{n}") };
        let p = base.join(&r);
        let Ok(m) = std::fs::symlink_metadata(&p) else { continue };
        let ft = m.file_type();
        if ft.is_symlink() {
            let t = std::fs::read_link(&p).map(|t| t.to_string_lossy().into_owned().into_bytes()).unwrap_or_default();
            out.push((r, 'l', m.len(), m.mode() & 0o7777, m.nlink(), t));
        } else if ft.is_dir() {
            out.push((r.clone(), 'd', 0, m.mode() & 0o7777, 0, vec![]));
            walk(base, &r, out);
        } else {
            let c = std::fs::read(&p).unwrap_or_else(|e| format!("<unreadable: {e}>").into_bytes());
            out.push((r, 'f', m.len(), m.mode() & 0o7777, m.nlink(), c));
        }
    }
}

fn fionread(fd: RawFd) -> usize {
    let mut n: libc::c_int = 0;
    let r = unsafe { libc::ioctl(fd, libc::FIONREAD, &mut n) };
    if r != 0 {
        vcore::machinery_error("FIONREAD failed on a pipe the harness believes to be open");
    }
    n as usize
}

/// How the harness reads the externally visible state of a world.
#[derive(Clone, Copy, Debug, PartialEq, Eq)]
pub enum SnapMode {
    /// nothing on disk matters (pipe scenarios)
    None,
    /// only file "f" exists; it is read through a harness-owned descriptor (fstat + pread)
    FileFd,
    /// walk the whole world directory (lstat, file bytes, link texts)
    Walk,
}

/// Harness-side part of a world: its directory and how to look at it.
pub struct Base {
    pub dir: PathBuf,
    pub mode: SnapMode,
    /// harness-owned descriptor on "f" (SnapMode::FileFd)
    pub probe: Option<std::fs::File>,
    dirty: bool,
    created: bool,
}

impl Base {
    pub fn new(dir: PathBuf) -> Self {
        Self { dir, mode: SnapMode::None, probe: None, dirty: true, created: false }
    }

    pub fn reset(&mut self, mode: SnapMode) {
        self.probe = None;
        if self.dirty || mode == SnapMode::Walk || !self.created {
            clear_dir(&self.dir);
            self.created = true;
        }
        // FileFd leaves only "f" behind, which the next FileFd setup truncates; anything else
        // requires a clean directory next time
        self.dirty = mode == SnapMode::Walk;
        if self.mode == SnapMode::FileFd && mode != SnapMode::FileFd {
            let _ = std::fs::remove_file(self.dir.join("f"));
        }
        self.mode = mode;
    }

    /// (re)create file "f" with the given content and keep a harness descriptor on it
    pub fn create_probe_file(&mut self, content: &[u8]) -> io::Result<()> {
        use std::io::Write;
        let mut f = std::fs::OpenOptions::new().read(true).write(true).create(true).truncate(true).open(self.dir.join("f"))?;
        f.write_all(content)?;
        self.probe = Some(f);
        Ok(())
    }

    fn tree(&self) -> Vec<(String, char, u64, u32, u64, Vec<u8>)> {
        let mut tree = Vec::new();
        match self.mode {
            SnapMode::None => {}
            SnapMode::Walk => walk(&self.dir, "", &mut tree),
            SnapMode::FileFd => {
                let Some(f) = &self.probe else { return tree };
                let m = match f.metadata() {
                    Ok(m) => m,
                    Err(e) => vcore::machinery_error(&format!("fstat on the probe descriptor failed: {e}")),
                };
                let mut buf = [0u8; 256];
                let n = unsafe { libc::pread(f.as_raw_fd(), buf.as_mut_ptr().cast(), buf.len(), 0) };
                if n < 0 || m.len() > 256 {
                    vcore::machinery_error("probe read failed or file grew beyond 256 bytes");
                }
                tree.push(("f".to_string(), 'f', m.len(), m.mode() & 0o7777, m.nlink(), buf[..n as usize].to_vec()));
            }
        }
        tree
    }
}

fn snapshot(base: &Base, rx: Option<RawFd>, tx_open: bool, has_file: bool) -> State {
    let tree = base.tree();
    State {
        tree,
        pipe_buffered: rx.map(fionread),
        tx_open,
        rx_open: rx.is_some(),
        has_file,
    }
}

pub fn clear_dir(dir: &Path) {
    let _ = std::fs::remove_dir_all(dir);
    if let Err(e) = std::fs::create_dir_all(dir) {
        vcore::machinery_error(&format!("cannot create world directory {dir:?}: {e}"));
    }
}

fn meta_of(m: &std::fs::Metadata) -> MetaObs {
    MetaObs {
        len: m.len(),
        is_file: m.is_file(),
        is_dir: m.is_dir(),
        is_symlink: m.file_type().is_symlink(),
        mode: m.permissions().mode(),
        nlink: m.nlink(),
    }
}

fn stat_tuple(m: &impl MetadataExt) -> [i128; 16] {
    [
        m.dev() as i128,
        m.ino() as i128,
        m.mode() as i128,
        m.nlink() as i128,
        m.uid() as i128,
        m.gid() as i128,
        m.rdev() as i128,
        m.size() as i128,
        m.atime() as i128,
        m.atime_nsec() as i128,
        m.mtime() as i128,
        m.mtime_nsec() as i128,
        m.ctime() as i128,
        m.ctime_nsec() as i128,
        m.blksize() as i128,
        m.blocks() as i128,
    ]
}

const STAT_NAMES: [&str; 16] = [
    "dev", "ino", "mode", "nlink", "uid", "gid", "rdev", "size", "atime", "atime_nsec", "mtime", "mtime_nsec", "ctime",
    "ctime_nsec", "blksize", "blocks",
];

fn stat_diff(c: &compio_fs::Metadata, s: &std::fs::Metadata) -> Option<String> {
    let a = stat_tuple(c);
    let b = stat_tuple(s);
    let mut d = Vec::new();
    for i in 0..16 {
        if a[i] != b[i] {
            d.push(format!("{}: compio {} os {}", STAT_NAMES[i], a[i], b[i]));
        }
    }
    // derived accessors
    if c.len() != s.len() || c.is_file() != s.is_file() || c.is_dir() != s.is_dir() || c.is_symlink() != s.file_type().is_symlink() {
        d.push("len/is_file/is_dir/is_symlink accessors".into());
    }
    if c.permissions().mode() != s.permissions().mode() {
        d.push(format!("permissions: compio {:o} os {:o}", c.permissions().mode(), s.permissions().mode()));
    }
    if c.modified().ok() != s.modified().ok() || c.accessed().ok() != s.accessed().ok() {
        d.push("modified()/accessed()".into());
    }
    if d.is_empty() { None } else { Some(d.join("; ")) }
}

fn cmeta(m: &compio_fs::Metadata) -> MetaObs {
    MetaObs {
        len: m.len(),
        is_file: m.is_file(),
        is_dir: m.is_dir(),
        is_symlink: m.is_symlink(),
        mode: m.permissions().mode(),
        nlink: m.nlink(),
    }
}

// ---------------------------------------------------------------------------------------------
// the world interface
// ---------------------------------------------------------------------------------------------

pub trait World {
    fn base(&mut self) -> &mut Base;
    /// drop all handles, bring the directory into the state `mode` expects
    fn reset(&mut self, mode: SnapMode);
    /// create an anonymous pipe through the world's own API
    fn make_pipe(&mut self) -> Obs;
    fn exec(&mut self, op: &Op) -> Obs;
    fn state(&mut self) -> State;
    /// read everything still buffered in the pipe (harness-side, never blocks)
    fn drain_pipe(&mut self) -> Vec<u8>;
}

fn drain(rx: Option<RawFd>) -> Vec<u8> {
    let Some(fd) = rx else { return vec![] };
    let n = fionread(fd);
    if n == 0 {
        return vec![];
    }
    let mut v = vec![0u8; n];
    let r = unsafe { libc::read(fd, v.as_mut_ptr().cast(), n) };
    if r < 0 {
        return format!("<drain failed: {}>", io::Error::last_os_error()).into_bytes();
    }
    v.truncate(r as usize);
    v
}

// ---------------------------------------------------------------------------------------------
// OS reference
// ---------------------------------------------------------------------------------------------

pub struct RefWorld {
    base: Base,
    file: Option<std::fs::File>,
    rx: Option<OwnedFd>,
    tx: Option<OwnedFd>,
}

fn os_n(r: isize) -> Res {
    if r < 0 {
        let e: io::Result<usize> = Err(io::Error::last_os_error());
        Res::n(&e)
    } else {
        Res::Ok(r as u64)
    }
}

/// distribute `n` bytes over the members the way the kernel filled them, raising lengths only
fn advance_members(bufs: &mut [Vec<u8>], n: usize) {
    let mut rem = n;
    for b in bufs.iter_mut() {
        let got = rem.min(b.capacity());
        if got > b.len() {
            unsafe { b.set_len(got) };
        }
        rem -= got;
    }
}

impl RefWorld {
    pub fn new(dir: PathBuf) -> Self {
        Self { base: Base::new(dir), file: None, rx: None, tx: None }
    }

    fn p(&self, rel: &str) -> PathBuf {
        self.base.dir.join(rel)
    }

    fn read_into(fd: RawFd, shape: Shape, off: Option<u64>) -> Obs {
        let mut v = mk_buf(shape, 0);
        let r = unsafe {
            match off {
                Some(o) => libc::pread(fd, v.as_mut_ptr().cast(), shape.1, o as libc::off_t),
                None => libc::read(fd, v.as_mut_ptr().cast(), shape.1),
            }
        };
        let res = os_n(r);
        if let Res::Ok(n) = res {
            if n as usize > v.len() {
                unsafe { v.set_len(n as usize) };
            }
        }
        Obs { bufs: vec![dump(&v)], ..Obs::of(res) }
    }

    fn readv_into(fd: RawFd, members: &[Shape], off: Option<u64>) -> Obs {
        let mut bufs: Vec<Vec<u8>> = members.iter().enumerate().map(|(j, s)| mk_buf(*s, j)).collect();
        let iov: Vec<libc::iovec> = bufs
            .iter_mut()
            .map(|b| libc::iovec { iov_base: b.as_mut_ptr().cast(), iov_len: b.capacity() })
            .collect();
        let r = unsafe {
            match off {
                Some(o) => libc::preadv(fd, iov.as_ptr(), iov.len() as _, o as libc::off_t),
                None => libc::readv(fd, iov.as_ptr(), iov.len() as _),
            }
        };
        let res = os_n(r);
        if let Res::Ok(n) = res {
            advance_members(&mut bufs, n as usize);
        }
        Obs { bufs: bufs.iter().map(dump).collect(), ..Obs::of(res) }
    }

    fn write_from(fd: RawFd, data: &[u8], off: Option<u64>) -> Obs {
        let v = exact(data);
        let r = unsafe {
            match off {
                Some(o) => libc::pwrite(fd, v.as_ptr().cast(), v.len(), o as libc::off_t),
                None => libc::write(fd, v.as_ptr().cast(), v.len()),
            }
        };
        Obs { bufs: vec![dump(&v)], ..Obs::of(os_n(r)) }
    }

    fn writev_from(fd: RawFd, parts: &[Vec<u8>], off: Option<u64>) -> Obs {
        let bufs: Vec<Vec<u8>> = parts.iter().map(|p| exact(p)).collect();
        let iov: Vec<libc::iovec> = bufs
            .iter()
            .map(|b| libc::iovec { iov_base: b.as_ptr() as *mut _, iov_len: b.len() })
            .collect();
        let r = unsafe {
            match off {
                Some(o) => libc::pwritev(fd, iov.as_ptr(), iov.len() as _, o as libc::off_t),
                None => libc::writev(fd, iov.as_ptr(), iov.len() as _),
            }
        };
        Obs { bufs: bufs.iter().map(dump).collect(), ..Obs::of(os_n(r)) }
    }

    fn unit(r: io::Result<()>) -> Obs {
        Obs::of(Res::from_io(&r, 0))
    }
}

impl World for RefWorld {
    fn base(&mut self) -> &mut Base {
        &mut self.base
    }

    fn reset(&mut self, mode: SnapMode) {
        self.file = None;
        self.rx = None;
        self.tx = None;
        self.base.reset(mode);
    }

    fn make_pipe(&mut self) -> Obs {
        let mut fds = [0 as RawFd; 2];
        let r = unsafe { libc::pipe2(fds.as_mut_ptr(), libc::O_CLOEXEC) };
        if r != 0 {
            return Obs::of(os_n(-1));
        }
        self.rx = Some(unsafe { OwnedFd::from_raw_fd(fds[0]) });
        self.tx = Some(unsafe { OwnedFd::from_raw_fd(fds[1]) });
        Obs::of(Res::Ok(0))
    }

    fn exec(&mut self, op: &Op) -> Obs {
        let ffd = self.file.as_ref().map(|f| f.as_raw_fd());
        // ops on a missing handle are never enabled by the enumeration
        let need_f = || ffd.unwrap_or_else(|| vcore::machinery_error("operation on a missing file handle was enabled"));
        match op {
            Op::WriteAt { off, data } => Self::write_from(need_f(), data, Some(*off)),
            Op::ReadAt { off, shape } => Self::read_into(need_f(), *shape, Some(*off)),
            Op::WriteVAt { off, parts } => Self::writev_from(need_f(), parts, Some(*off)),
            Op::ReadVAt { off, members } => Self::readv_into(need_f(), members, Some(*off)),
            Op::SetLen(n) => Obs::of(os_n(unsafe { libc::ftruncate(need_f(), *n as libc::off_t) } as isize)),
            Op::SyncAll => Obs::of(os_n(unsafe { libc::fsync(need_f()) } as isize)),
            Op::SyncData => Obs::of(os_n(unsafe { libc::fdatasync(need_f()) } as isize)),
            Op::Metadata => {
                let _ = need_f();
                let r = self.file.as_ref().unwrap().metadata();
                Obs { meta: r.as_ref().ok().map(meta_of), ..Obs::of(Res::from_io(&r, 0)) }
            }
            Op::Close => {
                let _ = need_f();
                self.file = None;
                Obs::of(Res::Ok(0))
            }
            Op::Open(f) => {
                let mut oo = std::fs::OpenOptions::new();
                oo.read(f.read).write(f.write).truncate(f.truncate).create(f.create).create_new(f.create_new);
                if f.append {
                    oo.custom_flags(libc::O_APPEND);
                }
                let r = oo.open(self.p("f"));
                let res = Res::from_io(&r, 0);
                if let Ok(file) = r {
                    self.file = Some(file);
                }
                Obs::of(res)
            }
            Op::PWrite { data } => Self::write_from(self.tx.as_ref().unwrap().as_raw_fd(), data, None),
            Op::PWriteV { parts } => Self::writev_from(self.tx.as_ref().unwrap().as_raw_fd(), parts, None),
            Op::PRead { shape } => Self::read_into(self.rx.as_ref().unwrap().as_raw_fd(), *shape, None),
            Op::PReadV { members } => Self::readv_into(self.rx.as_ref().unwrap().as_raw_fd(), members, None),
            Op::CloseTx => {
                self.tx = None;
                Obs::of(Res::Ok(0))
            }
            Op::CloseRx => {
                self.rx = None;
                Obs::of(Res::Ok(0))
            }
            Op::CreateDir(p) => Self::unit(std::fs::create_dir(self.p(p))),
            Op::CreateDirAll(p) => Self::unit(std::fs::create_dir_all(self.p(p))),
            Op::RemoveFile(p) => Self::unit(std::fs::remove_file(self.p(p))),
            Op::RemoveDir(p) => Self::unit(std::fs::remove_dir(self.p(p))),
            Op::Rename(a, b) => Self::unit(std::fs::rename(self.p(a), self.p(b))),
            Op::HardLink(a, b) => Self::unit(std::fs::hard_link(self.p(a), self.p(b))),
            Op::Symlink(orig, link) => Self::unit(std::os::unix::fs::symlink(orig, self.p(link))),
            Op::ReadFile(p) => {
                let r = std::fs::read(self.p(p));
                Obs { data: r.as_ref().ok().cloned(), ..Obs::of(Res::from_io(&r, 0)) }
            }
            Op::WriteFile(p, data) => {
                let v = exact(data);
                let r = std::fs::write(self.p(p), &v);
                Obs { bufs: vec![dump(&v)], ..Obs::of(Res::from_io(&r, 0)) }
            }
            Op::PathMeta(p) => {
                let r = std::fs::metadata(self.p(p));
                Obs { meta: r.as_ref().ok().map(meta_of), ..Obs::of(Res::from_io(&r, 0)) }
            }
            Op::SymlinkMeta(p) => {
                let r = std::fs::symlink_metadata(self.p(p));
                Obs { meta: r.as_ref().ok().map(meta_of), ..Obs::of(Res::from_io(&r, 0)) }
            }
        }
    }

    fn state(&mut self) -> State {
        snapshot(&self.base, self.rx.as_ref().map(|f| f.as_raw_fd()), self.tx.is_some(), self.file.is_some())
    }

    fn drain_pipe(&mut self) -> Vec<u8> {
        drain(self.rx.as_ref().map(|f| f.as_raw_fd()))
    }
}

// ---------------------------------------------------------------------------------------------
// compio on a chosen driver
// ---------------------------------------------------------------------------------------------

#[derive(Default)]
struct Handles {
    file: Option<compio_fs::File>,
    rx: Option<compio_fs::pipe::Receiver>,
    tx: Option<compio_fs::pipe::Sender>,
}

pub struct CompioWorld {
    driver: DriverType,
    base: Base,
    // field order: handles are dropped before the runtime
    h: Handles,
    rt: Option<Runtime>,
    pub watchdog: Duration,
    pub runtimes_created: u64,
}

fn new_runtime(t: DriverType) -> Runtime {
    let mut pb = ProactorBuilder::new();
    pb.driver_type(t).capacity(16);
    let rt = match Runtime::builder().with_proactor(pb).build() {
        Ok(rt) => rt,
        Err(e) => vcore::machinery_error(&format!("cannot create a compio runtime on {t:?}: {e}")),
    };
    if rt.driver_type() != t {
        vcore::machinery_error(&format!("asked for driver {t:?}, got {:?}", rt.driver_type()));
    }
    rt
}

/// `Runtime::block_on` with a watchdog: returns None if the future is still pending after
/// `deadline` (only reachable when the operation waits for something nobody will ever do).
fn drive<F: Future>(rt: &Runtime, fut: F, deadline: Duration) -> Option<F::Output> {
    rt.enter(|| {
        let waker = rt.waker();
        let mut cx = Context::from_waker(&waker);
        let mut fut = pin!(fut);
        let start = Instant::now();
        loop {
            if let Poll::Ready(r) = fut.as_mut().poll(&mut cx) {
                rt.run();
                return Some(r);
            }
            if rt.run() {
                rt.poll_with(Some(Duration::ZERO));
            } else {
                let el = start.elapsed();
                if el >= deadline {
                    return None;
                }
                rt.poll_with(Some((deadline - el).min(Duration::from_millis(250))));
            }
        }
    })
}

impl CompioWorld {
    pub fn new(driver: DriverType, dir: PathBuf) -> Self {
        Self {
            driver,
            base: Base::new(dir),
            h: Handles::default(),
            rt: None,
            watchdog: Duration::from_secs(20),
            runtimes_created: 0,
        }
    }

    fn ensure_rt(&mut self) {
        if self.rt.is_none() {
            self.rt = Some(new_runtime(self.driver));
            self.runtimes_created += 1;
        }
    }

    /// run one job to completion on this world's runtime; a watchdog expiry or a panic discards
    /// the runtime (and every handle attached to it)
    fn run(&mut self, job: Job) -> Obs {
        self.ensure_rt();
        let dir = self.base.dir.clone();
        let wd = self.watchdog;
        let rt = self.rt.as_ref().unwrap();
        let h = &mut self.h;
        let r = vcore::catch(move || drive(rt, do_job(h, dir, job), wd));
        match r {
            Ok(Some(o)) => o,
            Ok(None) => {
                self.discard();
                Obs::of(Res::Hang)
            }
            Err(p) => {
                self.discard();
                Obs::of(Res::Panic(p))
            }
        }
    }

    fn discard(&mut self) {
        self.h = Handles::default();
        self.rt = None;
    }
}

fn unit(r: io::Result<()>) -> Obs {
    Obs::of(Res::from_io(&r, 0))
}

enum Job {
    Pipe,
    Op(Op),
}

async fn do_job(h: &mut Handles, dir: PathBuf, job: Job) -> Obs {
    match job {
        Job::Pipe => {
            let r = compio_fs::pipe::anonymous().await;
            let res = Res::from_io(&r, 0);
            if let Ok((rx, tx)) = r {
                h.rx = Some(rx);
                h.tx = Some(tx);
            }
            Obs::of(res)
        }
        Job::Op(op) => exec_compio(h, dir, op).await,
    }
}

async fn exec_compio(h: &mut Handles, dir: PathBuf, op: Op) -> Obs {
    let p = |rel: &str| dir.join(rel);
    match op {
        Op::WriteAt { off, data } => {
            let mut f = h.file.as_ref().unwrap();
            let BufResult(r, b) = f.write_at(exact(&data), off).await;
            Obs { bufs: vec![dump(&b)], ..Obs::of(Res::n(&r)) }
        }
        Op::ReadAt { off, shape } => {
            let f = h.file.as_ref().unwrap();
            let BufResult(r, b) = f.read_at(mk_buf(shape, 0), off).await;
            Obs { bufs: vec![dump(&b)], ..Obs::of(Res::n(&r)) }
        }
        Op::WriteVAt { off, parts } => {
            let mut f = h.file.as_ref().unwrap();
            let bufs: Vec<Vec<u8>> = parts.iter().map(|p| exact(p)).collect();
            let BufResult(r, b) = f.write_vectored_at(bufs, off).await;
            Obs { bufs: b.iter().map(dump).collect(), ..Obs::of(Res::n(&r)) }
        }
        Op::ReadVAt { off, members } => {
            let f = h.file.as_ref().unwrap();
            let bufs: Vec<Vec<u8>> = members.iter().enumerate().map(|(j, s)| mk_buf(*s, j)).collect();
            let BufResult(r, b) = f.read_vectored_at(bufs, off).await;
            Obs { bufs: b.iter().map(dump).collect(), ..Obs::of(Res::n(&r)) }
        }
        Op::SetLen(n) => unit(h.file.as_ref().unwrap().set_len(n).await),
        Op::SyncAll => unit(h.file.as_ref().unwrap().sync_all().await),
        Op::SyncData => unit(h.file.as_ref().unwrap().sync_data().await),
        Op::Metadata => {
            let f = h.file.as_ref().unwrap();
            let r = f.metadata().await;
            let mut o = Obs { meta: r.as_ref().ok().map(cmeta), ..Obs::of(Res::from_io(&r, 0)) };
            if let Ok(m) = &r {
                // the OS's own answer for the very same descriptor, right now
                let fd = f.as_raw_fd();
                let std_file = std::mem::ManuallyDrop::new(unsafe { std::fs::File::from_raw_fd(fd) });
                match std_file.metadata() {
                    Ok(s) => o.stat_disagreement = stat_diff(m, &s),
                    Err(e) => o.stat_disagreement = Some(format!("harness fstat failed: {e}")),
                }
            }
            o
        }
        Op::Close => {
            let f = h.file.take().unwrap();
            unit(f.close().await)
        }
        Op::Open(fl) => {
            let mut oo = compio_fs::OpenOptions::new();
            oo.read(fl.read).write(fl.write).truncate(fl.truncate).create(fl.create).create_new(fl.create_new);
            if fl.append {
                oo.custom_flags(libc::O_APPEND);
            }
            let r = oo.open(p("f")).await;
            let res = Res::from_io(&r, 0);
            if let Ok(file) = r {
                h.file = Some(file);
            }
            Obs::of(res)
        }
        Op::PWrite { data } => {
            let mut t = h.tx.as_ref().unwrap();
            let BufResult(r, b) = t.write(exact(&data)).await;
            Obs { bufs: vec![dump(&b)], ..Obs::of(Res::n(&r)) }
        }
        Op::PWriteV { parts } => {
            let mut t = h.tx.as_ref().unwrap();
            let bufs: Vec<Vec<u8>> = parts.iter().map(|p| exact(p)).collect();
            let BufResult(r, b) = t.write_vectored(bufs).await;
            Obs { bufs: b.iter().map(dump).collect(), ..Obs::of(Res::n(&r)) }
        }
        Op::PRead { shape } => {
            let mut rx = h.rx.as_ref().unwrap();
            let BufResult(r, b) = rx.read(mk_buf(shape, 0)).await;
            Obs { bufs: vec![dump(&b)], ..Obs::of(Res::n(&r)) }
        }
        Op::PReadV { members } => {
            let mut rx = h.rx.as_ref().unwrap();
            let bufs: Vec<Vec<u8>> = members.iter().enumerate().map(|(j, s)| mk_buf(*s, j)).collect();
            let BufResult(r, b) = rx.read_vectored(bufs).await;
            Obs { bufs: b.iter().map(dump).collect(), ..Obs::of(Res::n(&r)) }
        }
        Op::CloseTx => unit(h.tx.take().unwrap().close().await),
        Op::CloseRx => unit(h.rx.take().unwrap().close().await),
        Op::CreateDir(a) => unit(compio_fs::create_dir(p(&a)).await),
        Op::CreateDirAll(a) => unit(compio_fs::create_dir_all(p(&a)).await),
        Op::RemoveFile(a) => unit(compio_fs::remove_file(p(&a)).await),
        Op::RemoveDir(a) => unit(compio_fs::remove_dir(p(&a)).await),
        Op::Rename(a, b) => unit(compio_fs::rename(p(&a), p(&b)).await),
        Op::HardLink(a, b) => unit(compio_fs::hard_link(p(&a), p(&b)).await),
        Op::Symlink(orig, link) => unit(compio_fs::symlink(&orig, p(&link)).await),
        Op::ReadFile(a) => {
            let r = compio_fs::read(p(&a)).await;
            Obs { data: r.as_ref().ok().cloned(), ..Obs::of(Res::from_io(&r, 0)) }
        }
        Op::WriteFile(a, data) => {
            let BufResult(r, b) = compio_fs::write(p(&a), exact(&data)).await;
            Obs { bufs: vec![dump(&b)], ..Obs::of(Res::from_io(&r, 0)) }
        }
        Op::PathMeta(ref a) | Op::SymlinkMeta(ref a) => {
            let follow = matches!(op, Op::PathMeta(_));
            let path = p(a);
            let r = if follow { compio_fs::metadata(&path).await } else { compio_fs::symlink_metadata(&path).await };
            let mut o = Obs { meta: r.as_ref().ok().map(cmeta), ..Obs::of(Res::from_io(&r, 0)) };
            if let Ok(m) = &r {
                let s = if follow { std::fs::metadata(&path) } else { std::fs::symlink_metadata(&path) };
                match s {
                    Ok(s) => o.stat_disagreement = stat_diff(m, &s),
                    Err(e) => o.stat_disagreement = Some(format!("harness stat failed: {e}")),
                }
            }
            o
        }
    }
}

impl World for CompioWorld {
    fn base(&mut self) -> &mut Base {
        &mut self.base
    }

    fn reset(&mut self, mode: SnapMode) {
        // handles are dropped (not `close().await`ed): plain drop closes the descriptor because no
        // operation is in flight at this point
        self.h = Handles::default();
        self.base.reset(mode);
    }

    fn make_pipe(&mut self) -> Obs {
        self.run(Job::Pipe)
    }

    fn exec(&mut self, op: &Op) -> Obs {
        self.run(Job::Op(op.clone()))
    }

    fn state(&mut self) -> State {
        snapshot(&self.base, self.h.rx.as_ref().map(|f| f.as_raw_fd()), self.h.tx.is_some(), self.h.file.is_some())
    }

    fn drain_pipe(&mut self) -> Vec<u8> {
        drain(self.h.rx.as_ref().map(|f| f.as_raw_fd()))
    }
}
