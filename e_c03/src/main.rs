//! C03, layers (b)+(c): the driver's idle/notified/awake protocol on the REAL drivers.
//!
//! A "program" is a short sequence of driver calls as the two kinds of event loop make them:
//!   F  = flush()                    (external loop, before it waits on the driver's descriptor)
//!   P0 = poll(Some(0))              (reap without blocking)
//!   B  = poll(Some(T))              (own loop: block in the kernel)
//!   X  = wait for the driver's descriptor to become readable (poll(2), as compio-compat does),
//!        then poll(Some(0))
//! One wake-up (invoking the driver's waker, exactly what a task waker or another thread's
//! `Waker::wake` does) is injected at EVERY position: between any two calls, and — through the
//! cfg(compio_verif) interleaving points — at every named step INSIDE poll/flush (before/after
//! the flag reset, before/after the blocking wait, after set_awake, after reaping). Performing
//! the wake synchronously at such a point is exactly the interleaving "another thread woke us
//! at this point" (the wake is one atomic RMW plus at most one eventfd/poller write).
//! Additionally the wake is issued by a real second thread while the loop is blocked in B / X.
//!
//! Oracle (reference model of "outstanding wake"): the first blocking wait that starts after the
//! wake (or contains it before its wait step) returns promptly unless a poll returned or a
//! flush reported `true` in between (then the loop runs its tasks anyway); a wait with no
//! outstanding wake and no I/O times out (sanity: the harness is not vacuous).
use std::{
    cell::{Cell, RefCell},
    os::fd::AsRawFd,
    rc::Rc,
    time::{Duration, Instant},
};

use compio_driver::{DriverType, Proactor, ProactorBuilder, verif};
use vcore::{Report, Tier, Violation, json};

const T_BLOCK: Duration = Duration::from_millis(60);
const PROMPT: Duration = Duration::from_millis(30);
/// blocking wait used when the wake-up comes from a second thread (generous: the machine may be loaded)
const T_BLOCK_LONG: Duration = Duration::from_millis(1500);

#[derive(Clone, Copy, Debug, PartialEq)]
enum Call {
    P0,
    B,
    /// one iteration of an external event loop (compio-compat's `drive`): flush(); if it
    /// reports "notified" do not wait, else wait for the driver's descriptor; then poll(0)
    FX,
}

#[derive(Clone, Debug, PartialEq)]
enum Place {
    /// before call #k (k == len: after the last call)
    Between(usize),
    /// at the n-th interleaving point (counted over the whole program)
    Point(usize),
    /// from a second thread, 15 ms after call #k (a B or FX) started
    DuringBlocked(usize),
    /// between the flush and the descriptor wait of call #k (an FX)
    MidFx(usize),
    Never,
}

#[derive(Debug, Clone)]
struct Obs {
    /// per call: (returned value / readiness, elapsed ms)
    calls: Vec<(String, u128)>,
    /// (call index, point name) where the wake was performed, if inside a call
    wake_at: Option<(usize, &'static str)>,
    /// for DuringBlocked: milliseconds between the helper thread's wake() and the return of the wait
    wake_to_return_ms: Option<i128>,
    points: usize,
}

fn fd_readable(fd: i32, timeout: Duration) -> bool {
    let mut p = libc::pollfd { fd, events: libc::POLLIN, revents: 0 };
    let r = unsafe { libc::poll(&mut p, 1, timeout.as_millis() as i32) };
    r > 0 && (p.revents & libc::POLLIN) != 0
}

fn build(driver: DriverType) -> Proactor {
    let mut b = ProactorBuilder::new();
    b.driver_type(driver).capacity(8);
    b.build().expect("build proactor")
}

fn run(driver: DriverType, prog: &[Call], place: &Place, prime: bool) -> Obs {
    let mut p = build(driver);
    if prime {
        // a runtime that has already been through one loop iteration
        let _ = p.poll(Some(Duration::ZERO));
    }
    let waker = p.waker();
    let cur_call = Rc::new(Cell::new(0usize));
    let in_flush = Rc::new(Cell::new(false));
    let npoints = Rc::new(Cell::new(0usize));
    let wake_at: Rc<RefCell<Option<(usize, &'static str)>>> = Rc::new(RefCell::new(None));
    {
        let (cc, np, wa, w, place) = (cur_call.clone(), npoints.clone(), wake_at.clone(), waker.clone(), place.clone());
        verif::set_on_point(Some(Box::new(move |name| {
            let n = np.get();
            np.set(n + 1);
            if place == Place::Point(n) {
                *wa.borrow_mut() = Some((cc.get(), name));
                w.wake_by_ref();
            }
        })));
    }
    let mut calls = Vec::new();
    let mut w2r: Option<i128> = None;
    for (k, c) in prog.iter().enumerate() {
        cur_call.set(k);
        if *place == Place::Between(k) {
            waker.wake_by_ref();
        }
        let during = *place == Place::DuringBlocked(k);
        let t_block = if during { T_BLOCK_LONG } else { T_BLOCK };
        let helper = if during {
            let w = waker.clone();
            Some(std::thread::spawn(move || {
                std::thread::sleep(Duration::from_millis(15));
                let t = Instant::now();
                w.wake();
                t
            }))
        } else {
            None
        };
        let t0 = Instant::now();
        let r = match c {
            Call::P0 => format!("{:?}", p.poll(Some(Duration::ZERO)).map_err(|e| e.kind())),
            Call::B => format!("{:?}", p.poll(Some(t_block)).map_err(|e| e.kind())),
            Call::FX => {
                in_flush.set(true);
                let notified = p.flush();
                in_flush.set(false);
                if *place == Place::MidFx(k) {
                    waker.wake_by_ref();
                }
                let t1 = Instant::now();
                let ready = if notified { true } else { fd_readable(p.as_raw_fd(), t_block) };
                let el = t1.elapsed();
                let t_ret = Instant::now();
                let _ = p.poll(Some(Duration::ZERO));
                calls.push((format!("flush={notified},readable={ready}"), el.as_millis()));
                if let Some(h) = helper {
                    let t_wake = h.join().unwrap();
                    w2r = Some(t_ret.duration_since(t_wake.min(t_ret)).as_millis() as i128 - if t_wake > t_ret { 1_000_000 } else { 0 });
                }
                continue;
            }
        };
        calls.push((r, t0.elapsed().as_millis()));
        let t_ret = Instant::now();
        if let Some(h) = helper {
            let t_wake = h.join().unwrap();
            w2r = Some(t_ret.duration_since(t_wake.min(t_ret)).as_millis() as i128 - if t_wake > t_ret { 1_000_000 } else { 0 });
        }
    }
    if *place == Place::Between(prog.len()) {
        waker.wake_by_ref();
    }
    verif::set_on_point(None);
    drop(waker);
    Obs { calls, wake_at: wake_at.borrow().clone(), points: npoints.get(), wake_to_return_ms: w2r }
}

/// reference model: which call must be prompt / report the wake
fn check(prog: &[Call], place: &Place, o: &Obs) -> Result<String, (String, String)> {
    let prompt = |k: usize| o.calls[k].1 < PROMPT.as_millis();
    // the polling driver reports a consumed notification as TimedOut at once; what matters to the
    // loop (Runtime::poll_with ignores TimedOut) is that the call returns promptly
    let woke = |k: usize| -> bool {
        if *place == Place::DuringBlocked(k) {
            // the wait must end within 200 ms of the other thread's wake() (negative: the wait
            // ended before the wake was issued, i.e. this run does not exercise the case)
            return match o.wake_to_return_ms {
                Some(ms) if ms < 0 => true,
                Some(ms) => ms < 200 && (prog[k] != Call::FX || o.calls[k].0.ends_with("readable=true")),
                None => false,
            };
        }
        match prog[k] {
            Call::B => prompt(k),
            Call::FX => o.calls[k].0.ends_with("readable=true") && prompt(k),
            Call::P0 => true,
        }
    };
    let start = match place {
        Place::Never => {
            // sanity: without a wake every blocking wait really waits
            for (k, c) in prog.iter().enumerate() {
                if matches!(c, Call::B | Call::FX) && woke(k) {
                    return Err(("spurious-wakeup".into(), format!("call #{k} {c:?} returned {} after {} ms without any wake-up or I/O", o.calls[k].0, o.calls[k].1)));
                }
            }
            return Ok("no-wake".into());
        }
        Place::Between(k) | Place::DuringBlocked(k) | Place::MidFx(k) => *k,
        Place::Point(_) => {
            let Some((k, name)) = o.wake_at else {
                return Ok("point-not-reached".into());
            };
            match prog[k] {
                // a wake before the wait step of a blocking poll obliges that very call; after the
                // wait step it is honoured by that call's return (the loop runs its tasks next)
                Call::B | Call::P0 => {
                    if matches!(name, "poll:before-reset" | "poll:after-reset" | "poll:before-wait") { k } else { k + 1 }
                }
                // inside the flush of an FX: obliges this FX (flush must report it or the
                // descriptor must become readable); inside its trailing poll(0): consumed by it
                Call::FX => {
                    if name.starts_with("flush:") { k } else { return Ok(format!("consumed-by-trailing-poll@{k}")) }
                }
            }
        }
    };
    for k in start..prog.len() {
        match prog[k] {
            Call::P0 => return Ok(format!("consumed-by-P0@{k}")),
            Call::B | Call::FX => {
                if woke(k) {
                    return Ok(format!("woke-{:?}@{k}", prog[k]));
                }
                let mode = if prog[k] == Call::B { "own-loop" } else { "external-loop" };
                let first = prog[..k].iter().all(|c| *c == Call::FX);
                let cause = if prog[k] == Call::FX && first { "before-first-poll" } else { "other" };
                return Err((
                    format!("lost-wakeup:{mode}:{cause}"),
                    format!("wake-up at {place:?} ({:?}); call #{k} {:?} -> {} after {} ms (blocking wait of {} ms)", o.wake_at, prog[k], o.calls[k].0, o.calls[k].1, T_BLOCK.as_millis()),
                ));
            }
        }
    }
    Ok("no-wait-after-wake".into())
}

fn programs(depth: usize) -> Vec<Vec<Call>> {
    let alpha = [Call::P0, Call::B, Call::FX];
    let mut out: Vec<Vec<Call>> = vec![];
    let mut last: Vec<Vec<Call>> = vec![vec![]];
    for _ in 0..depth {
        let mut next = vec![];
        for p in &last {
            for a in alpha {
                let mut q = p.clone();
                q.push(a);
                next.push(q);
            }
        }
        out.extend(next.iter().cloned());
        last = next;
    }
    // only programs that contain a blocking wait are interesting; limit the number of blocking
    // waits (each costs T_BLOCK when it legitimately times out)
    out.into_iter().filter(|p| {
        let nb = p.iter().filter(|c| matches!(c, Call::B | Call::FX)).count();
        (1..=2).contains(&nb)
    }).collect()
}

// --------------------------------------------------------------------------------------------
// wake-ups produced by completions: operations whose waker is the driver's own waker (what
// `block_on`'s main future uses), including completions reaped while PUSHING (submission queue
// overflow), must keep the next blocking wait from sleeping
// --------------------------------------------------------------------------------------------

#[derive(Clone, Copy, Debug, PartialEq)]
enum OStep {
    /// write one byte to pipe i
    W(usize),
    /// submit a read on pipe i, its waker = counting wrapper around the driver's waker
    S(usize),
    P0,
}

struct CountingWaker {
    inner: std::task::Waker,
    hits: std::sync::atomic::AtomicUsize,
}

impl std::task::Wake for CountingWaker {
    fn wake(self: std::sync::Arc<Self>) {
        self.wake_by_ref()
    }

    fn wake_by_ref(self: &std::sync::Arc<Self>) {
        self.hits.fetch_add(1, std::sync::atomic::Ordering::SeqCst);
        self.inner.wake_by_ref();
    }
}

fn ops_programs(depth: usize) -> Vec<Vec<OStep>> {
    let mut out = vec![];
    fn rec(cur: &mut Vec<OStep>, depth: usize, out: &mut Vec<Vec<OStep>>) {
        if !cur.is_empty() && cur.iter().any(|s| matches!(s, OStep::S(_))) {
            out.push(cur.clone());
        }
        if cur.len() == depth {
            return;
        }
        let ns = cur.iter().filter(|s| matches!(s, OStep::S(_))).count();
        let mut next: Vec<OStep> = vec![];
        if ns < 3 {
            next.push(OStep::S(ns)); // submissions in index order (pipes are interchangeable)
        }
        for i in 0..3 {
            if !cur.contains(&OStep::W(i)) {
                next.push(OStep::W(i));
            }
        }
        if cur.last() != Some(&OStep::P0) {
            next.push(OStep::P0);
        }
        for n in next {
            cur.push(n);
            rec(cur, depth, out);
            cur.pop();
        }
    }
    rec(&mut vec![], depth, &mut out);
    out
}

fn run_ops(driver: DriverType, capacity: u32, prog: &[OStep]) -> Result<String, (String, String)> {
    use std::os::fd::{FromRawFd, OwnedFd};
    let mut b = ProactorBuilder::new();
    b.driver_type(driver).capacity(capacity);
    let mut p = b.build().expect("build proactor");
    let _ = p.poll(Some(Duration::ZERO));
    let cw = std::sync::Arc::new(CountingWaker { inner: p.waker(), hits: Default::default() });
    let waker = std::task::Waker::from(cw.clone());
    let mut pipes: Vec<(OwnedFd, OwnedFd)> = Vec::new();
    for _ in 0..3 {
        let mut fds = [0i32; 2];
        assert_eq!(unsafe { libc::pipe2(fds.as_mut_ptr(), libc::O_CLOEXEC | libc::O_NONBLOCK) }, 0);
        pipes.push(unsafe { (OwnedFd::from_raw_fd(fds[0]), OwnedFd::from_raw_fd(fds[1])) });
    }
    let mut keys = Vec::new();
    let mut written = [false; 3];
    let mut submitted = [false; 3];
    let mut hits_at_last_poll_return = 0usize;
    for st in prog {
        match st {
            OStep::W(i) => {
                assert_eq!(unsafe { libc::write(pipes[*i].1.as_raw_fd(), b"x".as_ptr().cast(), 1) }, 1);
                written[*i] = true;
            }
            OStep::S(i) => {
                let fd = pipes[*i].0.try_clone().unwrap();
                let op = compio_driver::op::Read::new(fd, Vec::<u8>::with_capacity(4));
                match p.push(op) {
                    compio_driver::PushEntry::Pending(k) => {
                        p.update_waker(&k, &waker);
                        keys.push(k);
                    }
                    compio_driver::PushEntry::Ready(_) => {}
                }
                submitted[*i] = true;
            }
            OStep::P0 => {
                let _ = p.poll(Some(Duration::ZERO));
                hits_at_last_poll_return = cw.hits.load(std::sync::atomic::Ordering::SeqCst);
            }
        }
    }
    // the loop is about to block: is there a reason not to sleep?
    let woken_since = cw.hits.load(std::sync::atomic::Ordering::SeqCst) > hits_at_last_poll_return;
    let data_pending = (0..3).any(|i| written[i] && submitted[i]);
    let t0 = Instant::now();
    let r = p.poll(Some(T_BLOCK));
    let el = t0.elapsed();
    let prompt = el < PROMPT;
    drop(keys);
    if woken_since && !prompt {
        return Err((
            "lost-wakeup:own-loop:completion-reaped-outside-poll".into(),
            format!("an operation's waker (the driver's own waker) was invoked after the last poll returned, yet the blocking poll slept {} ms (-> {:?})", el.as_millis(), r.map_err(|e| e.kind())),
        ));
    }
    if !woken_since && !data_pending && prompt {
        return Err(("spurious-wakeup".into(), format!("blocking poll returned after {} ms with nothing to do", el.as_millis())));
    }
    Ok(format!("{}|{}|{}", woken_since, data_pending, prompt))
}

// ---------------------------------------------------------------------------------------------
// Runtime level: the external event loop (compio-compat's `drive`) and task wakers
// ---------------------------------------------------------------------------------------------
//
// The loop: run() the tasks, flush(); if nothing is left and the driver was not notified, wait
// for the driver's descriptor (here: poll(2), bounded); then poll(0). BETWEEN two iterations --
// while the loop is parked on the descriptor -- the host may run other callbacks on the runtime's
// own thread (spawn a task, invoke a task's waker) and other threads may invoke wakers. Every
// program over {spawn a parking task, wake task i on this thread, wake task i from another
// thread, one loop iteration} up to a depth; oracle: after a waker was invoked, the parked loop
// is un-parked (descriptor readable within the watchdog, or the loop was not going to park) and
// the woken task is polled again by that iteration.

#[derive(Clone, Copy, Debug, PartialEq)]
enum XStep {
    Spawn,
    WakeLocal(usize),
    WakeRemote(usize),
    Iter,
}

struct XTask {
    polls: Rc<Cell<usize>>,
    slot: Rc<RefCell<Option<std::task::Waker>>>,
}

fn xloop_programs(depth: usize) -> Vec<Vec<XStep>> {
    // enabledness depends only on the prefix: a task can be woken once it has been polled by an
    // Iter after its spawn (then it has stored its waker) and has not been woken since
    fn rec(prefix: &mut Vec<XStep>, depth: usize, out: &mut Vec<Vec<XStep>>) {
        if !prefix.is_empty() && *prefix.last().unwrap() == XStep::Iter && prefix.iter().any(|s| matches!(s, XStep::WakeLocal(_) | XStep::WakeRemote(_))) {
            out.push(prefix.clone());
        }
        if prefix.len() >= depth {
            return;
        }
        // per task: 0 = spawned, not polled yet; 1 = parked with a stored waker; 2 = woken, not yet
        // re-polled; 3 = finished
        let mut state: Vec<u8> = Vec::new();
        for s in prefix.iter() {
            match s {
                XStep::Spawn => state.push(0),
                XStep::WakeLocal(i) | XStep::WakeRemote(i) => state[*i] = 2,
                XStep::Iter => {
                    for t in state.iter_mut() {
                        *t = match *t {
                            0 => 1,
                            2 => 3,
                            x => x,
                        };
                    }
                }
            }
        }
        let mut next: Vec<XStep> = vec![XStep::Iter];
        if state.len() < 3 {
            next.push(XStep::Spawn);
        }
        for (i, t) in state.iter().enumerate() {
            if *t == 1 {
                next.push(XStep::WakeLocal(i));
                next.push(XStep::WakeRemote(i));
            }
        }
        for n in next {
            prefix.push(n);
            rec(prefix, depth, out);
            prefix.pop();
        }
    }
    let mut out = Vec::new();
    rec(&mut Vec::new(), depth, &mut out);
    out
}

fn run_xloop(driver: DriverType, prog: &[XStep]) -> Result<String, (String, String)> {
    use std::os::fd::AsRawFd as _;
    let mut pb = ProactorBuilder::new();
    pb.driver_type(driver).capacity(8);
    let mut rb = compio_runtime::Runtime::builder();
    rb.with_proactor(pb);
    let rt = rb.build().map_err(|e| ("setup".to_string(), format!("{e}")))?;
    let fd = rt.as_raw_fd();
    let mut tasks: Vec<XTask> = Vec::new();
    // (task, "local"/"remote", a spawn happened on this thread since the loop parked)
    let mut outstanding: Vec<(usize, &'static str, bool)> = Vec::new();
    let mut spawned_since_park = false;
    // the loop parks only if the last run()/flush() left nothing to do
    let run_and_flush = |rt: &compio_runtime::Runtime| -> bool {
        let remaining = rt.enter(|| rt.run());
        remaining | rt.flush()
    };
    let mut will_park = !run_and_flush(&rt);
    let mut sig = String::new();
    for (k, st) in prog.iter().enumerate() {
        match *st {
            XStep::Spawn => {
                let polls = Rc::new(Cell::new(0usize));
                let slot: Rc<RefCell<Option<std::task::Waker>>> = Rc::new(RefCell::new(None));
                let (p2, s2) = (polls.clone(), slot.clone());
                let fut = std::future::poll_fn(move |cx| {
                    p2.set(p2.get() + 1);
                    if p2.get() >= 2 {
                        std::task::Poll::Ready(())
                    } else {
                        *s2.borrow_mut() = Some(cx.waker().clone());
                        std::task::Poll::Pending
                    }
                });
                rt.enter(|| rt.spawn(fut)).detach();
                tasks.push(XTask { polls, slot });
                spawned_since_park = true;
            }
            XStep::WakeLocal(i) => {
                let w = tasks[i].slot.borrow_mut().take().ok_or_else(|| ("harness".to_string(), format!("step {k}: task {i} has no stored waker")))?;
                w.wake();
                outstanding.push((i, "local", spawned_since_park));
            }
            XStep::WakeRemote(i) => {
                let w = tasks[i].slot.borrow_mut().take().ok_or_else(|| ("harness".to_string(), format!("step {k}: task {i} has no stored waker")))?;
                std::thread::spawn(move || w.wake()).join().unwrap();
                outstanding.push((i, "remote", spawned_since_park));
            }
            XStep::Iter => {
                let before: Vec<usize> = tasks.iter().map(|t| t.polls.get()).collect();
                if will_park {
                    if !outstanding.is_empty() {
                        // the parked loop has to be un-parked by the wake-up
                        if !fd_readable(fd, T_BLOCK_LONG) {
                            let (i, how, sp) = outstanding[0];
                            return Err((
                                format!("lost-wakeup:external-loop:task-waker:{how}:{}", if sp { "after-a-spawn-on-the-runtime-thread" } else { "plain" }),
                                format!("step {k}: the loop is parked on the driver's descriptor, the waker of task {i} was invoked ({how}), but the descriptor did not become readable within {} ms: the loop sleeps for ever and the task is never polled", T_BLOCK_LONG.as_millis()),
                            ));
                        }
                    }
                    // nothing outstanding: the host loop would stay parked; the harness goes on
                }
                rt.poll_with(Some(Duration::ZERO));
                let mut again = run_and_flush(&rt);
                let mut rounds = 0;
                while again && rounds < 8 {
                    rt.poll_with(Some(Duration::ZERO));
                    again = run_and_flush(&rt);
                    rounds += 1;
                }
                will_park = !again;
                for (i, how, _) in outstanding.drain(..) {
                    if tasks[i].polls.get() == before[i] {
                        return Err((format!("woken-task-not-polled:external-loop:{how}"), format!("step {k}: task {i} was woken ({how}) but the loop iteration did not poll it")));
                    }
                }
                spawned_since_park = false;
                sig.push_str(&format!("{}", tasks.iter().map(|t| t.polls.get().min(2).to_string()).collect::<String>()));
                sig.push('|');
            }
        }
    }
    drop(tasks);
    drop(rt);
    Ok(sig)
}


// ---------------------------------------------------------------------------------------------
// Thread-pool completions: a blocking-pool job (op::Asyncify) that FINISHES at every named step
// inside Driver::poll. The pool thread publishes the result and wakes the driver exactly like any
// foreign thread; while the driver is "awake" that wake-up is only a flag, so the driver itself has
// to look at the finished jobs before it sleeps again. Oracle: after the call that contained the
// finish, one blocking poll delivers the job's outcome (pop() is Ready) -- found missing by the
// seeded change C02-c m1 (finished jobs were only looked at after the wait).
// ---------------------------------------------------------------------------------------------

struct JobGate {
    open: std::sync::Mutex<bool>,
    cv: std::sync::Condvar,
    entered: std::sync::atomic::AtomicBool,
    left: std::sync::atomic::AtomicBool,
}

/// (driver, first call, point index) -> Ok(signature) / Err((key, detail)); `None` point = the job
/// finishes between the two calls
fn run_poolwake(driver: DriverType, first: Call, point: Option<usize>) -> Result<(String, usize), (String, String)> {
    use std::sync::atomic::Ordering::SeqCst;
    let mut p = build(driver);
    let _ = p.poll(Some(Duration::ZERO));
    let gate = std::sync::Arc::new(JobGate { open: Default::default(), cv: Default::default(), entered: Default::default(), left: Default::default() });
    let g = gate.clone();
    let op = compio_driver::op::Asyncify::new(move || {
        g.entered.store(true, SeqCst);
        let mut o = g.open.lock().unwrap();
        while !*o {
            o = g.cv.wait(o).unwrap();
        }
        drop(o);
        g.left.store(true, SeqCst);
        compio_buf::BufResult(Ok(7usize), ())
    });
    let key = match p.push(op) {
        compio_driver::PushEntry::Pending(k) => k,
        compio_driver::PushEntry::Ready(_) => return Err(("harness".into(), "Asyncify completed at push".into())),
    };
    // the job must be parked on the gate before the program starts (flush hands it to the pool)
    let _ = p.flush();
    let t = Instant::now();
    while !gate.entered.load(SeqCst) {
        if t.elapsed() > Duration::from_secs(5) {
            return Err(("harness".into(), "pool job did not start within 5 s".into()));
        }
        let _ = p.poll(Some(Duration::ZERO));
        std::thread::sleep(Duration::from_micros(200));
    }
    let finish = {
        let gate = gate.clone();
        move || {
            *gate.open.lock().unwrap() = true;
            gate.cv.notify_all();
            let t = Instant::now();
            while !gate.left.load(SeqCst) && t.elapsed() < Duration::from_secs(2) {
                std::thread::sleep(Duration::from_micros(100));
            }
            // the pool thread publishes the result and wakes the driver right after the closure
            // returned; too short a pause only makes this run miss the case, never a false alarm
            std::thread::sleep(Duration::from_millis(3));
        }
    };
    // a companion operation whose completion is reaped by the first call, so that the steps after
    // the wait (reaping, set_awake) are reached on the io_uring driver too
    let mut fds = [0i32; 2];
    assert_eq!(unsafe { libc::pipe2(fds.as_mut_ptr(), libc::O_CLOEXEC | libc::O_NONBLOCK) }, 0);
    let (rd, wr) = unsafe { (<std::os::fd::OwnedFd as std::os::fd::FromRawFd>::from_raw_fd(fds[0]), <std::os::fd::OwnedFd as std::os::fd::FromRawFd>::from_raw_fd(fds[1])) };
    assert_eq!(unsafe { libc::write(wr.as_raw_fd(), b"x".as_ptr().cast(), 1) }, 1);
    let _companion = match p.push(compio_driver::op::Read::new(rd, Vec::<u8>::with_capacity(4))) {
        compio_driver::PushEntry::Pending(k) => Some(k),
        compio_driver::PushEntry::Ready(_) => None,
    };
    let npoints = Rc::new(Cell::new(0usize));
    let at: Rc<RefCell<Option<&'static str>>> = Rc::new(RefCell::new(None));
    {
        let (np, at, f) = (npoints.clone(), at.clone(), finish.clone());
        verif::set_on_point(Some(Box::new(move |name| {
            let n = np.get();
            np.set(n + 1);
            if point == Some(n) {
                *at.borrow_mut() = Some(name);
                f();
            }
        })));
    }
    let _ = match first {
        Call::P0 => p.poll(Some(Duration::ZERO)),
        _ => p.poll(Some(T_BLOCK)),
    };
    verif::set_on_point(None);
    let points = npoints.get();
    if point.is_none() {
        finish();
    } else if at.borrow().is_none() {
        // point not reached: finish now so that the pool thread is not left parked
        finish();
        let _ = p.poll(Some(T_BLOCK_LONG));
        return Ok(("point-not-reached".into(), points));
    }
    // the loop runs its tasks and comes back to sleep: this wait must deliver the outcome
    let t0 = Instant::now();
    let mut key = Some(key);
    let mut delivered_after = None;
    for round in 0..2 {
        if round == 1 {
            let _ = p.poll(Some(T_BLOCK_LONG));
        }
        match p.pop(key.take().unwrap()) {
            compio_driver::PushEntry::Ready(r) => {
                if !matches!(r.0, Ok(7)) {
                    return Err(("pool-completion-wrong-result".into(), format!("{:?}", r.0.map_err(|e| e.kind()))));
                }
                delivered_after = Some(round);
                break;
            }
            compio_driver::PushEntry::Pending(k) => key = Some(k),
        }
    }
    let el = t0.elapsed();
    let name = (*at.borrow()).unwrap_or("between-calls");
    match delivered_after {
        // delivered, but only when the wait timed out: the loop slept on a finished job
        Some(1) if el > T_BLOCK_LONG / 3 => Err((
            format!("pool-completion-slept-on:{name}"),
            format!("driver {driver:?}: a thread-pool job finished at `{name}` of {first:?}; the following poll({} ms) slept {} ms before delivering its outcome", T_BLOCK_LONG.as_millis(), el.as_millis()),
        )),
        Some(r) => Ok((format!("{name}|delivered-by-{}", if r == 0 { "the-call-itself" } else { "the-next-wait" }), points)),
        None => Err((
            format!("pool-completion-undelivered:{name}"),
            format!("driver {driver:?}: a thread-pool job finished at `{name}` of {first:?}; the following poll({} ms) returned after {} ms without delivering its outcome (pop() still pending)", T_BLOCK_LONG.as_millis(), el.as_millis()),
        )),
    }
}

fn poolwake_family(rep: &Report) {
    // thread-pool completions at every point inside poll
    rep.must_reach("pool-job-finished-inside-poll");
    {
        let mut pitems: Vec<(DriverType, Call, Option<usize>)> = Vec::new();
        for d in [DriverType::IoUring, DriverType::Poll] {
            for first in [Call::P0, Call::B] {
                let n = match run_poolwake(d, first, Some(usize::MAX)) {
                    Ok((_, n)) => n,
                    Err((k, m)) => vcore::machinery_error(&format!("poolwake probe: {k}: {m}")),
                };
                pitems.push((d, first, None));
                pitems.extend((0..n).map(|i| (d, first, Some(i))));
            }
        }
        vcore::par_for_each_n(&pitems, vcore::threads().min(8), |_, (d, first, point)| {
            let mut r = run_poolwake(*d, *first, *point);
            rep.add_execution(3);
            rep.add_states(1);
            if r.is_err() {
                // real threads and real time: confirm before reporting
                let r2 = run_poolwake(*d, *first, *point);
                if r2.is_ok() {
                    rep.count("unconfirmed-timing-anomalies", 1);
                    r = r2;
                }
            }
            match r {
                Ok((sig, _)) => {
                    if point.is_some() && sig != "point-not-reached" {
                        rep.count("pool-job-finished-inside-poll", 1);
                    }
                    if std::env::var_os("VERIF_DEBUG").is_some() {
                        eprintln!("poolwake {d:?} {first:?} {point:?} -> {sig}");
                    }
                    rep.outcome(format!("poolwake|{d:?}|{first:?}|{sig}"));
                }
                Err((key, detail)) if key == "harness" => vcore::machinery_error(&format!("poolwake: {detail}")),
                Err((key, detail)) => rep.violation(Violation {
                    key: format!("{d:?}:{key}"),
                    what: detail,
                    replay: json!({"engine":"e_c03","family":"poolwake","driver":format!("{d:?}"),"first":format!("{first:?}"),"point":format!("{point:?}")}),
                }),
            }
        });
    }
}

fn main() {
    let args = vcore::parse_args();
    let rep = Report::new(&args.property, args.tier);
    if args.property == "C02" {
        // C02 rides on one family only: the outcome of a finished thread-pool job is delivered
        rep.rule("thread-pool job (op::Asyncify) finishing at every named step inside Driver::poll of both drivers, then one blocking wait: the outcome must be delivered without sleeping on it");
        poolwake_family(&rep);
        rep.finish();
    }
    let depth = args.tier.pick(3, 4);
    let progs = programs(depth);
    let mut items: Vec<(DriverType, bool, Vec<Call>)> = Vec::new();
    for d in [DriverType::IoUring, DriverType::Poll] {
        for prime in [false, true] {
            for p in &progs {
                items.push((d, prime, p.clone()));
            }
        }
    }
    rep.must_reach("wake-inside-poll-before-wait");
    rep.must_reach("wake-while-blocked");
    vcore::par_for_each_n(&items, vcore::threads().min(16), |_, (d, prime, prog)| {
        let dname = format!("{d:?}");
        // count the interleaving points of this program
        let base = run(*d, prog, &Place::Never, *prime);
        let mut places = vec![Place::Never];
        places.extend((0..=prog.len()).map(Place::Between));
        places.extend((0..base.points).map(Place::Point));
        for (k, c) in prog.iter().enumerate() {
            if matches!(c, Call::B | Call::FX) {
                places.push(Place::DuringBlocked(k));
            }
            if *c == Call::FX {
                places.push(Place::MidFx(k));
            }
        }
        for place in places {
            let o = if place == Place::Never { base.clone() } else { run(*d, prog, &place, *prime) };
            rep.add_execution(prog.len() as u64 + 1);
            rep.add_states(1);
            if let Some((_, n)) = o.wake_at {
                if n == "poll:before-wait" || n == "poll:after-reset" {
                    rep.count("wake-inside-poll-before-wait", 1);
                }
            }
            if matches!(place, Place::DuringBlocked(_)) {
                rep.count("wake-while-blocked", 1);
            }
            match check(prog, &place, &o) {
                Ok(sig) => {
                    rep.outcome(format!("{dname}|{sig}"));
                    if matches!(place, Place::Point(_)) && o.wake_at.is_some() {
                        rep.sample(8, || json!({"driver": dname, "primed": prime, "program": format!("{prog:?}"), "wake": format!("{:?}", o.wake_at), "calls": format!("{:?}", o.calls), "verdict": sig}));
                    }
                }
                Err((key, detail)) => {
                    // confirm once more before reporting (real time is involved)
                    let o2 = run(*d, prog, &place, *prime);
                    if check(prog, &place, &o2).is_ok() {
                        rep.count("unconfirmed-timing-anomalies", 1);
                        continue;
                    }
                    rep.violation(Violation {
                        key: format!("{dname}:{key}:{}", if *prime { "after-first-iteration" } else { "fresh-driver" }),
                        what: format!("driver {dname} (primed={prime}) program {prog:?}: {detail}"),
                        replay: json!({"engine":"e_c03","driver":dname,"primed":prime,"program":format!("{prog:?}"),"place":format!("{place:?}")}),
                    });
                }
            }
        }
    });
    poolwake_family(&rep);
    // completion-produced wake-ups
    rep.must_reach("completion-reaped-while-pushing");
    let oprogs = ops_programs(args.tier.pick(5, 6));
    let mut oitems: Vec<(DriverType, u32, Vec<OStep>)> = Vec::new();
    for d in [DriverType::IoUring, DriverType::Poll] {
        for cap in [2u32, 8] {
            for pr in &oprogs {
                oitems.push((d, cap, pr.clone()));
            }
        }
    }
    vcore::par_for_each_n(&oitems, vcore::threads().min(16), |_, (d, cap, prog)| {
        let r = run_ops(*d, *cap, prog);
        rep.add_execution(prog.len() as u64 + 1);
        rep.add_states(1);
        match r {
            Ok(sig) => {
                if sig.starts_with("true") {
                    rep.count("completion-reaped-while-pushing", 1);
                }
                rep.outcome(format!("ops|{d:?}|{cap}|{sig}"));
            }
            Err((key, detail)) => {
                if run_ops(*d, *cap, prog).is_ok() {
                    rep.count("unconfirmed-timing-anomalies", 1);
                    return;
                }
                rep.violation(Violation {
                    key: format!("{d:?}:{key}:capacity-{cap}"),
                    what: format!("driver {d:?} capacity {cap} program {prog:?} then poll({} ms): {detail}", T_BLOCK.as_millis()),
                    replay: json!({"engine":"e_c03","family":"ops","driver":format!("{d:?}"),"capacity":cap,"program":format!("{prog:?}")}),
                });
            }
        }
    });
    // external loop x task wakers on the real Runtime
    rep.must_reach("extloop-local-wake-after-spawn");
    rep.must_reach("extloop-remote-wake");
    let xprogs = xloop_programs(args.tier.pick(5, 6));
    let mut xitems: Vec<(DriverType, Vec<XStep>)> = Vec::new();
    for d in [DriverType::IoUring, DriverType::Poll] {
        for pr in &xprogs {
            xitems.push((d, pr.clone()));
        }
    }
    vcore::par_for_each_n(&xitems, vcore::threads().min(16), |_, (d, prog)| {
        let r = run_xloop(*d, prog);
        rep.add_execution(prog.len() as u64 + 1);
        rep.add_states(1);
        if prog.windows(2).any(|w| w[0] == XStep::Spawn && matches!(w[1], XStep::WakeLocal(_))) {
            rep.count("extloop-local-wake-after-spawn", 1);
        }
        if prog.iter().any(|s| matches!(s, XStep::WakeRemote(_))) {
            rep.count("extloop-remote-wake", 1);
        }
        match r {
            Ok(sig) => rep.outcome(format!("xloop|{d:?}|{sig}")),
            Err((key, detail)) => {
                if run_xloop(*d, prog).is_ok() {
                    rep.count("unconfirmed-timing-anomalies", 1);
                    return;
                }
                rep.violation(Violation {
                    key: format!("{d:?}:{key}"),
                    what: format!("driver {d:?} external-loop program {prog:?}: {detail}"),
                    replay: json!({"engine":"e_c03","family":"extloop","driver":format!("{d:?}"),"program":format!("{prog:?}")}),
                });
            }
        }
    });
    rep.extra("extloop_programs", json!(xprogs.len()));
    rep.extra("ops_programs", json!(oprogs.len()));
    rep.extra("bounds", json!({"program_depth": depth, "alphabet": ["poll(0)", "poll(T)", "external-loop iteration: flush, wait for the descriptor unless notified, poll(0)"], "blocking_waits_per_program": "1..=2", "T_block_ms": T_BLOCK.as_millis() as u64, "prompt_ms": PROMPT.as_millis() as u64, "drivers": ["IoUring", "Poll"], "fresh_and_primed": true}));
    rep.rule("(runtime level) every program up to depth 5/6 over {spawn a parking task, invoke task i's waker on the runtime thread, invoke it from another thread, one external-loop iteration (wait for the descriptor if the loop parked, poll(0), run, flush)} on the real Runtime, both drivers: an invoked waker un-parks the loop and the task is polled by that iteration; (driver level) every program of driver calls up to program_depth x every position of one wake-up: between calls, at every cfg(compio_verif) interleaving point inside poll/flush, and from a second thread while blocked; executed on the real io_uring and polling drivers; a violation is re-run once before it is reported");
    rep.assume("performing the wake synchronously at an interleaving point is equivalent to another thread performing it there (the wake is one atomic RMW on the flag followed by at most one eventfd/poller write)");
    rep.assume("real time is used only as a watchdog: prompt < 30 ms vs. blocking wait 60 ms");
    if args.tier == Tier::Quick {}
    rep.finish();
}
