//! Programs (which operations exist, how they are awaited, which descriptor they use),
//! configurations and harness steps.
use compio_driver::DriverType;
use vcore::{Value, json};

#[derive(Clone, Copy, PartialEq, Eq, Debug, Hash, PartialOrd, Ord)]
pub enum Kind {
    /// op::Recv on one end of a unix stream socketpair
    Recv,
    /// op::Read on the read end of a pipe
    Read,
    /// op::Accept on a unix listener
    Accept,
    /// op::Asyncify whose closure blocks on a harness gate
    Job,
    /// op::ReadAt on a regular (tmpfs) file; thread pool on the polling driver
    File,
    /// op::Send on a socket whose send buffer the harness filled up
    SendW,
    /// op::RecvMulti (multishot, managed buffer pool) — io_uring only
    Multi,
    /// op::SendZc on a TCP connection whose peer window is closed — io_uring only
    Zc,
    /// op::SendZc on a TCP connection whose write side the harness shut down before the submit:
    /// the send fails (EPIPE) at send time, the kernel still posts the error completion flagged
    /// "more" and then the release notification — io_uring only
    ZcErr,
    /// op::SendZc on a TCP connection whose peer closed with a reset before the submit
    /// (ECONNRESET, then EPIPE) — io_uring only
    ZcRst,
    /// op::SendZc on a unix stream socket whose write side was shut down (unix sockets do not
    /// take zero-copy sends: EOPNOTSUPP, or EPIPE should they ever do) — io_uring only
    ZcUx,
}

#[derive(Clone, Copy, PartialEq, Eq, Debug, Hash, PartialOrd, Ord)]
pub enum Class {
    /// made ready by writing bytes to the peer
    In,
    /// made ready by draining the peer
    Out,
    /// made ready by connecting to the listener
    Conn,
    /// made ready by opening the gate
    Gate,
    /// completes by itself
    Own,
}

impl Kind {
    pub fn class(self) -> Class {
        match self {
            Kind::Recv | Kind::Read | Kind::Multi => Class::In,
            Kind::SendW | Kind::Zc => Class::Out,
            Kind::Accept => Class::Conn,
            Kind::Job => Class::Gate,
            Kind::File | Kind::ZcErr | Kind::ZcRst | Kind::ZcUx => Class::Own,
        }
    }

    pub fn name(self) -> &'static str {
        match self {
            Kind::Recv => "recv",
            Kind::Read => "read",
            Kind::Accept => "accept",
            Kind::Job => "job",
            Kind::File => "file",
            Kind::SendW => "send",
            Kind::Multi => "multi",
            Kind::Zc => "zc",
            Kind::ZcErr => "zcerr",
            Kind::ZcRst => "zcrst",
            Kind::ZcUx => "zcux",
        }
    }

    pub fn parse(s: &str) -> Option<Kind> {
        Some(match s {
            "recv" => Kind::Recv,
            "read" => Kind::Read,
            "accept" => Kind::Accept,
            "job" => Kind::Job,
            "file" => Kind::File,
            "send" => Kind::SendW,
            "multi" => Kind::Multi,
            "zc" => Kind::Zc,
            "zcerr" => Kind::ZcErr,
            "zcrst" => Kind::ZcRst,
            "zcux" => Kind::ZcUx,
            _ => return None,
        })
    }

    pub fn uring_only(self) -> bool {
        matches!(self, Kind::Multi | Kind::Zc) || self.zc_fail()
    }

    /// a zero-copy send that fails at send time (the socket was broken before the submit)
    pub fn zc_fail(self) -> bool {
        matches!(self, Kind::ZcErr | Kind::ZcRst | Kind::ZcUx)
    }
}

#[derive(Clone, Copy, PartialEq, Eq, Debug, Hash, PartialOrd, Ord)]
pub enum Mode {
    /// the harness holds the future and polls it by hand
    Direct,
    /// the future is awaited inside a spawned task; the harness holds the JoinHandle
    Task,
    /// the future is wrapped in `with_cancel(token)`; the harness holds future and token
    Token,
    /// handed over: the harness polls the future once by hand with a waker of its own (the
    /// Submit step: a probe), and the first Poll step moves the still pending future into a
    /// spawned task that awaits it; from then on the harness holds the JoinHandle only
    Handover,
}

impl Mode {
    pub fn name(self) -> &'static str {
        match self {
            Mode::Direct => "d",
            Mode::Task => "t",
            Mode::Token => "c",
            Mode::Handover => "h",
        }
    }

    pub fn parse(s: &str) -> Option<Mode> {
        Some(match s {
            "d" => Mode::Direct,
            "t" => Mode::Task,
            "c" => Mode::Token,
            "h" => Mode::Handover,
            _ => return None,
        })
    }
}

#[derive(Clone, Copy, PartialEq, Eq, Debug, Hash)]
pub struct OpSpec {
    pub kind: Kind,
    pub mode: Mode,
    /// resource index; operations with the same index use the same descriptor
    pub res: u8,
    /// "@0x": the operation uses a descriptor of its own that is a dup() of the resource's
    /// descriptor (same socket / pipe end, same byte stream, another descriptor number)
    pub dup: bool,
}

#[derive(Clone, Debug, PartialEq, Eq)]
pub struct Program {
    pub ops: Vec<OpSpec>,
    /// how often each port may be made ready
    pub max_ready: u8,
}

impl Program {
    /// "recv.d@0+recv.t@0+job.c@1"
    pub fn name(&self) -> String {
        self.ops
            .iter()
            .map(|o| format!("{}.{}@{}{}", o.kind.name(), o.mode.name(), o.res, if o.dup { "x" } else { "" }))
            .collect::<Vec<_>>()
            .join("+")
    }

    pub fn parse(s: &str, max_ready: u8) -> Option<Program> {
        let mut ops = Vec::new();
        for part in s.split('+') {
            let (km, res) = part.split_once('@')?;
            let (k, m) = km.split_once('.')?;
            let (res, dup) = match res.strip_suffix('x') {
                Some(r) => (r, true),
                None => (res, false),
            };
            let kind = Kind::parse(k)?;
            if dup && !matches!(kind, Kind::Recv | Kind::Read) {
                return None;
            }
            ops.push(OpSpec {
                kind,
                mode: Mode::parse(m)?,
                res: res.parse().ok()?,
                dup,
            });
        }
        Some(Program { ops, max_ready })
    }

    /// distinct (resource, class) pairs that have a MakeReady step, in first-use order
    pub fn ports(&self) -> Vec<(u8, Class)> {
        let mut v = Vec::new();
        for o in &self.ops {
            let p = (o.res, o.kind.class());
            if p.1 != Class::Own && !v.contains(&p) {
                v.push(p);
            }
        }
        v
    }

    pub fn port_of(&self, op: usize) -> Option<usize> {
        let o = self.ops[op];
        self.ports()
            .iter()
            .position(|p| *p == (o.res, o.kind.class()))
    }

    pub fn uring_only(&self) -> bool {
        self.ops.iter().any(|o| o.kind.uring_only())
    }

    pub fn nres(&self) -> usize {
        self.ops.iter().map(|o| o.res as usize + 1).max().unwrap_or(0)
    }

    /// how often port `p` may be made ready
    pub fn port_limit(&self, p: usize) -> u8 {
        let (res, class) = self.ports()[p];
        let users = self
            .ops
            .iter()
            .filter(|o| o.res == res && o.kind.class() == class)
            .count() as u8;
        match class {
            Class::In => self.max_ready.max(users.min(2)),
            Class::Conn => users.min(2),
            Class::Gate | Class::Out => 1,
            Class::Own => 0,
        }
    }
}

#[derive(Clone, Copy, PartialEq, Eq, Debug)]
pub struct Config {
    pub driver: DriverType,
    pub cap: u32,
}

impl Config {
    pub fn dname(&self) -> &'static str {
        match self.driver {
            DriverType::IoUring => "iour",
            DriverType::Poll => "poll",
            _ => "other",
        }
    }

    pub fn name(&self) -> String {
        format!("{}/sq{}", self.dname(), self.cap)
    }

    pub fn is_uring(&self) -> bool {
        self.driver == DriverType::IoUring
    }
}

#[derive(Clone, Copy, PartialEq, Eq, Debug, Hash)]
pub enum Step {
    Submit(u8),
    /// make port p ready once more
    MakeReady(u8),
    Harvest,
    Poll(u8),
    DropFut(u8),
    CancelTask(u8),
    TokenCancel(u8),
    DropRuntime,
    /// C02: stop here and run the completion epilogue
    Stop,
}

impl Step {
    pub fn name(&self) -> String {
        match self {
            Step::Submit(i) => format!("Submit({i})"),
            Step::MakeReady(p) => format!("MakeReady(p{p})"),
            Step::Harvest => "Harvest".into(),
            Step::Poll(i) => format!("Poll({i})"),
            Step::DropFut(i) => format!("DropFuture({i})"),
            Step::CancelTask(i) => format!("CancelTask({i})"),
            Step::TokenCancel(i) => format!("TokenCancel({i})"),
            Step::DropRuntime => "DropRuntime".into(),
            Step::Stop => "Stop".into(),
        }
    }

    pub fn parse(s: &str) -> Option<Step> {
        let (head, arg) = match s.split_once('(') {
            Some((h, rest)) => (
                h,
                rest.trim_end_matches(')')
                    .trim_start_matches('p')
                    .parse::<u8>()
                    .ok(),
            ),
            None => (s, None),
        };
        Some(match (head, arg) {
            ("Submit", Some(i)) => Step::Submit(i),
            ("MakeReady", Some(i)) => Step::MakeReady(i),
            ("Harvest", _) => Step::Harvest,
            ("Poll", Some(i)) => Step::Poll(i),
            ("DropFuture", Some(i)) => Step::DropFut(i),
            ("CancelTask", Some(i)) => Step::CancelTask(i),
            ("TokenCancel", Some(i)) => Step::TokenCancel(i),
            ("DropRuntime", _) => Step::DropRuntime,
            ("Stop", _) => Step::Stop,
            _ => return None,
        })
    }

    pub fn terminal(&self) -> bool {
        matches!(self, Step::DropRuntime | Step::Stop)
    }
}

#[derive(Clone, Copy, PartialEq, Eq, Debug)]
pub enum Prop {
    C01,
    C02,
}

impl Prop {
    pub fn name(self) -> &'static str {
        match self {
            Prop::C01 => "C01",
            Prop::C02 => "C02",
        }
    }
}

pub fn replay_json(prop: Prop, cfg: &Config, prog: &Program, steps: &[Step]) -> Value {
    json!({
        "engine": "e_c01",
        "property": prop.name(),
        "driver": cfg.dname(),
        "sq_capacity": cfg.cap,
        "program": prog.name(),
        "max_ready": prog.max_ready,
        "steps": steps.iter().map(|s| s.name()).collect::<Vec<_>>(),
    })
}
