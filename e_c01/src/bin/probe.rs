use std::time::Instant;
use compio_driver::{DriverType, ProactorBuilder};
fn main() {
    let n = 1000;
    let t0 = Instant::now();
    let mut tb = std::time::Duration::ZERO;
    for _ in 0..n {
        let t1 = Instant::now();
        let mut pb = ProactorBuilder::new(); pb.driver_type(DriverType::IoUring); pb.capacity(8);
        let rt = compio_runtime::RuntimeBuilder::new().with_proactor(pb).build().unwrap();
        tb += t1.elapsed();
        drop(rt);
    }
    let el = t0.elapsed();
    println!("n={n}: {:?} per create+drop, build part {:?}", el / n as u32, tb / n as u32);
}
