use std::{future::Future, os::fd::{FromRawFd, OwnedFd}, pin::Pin, sync::Arc, task::{Context, Wake, Waker}, time::Duration};
use compio_buf::BufResult;
use compio_driver::{DriverType, ProactorBuilder, op::Recv, verif};
use compio_runtime::{CancelToken, FutureExt};
struct W; impl Wake for W { fn wake(self: Arc<Self>) {} }
fn main() {
    for dt in [DriverType::Poll, DriverType::IoUring] {
        let mut pb = ProactorBuilder::new(); pb.driver_type(dt); pb.capacity(2);
        let rt = compio_runtime::RuntimeBuilder::new().with_proactor(pb).build().unwrap();
        let mut fds = [0i32; 2];
        unsafe { libc::socketpair(libc::AF_UNIX, libc::SOCK_STREAM | libc::SOCK_NONBLOCK, 0, fds.as_mut_ptr()) };
        let a = unsafe { OwnedFd::from_raw_fd(fds[0]) }; let _b = unsafe { OwnedFd::from_raw_fd(fds[1]) };
        let token = rt.enter(CancelToken::new);
        let t2 = token.clone();
        let mut fut: Pin<Box<dyn Future<Output = BufResult<usize, Recv<Vec<u8>, OwnedFd>>>>> =
            rt.enter(|| { let s = rt.submit(Recv::new(a, Vec::with_capacity(4), compio_driver::op::RecvFlags::empty())); let f = async move { s.await }; Box::pin(async move { f.with_cancel(t2).await }) });
        let waker = Waker::from(Arc::new(W)); let mut cx = Context::from_waker(&waker);
        let r = rt.enter(|| fut.as_mut().poll(&mut cx));
        println!("{dt:?} submit pending={} log={:?}", r.is_pending(), verif::take());
        rt.enter(|| token.clone().cancel());
        println!(" cancelled={} log={:?}", token.is_cancelled(), verif::take());
        for _ in 0..3 { rt.enter(|| { rt.poll_with(Some(Duration::ZERO)); rt.run(); }); }
        println!(" harvest log={:?}", verif::take());
        let r = rt.enter(|| fut.as_mut().poll(&mut cx));
        println!(" poll pending={} log={:?}", r.is_pending(), verif::take());
        drop(rt); println!(" drop rt log={:?}", verif::take());
        drop(fut); println!(" drop fut log={:?}", verif::take());
        drop(token); println!(" drop token log={:?}", verif::take());
    }
}
