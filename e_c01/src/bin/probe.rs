use std::{io::{Read, Write}, net::{TcpListener, TcpStream}, os::fd::{AsRawFd, OwnedFd}, pin::Pin, sync::Arc, task::{Context, Wake, Waker}, time::{Duration, Instant}};
use compio_driver::{DriverType, ProactorBuilder, op::{SendZc, SendFlags}, verif};
use futures_util::Stream;
struct W; impl Wake for W { fn wake(self: Arc<Self>) {} }
fn main() {
    let l = TcpListener::bind("127.0.0.1:0").unwrap();
    // small receive buffer on accepted sockets
    let v: libc::c_int = 1;
    unsafe { libc::setsockopt(l.as_raw_fd(), libc::SOL_SOCKET, libc::SO_RCVBUF, &v as *const _ as _, 4); }
    let a = TcpStream::connect(l.local_addr().unwrap()).unwrap();
    let (mut b, _) = l.accept().unwrap();
    a.set_nodelay(true).unwrap();
    a.set_nonblocking(true).unwrap();
    b.set_nonblocking(true).unwrap();
    let mut rb: libc::c_int = 0; let mut len = 4u32;
    unsafe { libc::getsockopt(b.as_raw_fd(), libc::SOL_SOCKET, libc::SO_RCVBUF, &mut rb as *mut _ as _, &mut len); }
    println!("peer rcvbuf={rb}");
    // prefill 8 KiB
    let zeros = vec![0u8; 8192];
    let n = (&a).write(&zeros);
    println!("prefill wrote {n:?}");
    std::thread::sleep(Duration::from_millis(5));
    let mut pb = ProactorBuilder::new(); pb.driver_type(DriverType::IoUring); pb.capacity(8);
    let rt = compio_runtime::RuntimeBuilder::new().with_proactor(pb).build().unwrap();
    let fd: OwnedFd = a.into();
    let mut st = rt.enter(|| Box::pin(rt.submit_multi(SendZc::new(fd, vec![0xC1u8, 0xC2, 0xC3, 0xC4, 0xC5], SendFlags::empty()))));
    let waker = Waker::from(Arc::new(W)); let mut cx = Context::from_waker(&waker);
    let r = rt.enter(|| Pin::new(&mut st).poll_next(&mut cx));
    println!("first poll: pending={} log={:?}", r.is_pending(), verif::take());
    for round in 0..3 {
        rt.enter(|| { rt.poll_with(Some(Duration::ZERO)); rt.run(); });
        println!("harvest {round}: log={:?}", verif::take());
        let r = rt.enter(|| Pin::new(&mut st).poll_next(&mut cx));
        println!(" poll: {:?}", r.map(|o| o.map(|b| b.0)));
    }
    std::thread::sleep(Duration::from_millis(50));
    rt.enter(|| { rt.poll_with(Some(Duration::ZERO)); rt.run(); });
    println!("after 50ms: log={:?}", verif::take());
    // drain peer
    let t0 = Instant::now();
    let mut got: Vec<u8> = Vec::new(); let mut buf = [0u8; 4096]; let mut total = 0;
    while t0.elapsed() < Duration::from_millis(500) && got.len() < 5 {
        match b.read(&mut buf) { Ok(0) => break, Ok(n) => { total += n; got.extend(buf[..n].iter().copied().filter(|&x| x != 0)); }, Err(_) => std::thread::sleep(Duration::from_micros(50)) }
    }
    println!("drained {total} bytes in {:?}, payload {:02x?}", t0.elapsed(), got);
    let t1 = Instant::now();
    loop {
        rt.enter(|| { rt.poll_with(Some(Duration::ZERO)); rt.run(); });
        let lg = verif::take();
        if !lg.is_empty() { println!("after drain (+{:?}): log={:?}", t1.elapsed(), lg); break; }
        if t1.elapsed() > Duration::from_secs(2) { println!("no notification within 2s"); break; }
    }
    let r = rt.enter(|| Pin::new(&mut st).poll_next(&mut cx));
    println!(" poll: {:?}", r.map(|o| o.map(|b| b.0)));
    let r = rt.enter(|| Pin::new(&mut st).poll_next(&mut cx));
    println!(" poll: {:?}", r.map(|o| o.map(|b| b.0)));
    let st = Pin::into_inner(st);
    match st.try_take() { Ok(op) => { use compio_buf::IntoInner; println!("buffer back: {:02x?}", op.into_inner()); } Err(_) => println!("try_take: still running") }
    drop(rt);
    println!("end log={:?}", verif::take());
}
