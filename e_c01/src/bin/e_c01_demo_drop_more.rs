// Demonstration: io_uring Driver::drop drains "more" completions as if they were final.
use std::{os::fd::{AsRawFd, FromRawFd, OwnedFd}, pin::Pin, sync::Arc, task::{Context, Wake, Waker}, time::Duration};
use compio_driver::{DriverType, ProactorBuilder, op::{RecvFlags, RecvMulti}};
use futures_util::Stream;
struct W; impl Wake for W { fn wake(self: Arc<Self>) {} }
fn main() {
    let mut fds = [0i32; 2];
    unsafe { libc::socketpair(libc::AF_UNIX, libc::SOCK_STREAM | libc::SOCK_NONBLOCK, 0, fds.as_mut_ptr()) };
    let a = unsafe { OwnedFd::from_raw_fd(fds[0]) }; let b = unsafe { OwnedFd::from_raw_fd(fds[1]) };
    let mut pb = ProactorBuilder::new(); pb.driver_type(DriverType::IoUring); pb.capacity(8);
    let rt = compio_runtime::RuntimeBuilder::new().with_proactor(pb).build().unwrap();
    let pool = rt.buffer_pool().unwrap();
    let mut st = rt.enter(|| Box::pin(rt.submit_multi(RecvMulti::new(a, &pool, 16, RecvFlags::empty()).unwrap())));
    drop(pool);
    let waker = Waker::from(Arc::new(W)); let mut cx = Context::from_waker(&waker);
    let r = rt.enter(|| Pin::new(&mut st).poll_next(&mut cx));
    assert!(r.is_pending());
    rt.enter(|| { rt.poll_with(Some(Duration::ZERO)); rt.run(); });   // SQE reaches the kernel
    for i in 0..2u8 { let d = [i; 3]; unsafe { libc::write(b.as_raw_fd(), d.as_ptr() as _, 3) }; }   // two "more" CQEs
    eprintln!("dropping runtime with two unharvested multishot completions");
    drop(rt);
    drop(st);
    eprintln!("done");
}
