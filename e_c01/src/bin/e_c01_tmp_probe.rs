use std::{future::Future, os::fd::{FromRawFd, OwnedFd}, pin::Pin, sync::Arc, task::{Context, Wake, Waker}, time::Duration};
use compio_buf::BufResult;
use compio_driver::{DriverType, ProactorBuilder, op::Recv, verif};
struct W; impl Wake for W { fn wake(self: Arc<Self>) {} }
fn main() {
    let mut pb = ProactorBuilder::new(); pb.driver_type(DriverType::IoUring); pb.capacity(8);
    let rt = compio_runtime::RuntimeBuilder::new().with_proactor(pb).build().unwrap();
    let mut fds = [0i32; 2];
    unsafe { libc::socketpair(libc::AF_UNIX, libc::SOCK_STREAM | libc::SOCK_NONBLOCK, 0, fds.as_mut_ptr()) };
    let a = unsafe { OwnedFd::from_raw_fd(fds[0]) }; let _b = unsafe { OwnedFd::from_raw_fd(fds[1]) };
    let mut fut: Pin<Box<dyn Future<Output = BufResult<usize, Recv<Vec<u8>, OwnedFd>>>>> =
        rt.enter(|| Box::pin(rt.submit(Recv::new(a, Vec::with_capacity(4), compio_driver::op::RecvFlags::empty()))));
    let waker = Waker::from(Arc::new(W)); let mut cx = Context::from_waker(&waker);
    let r = rt.enter(|| fut.as_mut().poll(&mut cx));
    println!("submit pending={} log={:?}", r.is_pending(), verif::take());
    drop(fut);
    println!("drop fut log={:?}", verif::take());
    for i in 0..3 { rt.enter(|| { rt.poll_with(Some(Duration::ZERO)); rt.run(); }); println!("harvest {i} log={:?}", verif::take()); }
    drop(rt); println!("drop rt log={:?}", verif::take());
}
