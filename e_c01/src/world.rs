//! One execution: a fresh runtime, the resources and operations of a program, the harness steps,
//! the merged event trace and the oracles.
use std::{
    collections::BTreeMap,
    future::Future,
    os::fd::{AsRawFd, FromRawFd, OwnedFd, RawFd},
    path::Path,
    pin::Pin,
    sync::{
        Arc, Condvar, Mutex,
        atomic::{AtomicU64, AtomicUsize, Ordering},
    },
    task::{Context, Poll, Wake, Waker},
    time::{Duration, Instant},
};

use compio_buf::{BufResult, IntoInner};
use compio_driver::{
    AsyncifyPool, ProactorBuilder,
    op::{Accept, Asyncify, Read, ReadAt, Recv, RecvFlags, RecvMulti, Send, SendFlags, SendZc},
    verif::{self, Kind as HK},
};
use compio_runtime::{CancelToken, FutureExt as _, Runtime, RuntimeBuilder, StreamExt as _, SubmitMulti};
use futures_util::{Stream, StreamExt, stream::FusedStream};

use crate::{
    model::*,
    track::{FILL, HEvent, HKind, PoolAlloc, Sink, TrackedBuf, TrackedFd, set_pool_sink},
};

pub const CAP: usize = 4; // capacity of receive buffers
pub const CHUNK: usize = 3; // bytes written per MakeReady of an In port
pub const FILE_LEN: usize = 64;
/// descriptor-handle ids of dup()ed descriptors: DUP_FD_BASE + operation index
pub const DUP_FD_BASE: u32 = 100;

pub static STUCK_SEEN: AtomicUsize = AtomicUsize::new(0);
static UNIQ: AtomicU64 = AtomicU64::new(1);

pub fn file_content() -> Vec<u8> {
    (0..FILE_LEN).map(|k| 0x80 | k as u8).collect()
}

fn in_byte(res: u8, k: usize) -> u8 {
    ((res + 1) << 5) | (k as u8 & 31)
}

fn send_payload(op: usize) -> Vec<u8> {
    (0..5).map(|k| 0xC0 | ((op as u8) << 3) | k as u8).collect()
}

fn job_pattern(op: usize) -> [u8; CAP] {
    [0x11 + op as u8, 0x12 + op as u8, 0x13 + op as u8, 0x14 + op as u8]
}

pub struct CountWaker(pub AtomicUsize);

impl Wake for CountWaker {
    fn wake(self: Arc<Self>) {
        self.0.fetch_add(1, Ordering::SeqCst);
    }

    fn wake_by_ref(self: &Arc<Self>) {
        self.0.fetch_add(1, Ordering::SeqCst);
    }
}

pub struct Gate {
    m: Mutex<(bool, u32)>,
    cv: Condvar,
}

impl Gate {
    fn new() -> Arc<Self> {
        Arc::new(Self {
            m: Mutex::new((false, 0)),
            cv: Condvar::new(),
        })
    }

    fn pass(&self) {
        let mut g = self.m.lock().unwrap();
        g.1 += 1;
        self.cv.notify_all();
        while !g.0 {
            g = self.cv.wait(g).unwrap();
        }
    }

    fn open(&self) {
        let mut g = self.m.lock().unwrap();
        g.0 = true;
        self.cv.notify_all();
    }

    fn is_open(&self) -> bool {
        self.m.lock().unwrap().0
    }
}

pub enum Outcome {
    Bytes(usize, TrackedBuf),
    Accepted(usize, socket2::Socket),
    Failed(i32),
    /// one item of a multishot receive (bytes copied out of the pool buffer)
    Item(Vec<u8>),
    /// zero-copy send: the send result (first completion)
    ZcSent(usize),
    /// zero-copy send: the notification arrived and the buffer came back
    ZcDone(Option<TrackedBuf>),
    /// zero-copy send on a broken socket, driven to its end: every completion the stream
    /// yielded as (result or errno, "is the kernel's release notification"), and the buffer
    ZcFail {
        results: Vec<(Result<usize, i32>, bool)>,
        buf: Option<TrackedBuf>,
    },
}

impl Outcome {
    fn terminal(&self) -> bool {
        matches!(self, Outcome::Failed(_) | Outcome::ZcDone(_) | Outcome::ZcFail { .. })
    }
}

type FutBox = Pin<Box<dyn Future<Output = Result<Outcome, String>>>>;
type StreamBox = Pin<Box<dyn Stream<Item = Outcome>>>;

enum Holder {
    Fut(FutBox),
    Stream(StreamBox),
}

/// Drives a zero-copy send the way compio-net does: first item = send result, the stream's end
/// = the kernel's release notification, only then the operation (and its buffer) comes back.
struct ZcDrive {
    st: Option<SubmitMulti<SendZc<TrackedBuf, TrackedFd>>>,
    sent: bool,
}

impl Stream for ZcDrive {
    type Item = Outcome;

    fn poll_next(mut self: Pin<&mut Self>, cx: &mut Context<'_>) -> Poll<Option<Outcome>> {
        let Some(st) = self.st.as_mut() else {
            return Poll::Ready(None);
        };
        match std::task::ready!(StreamExt::poll_next_unpin(st, cx)) {
            Some(BufResult(res, _extra)) => {
                if st.is_terminated() {
                    let buf = self.st.take().and_then(|s| s.try_take().ok()).map(|op| op.into_inner());
                    match res {
                        Err(e) => Poll::Ready(Some(Outcome::Failed(errno(&e)))),
                        Ok(_) if !self.sent => Poll::Ready(Some(Outcome::Failed(-2))),
                        Ok(_) => Poll::Ready(Some(Outcome::ZcDone(buf))),
                    }
                } else {
                    self.sent = true;
                    match res {
                        Ok(n) => Poll::Ready(Some(Outcome::ZcSent(n))),
                        Err(e) => Poll::Ready(Some(Outcome::ZcSent(usize::MAX - errno(&e) as usize))),
                    }
                }
            }
            None => {
                self.st = None;
                Poll::Ready(None)
            }
        }
    }
}

/// Awaits a zero-copy send the way compio-net's `submit_zerocopy` + `Zerocopy` future do: every
/// completion of the stream up to its end, only then the operation (and its buffer) is taken back.
async fn drive_zc_fail(mut st: SubmitMulti<SendZc<TrackedBuf, TrackedFd>>) -> Outcome {
    let mut results = Vec::new();
    while let Some(BufResult(res, extra)) = st.next().await {
        results.push((res.map_err(|e| errno(&e)), extra.is_notification().unwrap_or(false)));
        if st.is_terminated() || results.len() >= 4 {
            break;
        }
    }
    let buf = st.try_take().ok().map(|op| op.into_inner());
    Outcome::ZcFail { results, buf }
}

fn errno(e: &std::io::Error) -> i32 {
    e.raw_os_error().unwrap_or(-1)
}

// ------------------------------------------------------------------------------------------
// raw descriptor helpers (the harness side of every resource)
// ------------------------------------------------------------------------------------------

fn cvt(r: i32, what: &str) -> i32 {
    if r < 0 {
        panic!("harness: {what} failed: {}", std::io::Error::last_os_error());
    }
    r
}

fn socketpair() -> (OwnedFd, OwnedFd) {
    let mut fds = [0i32; 2];
    cvt(
        unsafe {
            libc::socketpair(
                libc::AF_UNIX,
                libc::SOCK_STREAM | libc::SOCK_NONBLOCK | libc::SOCK_CLOEXEC,
                0,
                fds.as_mut_ptr(),
            )
        },
        "socketpair",
    );
    unsafe { (OwnedFd::from_raw_fd(fds[0]), OwnedFd::from_raw_fd(fds[1])) }
}

fn pipe() -> (OwnedFd, OwnedFd) {
    let mut fds = [0i32; 2];
    cvt(
        unsafe { libc::pipe2(fds.as_mut_ptr(), libc::O_NONBLOCK | libc::O_CLOEXEC) },
        "pipe2",
    );
    unsafe { (OwnedFd::from_raw_fd(fds[0]), OwnedFd::from_raw_fd(fds[1])) }
}

fn dup(fd: RawFd) -> OwnedFd {
    let r = cvt(unsafe { libc::fcntl(fd, libc::F_DUPFD_CLOEXEC, 3) }, "dup");
    unsafe { OwnedFd::from_raw_fd(r) }
}

fn write_nb(fd: RawFd, data: &[u8]) -> isize {
    unsafe { libc::write(fd, data.as_ptr() as _, data.len()) }
}

fn read_nb(fd: RawFd, buf: &mut [u8]) -> isize {
    unsafe { libc::read(fd, buf.as_mut_ptr() as _, buf.len()) }
}

fn readable_bytes(fd: RawFd) -> usize {
    let mut n: libc::c_int = 0;
    let r = unsafe { libc::ioctl(fd, libc::FIONREAD, &mut n) };
    if r < 0 { 0 } else { n as usize }
}

fn unix_addr(name: &str) -> (libc::sockaddr_un, libc::socklen_t) {
    let mut a: libc::sockaddr_un = unsafe { std::mem::zeroed() };
    a.sun_family = libc::AF_UNIX as _;
    // abstract namespace: sun_path[0] == 0
    for (i, b) in name.bytes().enumerate() {
        a.sun_path[i + 1] = b as _;
    }
    let len = std::mem::size_of::<libc::sa_family_t>() + 1 + name.len();
    (a, len as _)
}

fn unix_listener(name: &str) -> OwnedFd {
    let fd = cvt(
        unsafe {
            libc::socket(
                libc::AF_UNIX,
                libc::SOCK_STREAM | libc::SOCK_NONBLOCK | libc::SOCK_CLOEXEC,
                0,
            )
        },
        "socket",
    );
    let fd = unsafe { OwnedFd::from_raw_fd(fd) };
    let (a, len) = unix_addr(name);
    cvt(
        unsafe { libc::bind(fd.as_raw_fd(), &a as *const _ as *const libc::sockaddr, len) },
        "bind",
    );
    cvt(unsafe { libc::listen(fd.as_raw_fd(), 8) }, "listen");
    fd
}

fn unix_connect(name: &str) -> OwnedFd {
    let fd = cvt(
        unsafe {
            libc::socket(
                libc::AF_UNIX,
                libc::SOCK_STREAM | libc::SOCK_NONBLOCK | libc::SOCK_CLOEXEC,
                0,
            )
        },
        "socket",
    );
    let fd = unsafe { OwnedFd::from_raw_fd(fd) };
    let (a, len) = unix_addr(name);
    cvt(
        unsafe { libc::connect(fd.as_raw_fd(), &a as *const _ as *const libc::sockaddr, len) },
        "connect",
    );
    fd
}

pub const ZC_PREFILL: usize = 8192;

/// the peer acknowledges at once (the harness owns when the sender's data counts as delivered)
fn quickack(fd: RawFd) {
    let one: libc::c_int = 1;
    unsafe {
        libc::setsockopt(fd, libc::IPPROTO_TCP, libc::TCP_QUICKACK, &one as *const _ as _, 4);
    }
}

/// connected TCP pair on loopback whose accepting side has a minimal receive buffer:
/// (operation side, peer)
fn tcp_pair() -> (OwnedFd, OwnedFd) {
    use std::net::{TcpListener, TcpStream};
    let l = TcpListener::bind("127.0.0.1:0").expect("harness: tcp bind");
    let v: libc::c_int = 1;
    unsafe {
        libc::setsockopt(l.as_raw_fd(), libc::SOL_SOCKET, libc::SO_RCVBUF, &v as *const _ as _, 4);
    }
    let a = TcpStream::connect(l.local_addr().unwrap()).expect("harness: tcp connect");
    let (b, _) = l.accept().expect("harness: tcp accept");
    a.set_nodelay(true).unwrap();
    a.set_nonblocking(true).unwrap();
    b.set_nonblocking(true).unwrap();
    quickack(b.as_raw_fd());
    // close with a reset: tens of thousands of executions must not pile up TIME_WAIT sockets
    let lg = libc::linger { l_onoff: 1, l_linger: 0 };
    for fd in [a.as_raw_fd(), b.as_raw_fd()] {
        unsafe {
            libc::setsockopt(fd, libc::SOL_SOCKET, libc::SO_LINGER, &lg as *const _ as _, std::mem::size_of::<libc::linger>() as _);
        }
    }
    (OwnedFd::from(a), OwnedFd::from(b))
}

/// waits (bounded) until the reset sent by the closed peer has arrived at `fd`
fn wait_reset(fd: RawFd) {
    let deadline = Instant::now() + Duration::from_millis(2000);
    loop {
        let mut p = libc::pollfd { fd, events: libc::POLLIN, revents: 0 };
        let r = unsafe { libc::poll(&mut p, 1, 0) };
        if r > 0 && p.revents & (libc::POLLERR | libc::POLLHUP) != 0 {
            return;
        }
        if Instant::now() > deadline {
            panic!("harness: the peer's reset never arrived");
        }
        std::thread::sleep(Duration::from_micros(50));
    }
}

/// errno values a zero-copy send on the broken socket of `kind` may fail with
fn zc_fail_errnos(kind: Kind) -> &'static [i32] {
    match kind {
        Kind::ZcErr => &[libc::EPIPE],
        // the first send after the reset reports it, later ones see the closed write side
        Kind::ZcRst => &[libc::ECONNRESET, libc::EPIPE],
        Kind::ZcUx => &[libc::EOPNOTSUPP, libc::EPIPE],
        _ => &[],
    }
}

// ------------------------------------------------------------------------------------------
// resources
// ------------------------------------------------------------------------------------------

enum ResKind {
    /// socketpair or pipe: `peer` is the harness end, `obs` a dup of the operation end
    Stream {
        peer: OwnedFd,
        obs: OwnedFd,
        /// everything written to the peer end so far (In direction)
        written: Vec<u8>,
        drained: bool,
        /// non-prefill bytes read from the peer end
        peer_got: Vec<u8>,
        /// TCP pair with `ZC_PREFILL` zero bytes queued towards a peer whose window is closed
        tcp_prefill_left: usize,
    },
    Listener {
        name: String,
        /// dup of the listening socket: keeps it alive for the harness' connects
        _obs: OwnedFd,
        clients: Vec<OwnedFd>,
        accepted: Vec<u8>,
    },
    Gate(Arc<Gate>),
    File,
    /// a connected socket the harness broke before any submit: write side shut down (`peer` is
    /// the open other end) or peer closed with a reset (`peer` is None)
    Broken {
        peer: Option<OwnedFd>,
    },
}

struct Res {
    kind: ResKind,
    /// the tracked handle the operations clone; dropped once the last user was created
    fd: Option<TrackedFd>,
    fd_id: u32,
    users_left: usize,
}

// ------------------------------------------------------------------------------------------
// per-operation and per-hook-id state
// ------------------------------------------------------------------------------------------

struct OpState {
    spec: OpSpec,
    submitted: bool,
    holder: Option<Holder>,
    done: bool,
    /// a cancellation of any form was requested at this step index
    cancel_step: Option<u32>,
    ids: Vec<u64>,
    buf_id: u32,
    /// id of the descriptor handle the operation uses (the resource's, or its own dup)
    fd_id: u32,
    /// the waker of the most recent hand poll (every hand poll uses a fresh one)
    waker: Arc<CountWaker>,
    /// the most recent hand poll returned Pending (so `waker` is the one registered)
    pending_registered: bool,
    /// hand polls that returned Pending so far (= distinct wakers the future was polled with)
    pending_polls: u32,
    /// mode Handover: the future was moved into a spawned task (stamp of that moment)
    handed: Option<u64>,
    token: Option<CancelToken>,
    token_cancelled: bool,
    dirty: bool,
    /// (stream offset, length) of the bytes this op reported
    piece: Option<(usize, usize)>,
    delivered: bool,
    harvest_after_cancel: bool,
    /// stream operations: items yielded so far / stream bytes consumed so far
    items: usize,
    consumed: usize,
    result_n: Option<usize>,
    /// the operation's storage was released while the harness still held its future: the future
    /// (and the token) were leaked instead of being touched again
    poisoned: bool,
}

#[derive(Default, Clone, Debug)]
pub struct IdState {
    pub op: usize,
    pub submit: Option<u64>,
    pub pool_submit: Option<u64>,
    pub enter: Option<u64>,
    pub leave: Option<u64>,
    pub finals: Vec<u64>,
    pub multis: Vec<u64>,
    pub frees: Vec<u64>,
}

#[derive(Clone, Debug)]
pub enum Ev {
    Hook(HK, u64),
    Har(HKind),
}

#[derive(Clone, Debug)]
pub struct TEv {
    pub seq: u64,
    pub step: u32,
    pub ev: Ev,
}

#[derive(Clone, Debug)]
pub struct Fail {
    pub oracle: &'static str,
    pub class: String,
    pub msg: String,
}

pub struct Settings {
    pub harvest_deadline: Duration,
    pub pool_wait: Duration,
}

impl Default for Settings {
    fn default() -> Self {
        Self {
            harvest_deadline: Duration::from_millis(1000),
            pool_wait: Duration::from_millis(8000),
        }
    }
}

pub struct World<'a> {
    pub prop: Prop,
    pub cfg: Config,
    pub prog: &'a Program,
    ports: Vec<(u8, Class)>,
    sink: Arc<Sink>,
    rt: Option<Runtime>,
    ops: Vec<OpState>,
    ress: Vec<Res>,
    /// operation index -> its own dup()ed descriptor, until the operation is created
    dup_fds: BTreeMap<usize, TrackedFd>,
    port_ready: Vec<u8>,
    pub ids: BTreeMap<u64, IdState>,
    pub trace: Vec<TEv>,
    pub obs: Vec<String>,
    pub fails: Vec<Fail>,
    pub reached: Vec<&'static str>,
    pub steps: Vec<Step>,
    step_idx: u32,
    cur_submit: Option<usize>,
    last: Option<Step>,
    ring_closed: Option<u64>,
    teardown_seq: Option<u64>,
    teardown_step: u32,
    pub stuck: bool,
    settings: Settings,
    file_path: &'a Path,
    made_ready_since_harvest: u32,
    result_class: Vec<String>,
    /// per resource: (stream offset, stamp taken just before the harness wrote that chunk)
    write_stamps: Vec<Vec<(usize, u64)>>,

    finals_this_step: u32,
    torn_down: bool,
}

pub struct Env<'a> {
    pub pool: &'a AsyncifyPool,
    pub file_path: &'a Path,
}

impl<'a> World<'a> {
    pub fn new(prop: Prop, cfg: Config, prog: &'a Program, env: &Env<'a>) -> Self {
        let sink = Sink::new();
        set_pool_sink(Some(sink.clone()));
        // stale events of this thread (none expected)
        let _ = verif::take();
        let mut pb = ProactorBuilder::new();
        pb.driver_type(cfg.driver);
        pb.capacity(cfg.cap);
        pb.reuse_thread_pool(env.pool.clone());
        pb.buffer_pool_allocator::<PoolAlloc>();
        pb.buffer_pool_size(std::num::NonZero::new(8).unwrap());
        pb.buffer_pool_buffer_len(16);
        let rt = RuntimeBuilder::new()
            .with_proactor(pb)
            .build()
            .expect("runtime");
        assert_eq!(rt.driver_type(), cfg.driver, "requested driver not available");

        let mut settings = Settings::default();
        if STUCK_SEEN.load(Ordering::Relaxed) >= 4 {
            settings.harvest_deadline = Duration::from_millis(60);
        }

        let mut w = World {
            prop,
            cfg,
            prog,
            ports: prog.ports(),
            sink,
            rt: Some(rt),
            ops: Vec::new(),
            ress: Vec::new(),
            dup_fds: BTreeMap::new(),
            port_ready: vec![0; prog.ports().len()],
            ids: BTreeMap::new(),
            trace: Vec::new(),
            obs: Vec::new(),
            fails: Vec::new(),
            reached: Vec::new(),
            steps: Vec::new(),
            step_idx: 0,
            cur_submit: None,
            last: None,
            ring_closed: None,
            teardown_seq: None,
            teardown_step: u32::MAX,
            stuck: false,
            settings,
            file_path: env.file_path,
            made_ready_since_harvest: 0,
            result_class: vec![String::new(); prog.ops.len()],
            write_stamps: vec![Vec::new(); prog.nres()],

            finals_this_step: 0,
            torn_down: false,
        };
        w.build_resources();
        for (i, spec) in prog.ops.iter().enumerate() {
            let token = if spec.mode == Mode::Token {
                Some(w.rt.as_ref().unwrap().enter(CancelToken::new))
            } else {
                None
            };
            w.ops.push(OpState {
                spec: *spec,
                submitted: false,
                holder: None,
                done: false,
                cancel_step: None,
                ids: Vec::new(),
                buf_id: i as u32,
                fd_id: if spec.dup { DUP_FD_BASE + i as u32 } else { spec.res as u32 },
                waker: Arc::new(CountWaker(AtomicUsize::new(0))),
                pending_registered: false,
                pending_polls: 0,
                handed: None,
                token,
                token_cancelled: false,
                dirty: false,
                piece: None,
                delivered: false,
                harvest_after_cancel: false,
                items: 0,
                consumed: 0,
                result_n: None,
                poisoned: false,
            });
        }
        w
    }

    fn build_resources(&mut self) {
        for r in 0..self.prog.nres() {
            let users: Vec<&OpSpec> = self.prog.ops.iter().filter(|o| o.res as usize == r).collect();
            let first = users.first().expect("resource without user").kind;
            let fd_id = r as u32;
            let (kind, fd) = match first {
                Kind::Recv | Kind::SendW | Kind::Multi | Kind::Read => {
                    let (a, b) = if first == Kind::Read { pipe() } else { socketpair() };
                    let wants_prefill = users.iter().any(|o| o.kind == Kind::SendW);
                    if wants_prefill {
                        let v: libc::c_int = 1;
                        unsafe {
                            libc::setsockopt(
                                a.as_raw_fd(),
                                libc::SOL_SOCKET,
                                libc::SO_SNDBUF,
                                &v as *const _ as _,
                                4,
                            );
                        }
                        let zeros = [0u8; 1024];
                        let mut guard = 0;
                        while write_nb(a.as_raw_fd(), &zeros) > 0 {
                            guard += 1;
                            assert!(guard < 10_000, "send buffer never fills");
                        }
                    }
                    let obs = dup(a.as_raw_fd());
                    (
                        ResKind::Stream {
                            peer: b,
                            obs,
                            written: Vec::new(),
                            drained: false,
                            peer_got: Vec::new(),
                            tcp_prefill_left: 0,
                        },
                        Some(a),
                    )
                }
                Kind::Zc => {
                    let (a, b) = tcp_pair();
                    let zeros = vec![0u8; ZC_PREFILL];
                    let n = write_nb(a.as_raw_fd(), &zeros);
                    assert_eq!(n, ZC_PREFILL as isize, "harness: tcp prefill");
                    let obs = dup(a.as_raw_fd());
                    (
                        ResKind::Stream {
                            peer: b,
                            obs,
                            written: Vec::new(),
                            drained: false,
                            peer_got: Vec::new(),
                            tcp_prefill_left: ZC_PREFILL,
                        },
                        Some(a),
                    )
                }
                Kind::ZcErr | Kind::ZcRst | Kind::ZcUx => {
                    let (a, b) = if first == Kind::ZcUx { socketpair() } else { tcp_pair() };
                    let peer = if first == Kind::ZcRst {
                        // SO_LINGER 0 (tcp_pair): the close sends a reset
                        drop(b);
                        wait_reset(a.as_raw_fd());
                        None
                    } else {
                        cvt(unsafe { libc::shutdown(a.as_raw_fd(), libc::SHUT_WR) }, "shutdown");
                        Some(b)
                    };
                    (ResKind::Broken { peer }, Some(a))
                }
                Kind::Accept => {
                    let name = format!(
                        "e_c01-{}-{}",
                        std::process::id(),
                        UNIQ.fetch_add(1, Ordering::Relaxed)
                    );
                    let l = unix_listener(&name);
                    (
                        ResKind::Listener {
                            _obs: dup(l.as_raw_fd()),
                            name,
                            clients: Vec::new(),
                            accepted: Vec::new(),
                        },
                        Some(l),
                    )
                }
                Kind::Job => (ResKind::Gate(Gate::new()), None),
                Kind::File => {
                    let f = std::fs::File::open(self.file_path).expect("data file");
                    (ResKind::File, Some(OwnedFd::from(f)))
                }
            };
            // operations that use a descriptor of their own: a dup of this resource's descriptor
            if let Some(f) = &fd {
                for (i, o) in self.prog.ops.iter().enumerate() {
                    if o.res as usize == r && o.dup {
                        assert!(matches!(kind, ResKind::Stream { .. }), "harness: dup of a non-stream resource");
                        let d = TrackedFd::new(DUP_FD_BASE + i as u32, dup(f.as_raw_fd()), &self.sink);
                        self.dup_fds.insert(i, d);
                    }
                }
            }
            self.ress.push(Res {
                kind,
                fd: fd.map(|f| TrackedFd::new(fd_id, f, &self.sink)),
                fd_id,
                users_left: users.iter().filter(|o| !o.dup).count(),
            });
        }
    }

    // --------------------------------------------------------------------------------------
    // enabledness
    // --------------------------------------------------------------------------------------

    pub fn enabled(&self) -> Vec<Step> {
        let mut v = Vec::new();
        if self.rt.is_none() {
            return v;
        }
        let cancels = self.prop == Prop::C01;
        let nsub = self.ops.iter().filter(|o| o.submitted).count();
        if nsub < self.ops.len() {
            v.push(Step::Submit(nsub as u8));
        }
        for p in 0..self.ports.len() {
            if self.port_ready[p] < self.prog.port_limit(p) {
                v.push(Step::MakeReady(p as u8));
            }
        }
        if nsub > 0 && self.last != Some(Step::Harvest) {
            v.push(Step::Harvest);
        }
        // polls directly follow a harvest, in index order (polls of different operations commute)
        let poll_floor = match self.last {
            Some(Step::Harvest) => Some(0),
            Some(Step::Poll(j)) => Some(j as usize + 1),
            _ => None,
        };
        if let Some(floor) = poll_floor {
            for (i, o) in self.ops.iter().enumerate() {
                if i >= floor && o.holder.is_some() && o.dirty {
                    v.push(Step::Poll(i as u8));
                }
            }
        }
        if cancels {
            for (i, o) in self.ops.iter().enumerate() {
                if o.holder.is_some() {
                    if o.spec.mode == Mode::Task || o.handed.is_some() {
                        v.push(Step::CancelTask(i as u8));
                    } else {
                        v.push(Step::DropFut(i as u8));
                    }
                }
            }
            for (i, o) in self.ops.iter().enumerate() {
                if o.spec.mode == Mode::Token && !o.token_cancelled && !o.done {
                    v.push(Step::TokenCancel(i as u8));
                }
            }
            v.push(Step::DropRuntime);
        } else {
            v.push(Step::Stop);
        }
        v
    }

    // --------------------------------------------------------------------------------------
    // event collection
    // --------------------------------------------------------------------------------------

    fn on_hook(&mut self, e: verif::Event) {
        if std::env::var_os("E_C01_TRACE").is_some() {
            eprintln!("hook step={} {:?}", self.step_idx, e);
        }
        let step = self.step_idx;
        self.trace.push(TEv {
            seq: e.seq,
            step,
            ev: Ev::Hook(e.kind, e.id),
        });
        if e.kind == HK::RingClosed {
            self.ring_closed = Some(e.seq);
            return;
        }
        if e.kind == HK::Alloc {
            let op = match self.cur_submit {
                Some(i) => i,
                None => {
                    self.fail("machinery", "unexpected-alloc".into(), format!("operation storage {} allocated outside a Submit step", e.id));
                    usize::MAX
                }
            };
            if op != usize::MAX {
                self.ops[op].ids.push(e.id);
            }
            self.ids.insert(
                e.id,
                IdState {
                    op,
                    ..Default::default()
                },
            );
            return;
        }
        let Some(st) = self.ids.get_mut(&e.id) else {
            // an operation of an earlier execution of this thread (late pool event): ignore
            return;
        };
        match e.kind {
            HK::Submit => st.submit = Some(e.seq),
            HK::PoolSubmit => st.pool_submit = Some(e.seq),
            HK::PoolEnter => st.enter = Some(e.seq),
            HK::PoolLeave => st.leave = Some(e.seq),
            HK::Final => {
                st.finals.push(e.seq);
                self.finals_this_step += 1;
            }
            HK::Multi => st.multis.push(e.seq),
            HK::Free => st.frees.push(e.seq),
            HK::Alloc | HK::RingClosed => {}
        }
    }

    /// pulls the hook logs and the harness sink; returns the number of hook events
    fn collect(&mut self) -> usize {
        let mut n = 0;
        for e in verif::take() {
            n += 1;
            self.on_hook(e);
        }
        let ids = &self.ids;
        let pool = verif::take_pool(|id| ids.contains_key(&id));
        for e in pool {
            n += 1;
            self.on_hook(e);
        }
        let step = self.step_idx;
        for HEvent { seq, kind } in self.sink.take() {
            self.trace.push(TEv {
                seq,
                step,
                ev: Ev::Har(kind),
            });
        }
        if n > 0 {
            self.guard_held_storage();
        }
        n
    }

    /// A future / stream the harness holds itself (direct and token modes) owns a reference to
    /// the operation's storage until it returned the result or is dropped, so the storage cannot
    /// be released while the harness holds it. If it was, the future now refers to freed memory:
    /// it is leaked (never polled or dropped again) and the execution goes on without it.
    fn guard_held_storage(&mut self) {
        for i in 0..self.ops.len() {
            let o = &self.ops[i];
            if o.holder.is_none() || o.spec.mode == Mode::Task || o.handed.is_some() {
                continue;
            }
            let Some(id) = o.ids.iter().copied().find(|id| !self.ids[id].frees.is_empty()) else {
                continue;
            };
            let st = self.ids[&id].clone();
            let name = self.opname(i);
            std::mem::forget(self.ops[i].holder.take());
            std::mem::forget(self.ops[i].token.take());
            self.ops[i].done = true;
            self.ops[i].poisoned = true;
            self.fail(
                "lifetime",
                format!("storage-freed-while-held:{name}"),
                format!(
                    "op {i} ({name}): its storage was freed @{:?} while the program still holds the future that owns a reference to it (Submit@{:?}, intermediate completions @{:?}, final completions @{:?})",
                    st.frees, st.submit, st.multis, st.finals
                ),
            );
        }
    }

    fn fail(&mut self, oracle: &'static str, class: String, msg: String) {
        self.fails.push(Fail { oracle, class, msg });
    }

    fn reach(&mut self, k: &'static str) {
        if !self.reached.contains(&k) {
            self.reached.push(k);
        }
    }

    fn opname(&self, i: usize) -> String {
        let s = self.ops[i].spec;
        format!("{}.{}", s.kind.name(), s.mode.name())
    }

    /// waits until the pool log shows `want` for hook id `id`
    fn wait_pool(&mut self, id: u64, want: HK) -> bool {
        let deadline = Instant::now() + self.settings.pool_wait;
        let mut spins = 0u32;
        loop {
            self.collect();
            let st = &self.ids[&id];
            let ok = match want {
                HK::PoolEnter => st.enter.is_some(),
                HK::PoolLeave => st.leave.is_some(),
                _ => unreachable!(),
            };
            if ok {
                return true;
            }
            if Instant::now() > deadline {
                return false;
            }
            spins += 1;
            if spins < 200 {
                std::thread::yield_now();
            } else {
                std::thread::sleep(Duration::from_micros(50));
            }
        }
    }

    fn gate_of(&self, op: usize) -> Option<Arc<Gate>> {
        match &self.ress[self.ops[op].spec.res as usize].kind {
            ResKind::Gate(g) => Some(g.clone()),
            _ => None,
        }
    }

    /// after a step that may have moved a pool job: wait for the deterministic resting point
    fn settle_pool(&mut self) {
        for i in 0..self.ops.len() {
            for id in self.ops[i].ids.clone() {
                let st = self.ids[&id].clone();
                if st.pool_submit.is_none() || st.leave.is_some() {
                    continue;
                }
                if st.enter.is_none() && !self.wait_pool(id, HK::PoolEnter) {
                    self.fail("machinery", "pool-enter-timeout".into(), format!("pool job of op {i} never started"));
                    continue;
                }
                let gated = self.gate_of(i);
                let runs_through = gated.as_ref().is_none_or(|g| g.is_open());
                if runs_through && !self.wait_pool(id, HK::PoolLeave) {
                    self.fail("machinery", "pool-leave-timeout".into(), format!("pool job of op {i} never finished"));
                }
            }
        }
    }

    // --------------------------------------------------------------------------------------
    // steps
    // --------------------------------------------------------------------------------------

    pub fn step(&mut self, s: Step) {
        self.step_idx += 1;
        self.steps.push(s);
        self.finals_this_step = 0;
        let mut note = String::new();
        match s {
            Step::Submit(i) => note = self.do_submit(i as usize),
            Step::MakeReady(p) => self.do_make_ready(p as usize),
            Step::Harvest => note = self.do_harvest(),
            Step::Poll(i) => note = self.do_poll(i as usize),
            Step::DropFut(i) | Step::CancelTask(i) => {
                let i = i as usize;
                let h = self.ops[i].holder.take();
                if let Some(rt) = &self.rt {
                    rt.enter(|| drop(h));
                } else {
                    drop(h);
                }
                self.ops[i].cancel_step = Some(self.step_idx);
                self.collect();
            }
            Step::TokenCancel(i) => {
                let i = i as usize;
                let t = self.ops[i].token.clone().expect("token");
                self.rt.as_ref().unwrap().enter(|| t.cancel());
                self.ops[i].token_cancelled = true;
                if self.ops[i].submitted && !self.ops[i].done && self.ops[i].cancel_step.is_none() {
                    self.ops[i].cancel_step = Some(self.step_idx);
                }
                self.collect();
            }
            Step::DropRuntime => self.teardown(),
            Step::Stop => self.epilogue(),
        }
        self.last = Some(s);
        if !self.torn_down {
            self.collect();
        }
        let line = format!("{}{}{}", s.name(), if note.is_empty() { "" } else { " -> " }, note);
        self.push_obs(line);
    }

    fn push_obs(&mut self, head: String) {
        // hook events of this step in canonical order (by operation, then kind)
        let step = self.step_idx;
        let mut evs: Vec<String> = self
            .trace
            .iter()
            .filter(|t| t.step == step)
            .map(|t| match &t.ev {
                Ev::Hook(k, id) => {
                    let op = self.ids.get(id).map(|s| s.op as i64).unwrap_or(-1);
                    format!("{op}:{k:?}")
                }
                Ev::Har(h) => match h {
                    HKind::PoolAlloc(_) => "h:PoolAlloc".into(),
                    HKind::PoolFree(_) => "h:PoolFree".into(),
                    other => format!("h:{other:?}"),
                },
            })
            .collect();
        evs.sort();
        self.obs.push(format!("{head} [{}]", evs.join(",")));
    }

    fn make_future(&mut self, i: usize) -> Holder {
        let spec = self.ops[i].spec;
        let sink = self.sink.clone();
        let bid = self.ops[i].buf_id;
        let r = spec.res as usize;
        let fd = if spec.dup {
            // the operation's own descriptor (the harness keeps no handle to it)
            self.dup_fds.remove(&i)
        } else {
            // the operation's own clone of the descriptor handle
            let fd = self.ress[r].fd.clone();
            self.ress[r].users_left -= 1;
            if self.ress[r].users_left == 0 {
                // the harness gives up its own handle: from now on the operations are the only owners
                self.ress[r].fd = None;
            }
            fd
        };
        let rt = self.rt.as_ref().unwrap();
        let token = self.ops[i].token.clone();
        macro_rules! wrap {
            ($f:expr) => {{
                let f = $f;
                match spec.mode {
                    Mode::Direct | Mode::Handover => Holder::Fut(Box::pin(async move { Ok(f.await) })),
                    Mode::Token => {
                        let t = token.expect("token");
                        Holder::Fut(Box::pin(async move { Ok(f.with_cancel(t).await) }))
                    }
                    Mode::Task => {
                        let h = rt.spawn(f);
                        Holder::Fut(Box::pin(async move { h.await.map_err(|e| format!("{e:?}")) }))
                    }
                }
            }};
        }
        rt.enter(|| match spec.kind {
            Kind::Recv => {
                let s = rt.submit(Recv::new(fd.unwrap(), TrackedBuf::recv(bid, CAP, &sink), RecvFlags::empty()));
                wrap!(async move {
                    let BufResult(r, op) = s.await;
                    match r {
                        Ok(n) => Outcome::Bytes(n, op.into_inner()),
                        Err(e) => Outcome::Failed(errno(&e)),
                    }
                })
            }
            Kind::Read => {
                let s = rt.submit(Read::new(fd.unwrap(), TrackedBuf::recv(bid, CAP, &sink)));
                wrap!(async move {
                    let BufResult(r, op) = s.await;
                    match r {
                        Ok(n) => Outcome::Bytes(n, op.into_inner()),
                        Err(e) => Outcome::Failed(errno(&e)),
                    }
                })
            }
            Kind::File => {
                let s = rt.submit(ReadAt::new(fd.unwrap(), (i * 8) as u64, TrackedBuf::recv(bid, CAP, &sink)));
                wrap!(async move {
                    let BufResult(r, op) = s.await;
                    match r {
                        Ok(n) => Outcome::Bytes(n, op.into_inner()),
                        Err(e) => Outcome::Failed(errno(&e)),
                    }
                })
            }
            Kind::SendW => {
                let s = rt.submit(Send::new(
                    fd.unwrap(),
                    TrackedBuf::send(bid, &send_payload(i), &sink),
                    SendFlags::empty(),
                ));
                wrap!(async move {
                    let BufResult(r, op) = s.await;
                    match r {
                        Ok(n) => Outcome::Bytes(n, op.into_inner()),
                        Err(e) => Outcome::Failed(errno(&e)),
                    }
                })
            }
            Kind::Accept => {
                let s = rt.submit(Accept::new(fd.unwrap()));
                wrap!(async move {
                    let BufResult(r, op) = s.await;
                    match r {
                        Ok(n) => Outcome::Accepted(n, op.into_inner().0),
                        Err(e) => Outcome::Failed(errno(&e)),
                    }
                })
            }
            Kind::Job => {
                let gate = match &self.ress[r].kind {
                    ResKind::Gate(g) => g.clone(),
                    _ => unreachable!(),
                };
                let mut buf = TrackedBuf::recv(bid, CAP, &sink);
                let pat = job_pattern(i);
                let val = 1000 + i;
                let s = rt.submit(Asyncify::new(move || {
                    gate.pass();
                    buf.raw_mut().copy_from_slice(&pat);
                    BufResult(Ok(val), buf)
                }));
                wrap!(async move {
                    let BufResult(r, op) = s.await;
                    match r {
                        Ok(n) => Outcome::Bytes(n, op.into_inner()),
                        Err(e) => Outcome::Failed(errno(&e)),
                    }
                })
            }
            Kind::Multi => {
                let pool = rt.buffer_pool().expect("harness: buffer pool");
                let op = RecvMulti::new(fd.unwrap(), &pool, 16, RecvFlags::empty()).expect("harness: RecvMulti");
                let st = rt.submit_multi(op).into_managed(pool).map(|r| match r {
                    Ok(Some(b)) => Outcome::Item(b.to_vec()),
                    Ok(None) => Outcome::Item(Vec::new()),
                    Err(e) => Outcome::Failed(errno(&e)),
                });
                match spec.mode {
                    Mode::Direct => Holder::Stream(Box::pin(st)),
                    Mode::Token => Holder::Stream(Box::pin(st.with_cancel(token.expect("token")))),
                    Mode::Task | Mode::Handover => panic!("harness: stream operations cannot be awaited in a task"),
                }
            }
            Kind::Zc => {
                let st = ZcDrive {
                    st: Some(rt.submit_multi(SendZc::new(
                        fd.unwrap(),
                        TrackedBuf::send(bid, &send_payload(i), &sink),
                        SendFlags::empty(),
                    ))),
                    sent: false,
                };
                match spec.mode {
                    Mode::Direct => Holder::Stream(Box::pin(st)),
                    Mode::Token => Holder::Stream(Box::pin(st.with_cancel(token.expect("token")))),
                    Mode::Task | Mode::Handover => panic!("harness: stream operations cannot be awaited in a task"),
                }
            }
            Kind::ZcErr | Kind::ZcRst | Kind::ZcUx => {
                let st = rt.submit_multi(SendZc::new(
                    fd.unwrap(),
                    TrackedBuf::send(bid, &send_payload(i), &sink),
                    SendFlags::empty(),
                ));
                wrap!(drive_zc_fail(st))
            }
        })
    }

    fn do_submit(&mut self, i: usize) -> String {
        self.cur_submit = Some(i);
        let h = self.make_future(i);
        self.ops[i].holder = Some(h);
        self.ops[i].submitted = true;
        if self.ops[i].token_cancelled {
            // registered with an already cancelled token: cancelled at registration
            self.ops[i].cancel_step = Some(self.step_idx);
        }
        if self.ops[i].spec.mode == Mode::Task {
            let rt = self.rt.as_ref().unwrap();
            rt.enter(|| {
                rt.run();
            });
        }
        let note = self.poll_holder(i);
        self.collect();
        self.settle_pool();
        self.cur_submit = None;
        if self.ops[i].ids.len() != 1 {
            self.fail("machinery", "alloc-count".into(), format!("Submit({i}) allocated {} operation storages", self.ops[i].ids.len()));
        }
        if self.finals_this_step > 0 && self.cfg.is_uring() {
            self.reach("sq_overflow_completion_during_submit");
        }
        if self.ops[i].done {
            self.reach("completed_at_submit");
        }
        note
    }

    fn port_users_pending(&self, p: usize) -> Vec<usize> {
        let (res, class) = self.ports[p];
        (0..self.ops.len())
            .filter(|&i| {
                let o = &self.ops[i];
                o.spec.res == res && o.spec.kind.class() == class && o.submitted && !o.done
            })
            .collect()
    }

    fn do_make_ready(&mut self, p: usize) {
        let (res, class) = self.ports[p];
        self.port_ready[p] += 1;
        self.made_ready_since_harvest += 1;
        let r = &mut self.ress[res as usize];
        match (&mut r.kind, class) {
            (ResKind::Stream { peer, written, .. }, Class::In) => {
                let start = written.len();
                self.write_stamps[res as usize].push((start, verif::next_seq()));
                let data: Vec<u8> = (start..start + CHUNK).map(|k| in_byte(res, k)).collect();
                let n = write_nb(peer.as_raw_fd(), &data);
                assert_eq!(n, CHUNK as isize, "harness write to peer");
                written.extend_from_slice(&data);
            }
            (ResKind::Stream { .. }, Class::Out) => {
                self.drain_peer(res as usize);
                if let ResKind::Stream { drained, .. } = &mut self.ress[res as usize].kind {
                    *drained = true;
                }
            }
            (ResKind::Listener { name, clients, .. }, Class::Conn) => {
                let c = unix_connect(name);
                let id = [0x70 + clients.len() as u8];
                assert_eq!(write_nb(c.as_raw_fd(), &id), 1);
                clients.push(c);
            }
            (ResKind::Gate(g), Class::Gate) => {
                g.open();
            }
            _ => unreachable!("port/resource mismatch"),
        }
        self.collect();
        self.settle_pool();
    }

    /// reads everything from the peer end; zero bytes are prefill, the rest is payload
    fn drain_peer(&mut self, res: usize) {
        // TCP: the prefill (and the payload of a send that was already issued) trickles in as the
        // window opens, so read until everything that was queued has arrived
        // (a send counts as issued once one of its completions was seen)
        let zc_sent: usize = self
            .ops
            .iter()
            .enumerate()
            .filter(|(_, o)| o.spec.res as usize == res && o.spec.kind == Kind::Zc && o.submitted)
            .filter(|(_, o)| o.ids.iter().any(|id| !self.ids[id].multis.is_empty() || !self.ids[id].finals.is_empty()))
            .map(|(i, _)| send_payload(i).len())
            .sum();
        let is_tcp = self.prog.ops.iter().any(|o| o.res as usize == res && o.kind == Kind::Zc);
        if let ResKind::Stream { peer, peer_got, tcp_prefill_left, .. } = &mut self.ress[res].kind {
            if is_tcp {
                quickack(peer.as_raw_fd());
            }
            let mut buf = [0u8; 4096];
            let deadline = Instant::now() + Duration::from_millis(500);
            loop {
                let n = read_nb(peer.as_raw_fd(), &mut buf);
                if n > 0 {
                    let zeros = buf[..n as usize].iter().filter(|&&b| b == 0).count();
                    *tcp_prefill_left = tcp_prefill_left.saturating_sub(zeros);
                    peer_got.extend(buf[..n as usize].iter().copied().filter(|&b| b != 0));
                    if is_tcp {
                        // flush the acknowledgement the kernel may have delayed
                        quickack(peer.as_raw_fd());
                    }
                    continue;
                }
                let want_more = *tcp_prefill_left > 0 || (zc_sent > 0 && peer_got.len() < zc_sent);
                let tcp = zc_sent > 0 || *tcp_prefill_left > 0;
                if !(tcp && want_more) || Instant::now() > deadline {
                    break;
                }
                std::thread::sleep(Duration::from_micros(20));
            }
        }
    }

    /// is what operation `i` waits for available right now?
    fn completion_enabled(&self, i: usize) -> bool {
        let o = &self.ops[i];
        let r = &self.ress[o.spec.res as usize];
        match (o.spec.kind.class(), &r.kind) {
            (Class::In, ResKind::Stream { obs, .. }) => readable_bytes(obs.as_raw_fd()) > 0,
            (Class::Out, ResKind::Stream { drained, .. }) => *drained,
            (Class::Conn, ResKind::Listener { clients, .. }) => {
                // connections not yet taken by a completed accept
                let taken = self
                    .ops
                    .iter()
                    .filter(|p| p.spec.res == o.spec.res && p.spec.kind == Kind::Accept)
                    .filter(|p| p.ids.iter().any(|id| !self.ids[id].finals.is_empty()) || p.done)
                    .count();
                clients.len() > taken
            }
            (Class::Gate, ResKind::Gate(g)) => g.is_open(),
            (Class::Own, _) => true,
            _ => false,
        }
    }

    /// operations handed to the OS / the pool whose final completion must arrive now
    fn expecting(&self) -> Vec<usize> {
        let mut v = Vec::new();
        for (i, o) in self.ops.iter().enumerate() {
            let inflight = o.ids.iter().any(|id| {
                let s = &self.ids[id];
                (s.submit.is_some() || s.pool_submit.is_some()) && s.finals.is_empty()
            });
            if inflight && self.completion_enabled(i) {
                v.push(i);
            }
        }
        v
    }

    fn do_harvest(&mut self) -> String {
        let deadline = Instant::now() + self.settings.harvest_deadline;
        let mut quiet = 0;
        let mut rounds = 0u32;
        let extra = if self.ops.iter().any(|o| o.cancel_step.is_some()) { 3 } else { 2 };
        let mut stuck_on = Vec::new();
        loop {
            {
                let rt = self.rt.as_ref().unwrap();
                rt.enter(|| {
                    rt.poll_with(Some(Duration::ZERO));
                    rt.run();
                });
            }
            let n = self.collect();
            rounds += 1;
            if n == 0 {
                quiet += 1;
            } else {
                quiet = 0;
            }
            if quiet >= extra {
                let exp = self.expecting();
                if exp.is_empty() {
                    break;
                }
                if Instant::now() > deadline {
                    stuck_on = exp;
                    break;
                }
                for &i in &exp {
                    if self.ops[i].spec.kind == Kind::Zc {
                        // the peer keeps reading (and acknowledging) what arrives
                        self.drain_peer(self.ops[i].spec.res as usize);
                    }
                }
                if rounds > 6 {
                    std::thread::sleep(Duration::from_micros(100));
                }
            }
            if rounds > 200_000 {
                self.fail("machinery", "harvest-never-quiet".into(), "harvest produced events for 200000 rounds".into());
                break;
            }
        }
        for o in self.ops.iter_mut() {
            if o.holder.is_some() {
                o.dirty = true;
            }
            if o.cancel_step.is_some() {
                o.harvest_after_cancel = true;
            }
        }
        if self.made_ready_since_harvest >= 2 && self.finals_this_step >= 2 {
            self.reach("burst_two_completions_in_one_harvest");
        }
        self.made_ready_since_harvest = 0;
        if !stuck_on.is_empty() {
            self.stuck = true;
            let names: Vec<String> = stuck_on.iter().map(|&i| format!("{}#{i}", self.opname(i))).collect();
            let class = format!("undelivered:{}", self.opname(stuck_on[0]));
            self.fail(
                "liveness",
                class,
                format!(
                    "after the harvest settled, the final completion of {} never arrived although what it waits for is ready",
                    names.join(",")
                ),
            );
            return format!("STUCK({})", names.join(","));
        }
        String::new()
    }

    fn poll_holder(&mut self, i: usize) -> String {
        let mut notes = Vec::new();
        loop {
            let (note, again) = self.poll_once(i);
            notes.push(note);
            if !again || notes.len() > 8 {
                break;
            }
        }
        notes.join("+")
    }

    /// one poll of the future / one poll_next of the stream; `true` = a stream item was
    /// delivered and the stream is to be polled again
    fn poll_once(&mut self, i: usize) -> (String, bool) {
        let Some(mut h) = self.ops[i].holder.take() else {
            return ("gone".into(), false);
        };
        // every hand poll uses a fresh waker (a distinct Arc with its own counter): the future
        // must re-register, and the completion must invoke the MOST RECENT one
        let prev = std::mem::replace(&mut self.ops[i].waker, Arc::new(CountWaker(AtomicUsize::new(0))));
        let prev_wakes = prev.0.load(Ordering::SeqCst);
        let waker = Waker::from(self.ops[i].waker.clone());
        let mut cx = Context::from_waker(&waker);
        let r: Poll<Option<Result<Outcome, String>>> = {
            let rt = self.rt.as_ref().unwrap();
            rt.enter(|| match &mut h {
                Holder::Fut(f) => f.as_mut().poll(&mut cx).map(Some),
                Holder::Stream(st) => st.as_mut().poll_next(&mut cx).map(|o| o.map(Ok)),
            })
        };
        self.collect();
        self.ops[i].dirty = false;
        match r {
            Poll::Pending => {
                self.ops[i].holder = Some(h);
                // a final completion was delivered to this operation, so the future must be ready
                let has_final = self.ops[i].ids.iter().any(|id| !self.ids[id].finals.is_empty());
                if has_final && self.step_kind_is_poll() {
                    let class = format!("pending-after-final:{}", self.opname(i));
                    self.fail(
                        "liveness",
                        class,
                        format!("op {i} ({}) got its final completion but its future/task handle is still Pending after a settle", self.opname(i)),
                    );
                }
                self.ops[i].pending_registered = true;
                self.ops[i].pending_polls += 1;
                ("Pending".into(), false)
            }
            Poll::Ready(res) => {
                // waker rule: between the Pending poll that registered the waker and this Ready
                // poll the waker must have been invoked
                if std::mem::take(&mut self.ops[i].pending_registered) {
                    if prev_wakes == 0 {
                        let class = format!("ready-without-wake:{}", self.opname(i));
                        self.fail(
                            "waker",
                            class,
                            format!(
                                "op {i} ({}) became Ready but the waker of its most recent poll (the {}. poll that returned Pending, each with a waker of its own) was never invoked",
                                self.opname(i),
                                self.ops[i].pending_polls
                            ),
                        );
                    } else if self.ops[i].pending_polls >= 2 && self.ops[i].handed.is_none() && self.ops[i].spec.mode != Mode::Task {
                        self.reach("repolled_with_new_waker_then_woken");
                    }
                }
                match res {
                    None => {
                        drop(h);
                        self.ops[i].done = true;
                        ("End".into(), false)
                    }
                    Some(Ok(out)) => {
                        let is_stream = matches!(h, Holder::Stream(_));
                        if is_stream && !out.terminal() {
                            self.ops[i].holder = Some(h);
                            (self.on_item(i, out), true)
                        } else {
                            drop(h);
                            self.ops[i].done = true;
                            (self.on_ready(i, out), false)
                        }
                    }
                    Some(Err(e)) => {
                        drop(h);
                        self.ops[i].done = true;
                        let class = format!("task-failed:{}", self.opname(i));
                        self.fail("result", class, format!("task awaiting op {i} ended with {e}"));
                        (format!("TaskErr({e})"), false)
                    }
                }
            }
        }
    }

    /// a non-terminal stream item
    fn on_item(&mut self, i: usize, out: Outcome) -> String {
        let name = self.opname(i);
        let spec = self.ops[i].spec;
        self.ops[i].items += 1;
        // hook view: every item corresponds to one intermediate (or the final) completion
        let avail: usize = self.ops[i].ids.iter().map(|id| self.ids[id].multis.len() + self.ids[id].finals.len()).sum();
        if self.ops[i].items > avail {
            self.fail("hooks", format!("item-without-completion:{name}"), format!("op {i} yielded {} items but only {avail} completions were logged", self.ops[i].items));
        }
        match out {
            Outcome::Item(data) => {
                let written = match &self.ress[spec.res as usize].kind {
                    ResKind::Stream { written, .. } => written.clone(),
                    _ => Vec::new(),
                };
                let pos = self.ops[i].consumed;
                let note = format!("Item({:02x?})", data);
                if data.is_empty() || pos + data.len() > written.len() || written[pos..pos + data.len()] != data[..] {
                    self.fail("result", format!("wrong-data:{name}"), format!("multishot op {i} yielded {:02x?} at stream offset {pos}; the peer wrote {:02x?}", data, written));
                } else {
                    self.ops[i].consumed += data.len();
                    self.ops[i].piece = Some((0, self.ops[i].consumed));
                }
                self.reach("multishot_item_delivered");
                note
            }
            Outcome::ZcSent(n) => {
                let pl = send_payload(i);
                if n != pl.len() {
                    self.fail("result", format!("wrong-count:{name}"), format!("zero-copy send {i} reported {n} bytes of {}", pl.len()));
                }
                self.ops[i].result_n = Some(n);
                format!("Sent({n})")
            }
            _ => "?".into(),
        }
    }

    fn step_kind_is_poll(&self) -> bool {
        matches!(self.steps.last(), Some(Step::Poll(_)) | Some(Step::Stop))
    }

    fn do_poll(&mut self, i: usize) -> String {
        if self.ops[i].spec.mode == Mode::Handover && self.ops[i].handed.is_none() {
            // the probe (Submit step) left the future pending: hand it over to a task that awaits
            // it; the task polls it with its own waker, the harness keeps the JoinHandle
            let Some(Holder::Fut(f)) = self.ops[i].holder.take() else {
                panic!("harness: handover of something that is not a future");
            };
            self.ops[i].handed = Some(verif::next_seq());
            self.ops[i].pending_registered = false;
            let rt = self.rt.as_ref().unwrap();
            let h = rt.enter(|| {
                let h = rt.spawn(f);
                rt.run();
                h
            });
            self.ops[i].holder = Some(Holder::Fut(Box::pin(async move {
                match h.await {
                    Ok(r) => r,
                    Err(e) => Err(format!("{e:?}")),
                }
            })));
            self.collect();
            self.settle_pool();
            return format!("HandedOver+{}", self.poll_holder(i));
        }
        self.poll_holder(i)
    }

    fn on_ready(&mut self, i: usize, out: Outcome) -> String {
        let spec = self.ops[i].spec;
        let name = self.opname(i);
        self.ops[i].delivered = true;
        // hook view: a submitted operation is ready only after its final completion
        for id in self.ops[i].ids.clone() {
            let s = self.ids[&id].clone();
            if (s.submit.is_some() || s.pool_submit.is_some()) && s.finals.is_empty() {
                self.fail("hooks", format!("ready-without-final:{name}"), format!("op {i} returned Ready but no final completion was logged for it"));
            }
        }
        let cancelled = self.ops[i].cancel_step.is_some();
        if let Some(h) = self.ops[i].handed {
            // the completion came after the handover: it had to wake the task, not the probe
            if self.ops[i].ids.iter().any(|id| self.ids[id].finals.first().is_some_and(|f| *f > h)) {
                self.reach("handed_over_task_woken_by_completion");
            }
        }
        let note;
        match out {
            Outcome::Failed(e) => {
                note = format!("Err({e})");
                self.result_class[i] = format!("err{e}");
                if !(cancelled && e == libc::ECANCELED) {
                    self.fail("result", format!("error:{name}"), format!("op {i} ({name}) failed with errno {e} although nothing the harness did can fail it"));
                }
            }
            Outcome::Accepted(_n, sock) => {
                self.result_class[i] = "accepted".into();
                let mut b = [0u8; 1];
                let n = unsafe { libc::recv(sock.as_raw_fd(), b.as_mut_ptr() as _, 1, libc::MSG_DONTWAIT) };
                let res = spec.res as usize;
                if let ResKind::Listener { clients, accepted, .. } = &mut self.ress[res].kind {
                    let made = clients.len();
                    let c = b[0].wrapping_sub(0x70);
                    note = format!("Accepted(conn{c})");
                    if n != 1 || (c as usize) >= made {
                        self.fails.push(Fail {
                            oracle: "result",
                            class: format!("accept-unknown-connection:{name}"),
                            msg: format!("op {i} accepted a connection that carries id byte {:#x} (recv={n}); {made} connections were made", b[0]),
                        });
                    } else if accepted.contains(&c) {
                        self.fails.push(Fail {
                            oracle: "result",
                            class: format!("accept-duplicate:{name}"),
                            msg: format!("op {i} accepted connection {c} which another accept already returned"),
                        });
                    } else {
                        accepted.push(c);
                    }
                } else {
                    note = "Accepted(?)".into();
                }
                drop(sock);
            }
            Outcome::Item(_) | Outcome::ZcSent(_) => {
                note = "?".into();
            }
            Outcome::ZcDone(buf) => {
                self.result_class[i] = "zc-done".into();
                note = "ZcDone".into();
                let pl = send_payload(i);
                // hook view: the buffer comes back only after the notification, i.e. after a
                // final completion that follows the send completion
                let (multis, finals) = self.ops[i].ids.iter().fold((0, 0), |a, id| (a.0 + self.ids[id].multis.len(), a.1 + self.ids[id].finals.len()));
                if multis == 0 || finals == 0 {
                    self.fail("lifetime", format!("zc-buffer-returned-before-notification:{name}"), format!("zero-copy send {i} handed its buffer back after {multis} send completions and {finals} final completions"));
                }
                self.drain_peer(spec.res as usize);
                let got = match &self.ress[spec.res as usize].kind {
                    ResKind::Stream { peer_got, .. } => peer_got.clone(),
                    _ => Vec::new(),
                };
                let n = self.ops[i].result_n.unwrap_or(0);
                if n != pl.len() || got != pl {
                    self.fail("result", format!("wrong-data:{name}"), format!("zero-copy send {i} reported {n} bytes; the peer received {:02x?}, payload was {:02x?}", got, pl));
                }
                match buf {
                    Some(b) => {
                        if b.id != self.ops[i].buf_id || b.raw() != &pl[..] {
                            self.fail("result", format!("foreign-buffer:{name}"), format!("zero-copy send {i} got buffer {} ({:02x?}) back", b.id, b.raw()));
                        }
                        drop(b);
                    }
                    None => self.fail("result", format!("no-buffer:{name}"), format!("zero-copy send {i} finished but the operation could not be taken back")),
                }
                self.reach("zerocopy_buffer_returned_after_notification");
            }
            Outcome::ZcFail { results, buf } => {
                let pl = send_payload(i);
                let shown: Vec<String> = results
                    .iter()
                    .map(|(r, notif)| match (r, notif) {
                        (Ok(n), true) => format!("Notif({n})"),
                        (Ok(n), false) => format!("Ok({n})"),
                        (Err(e), true) => format!("NotifErr({e})"),
                        (Err(e), false) => format!("Err({e})"),
                    })
                    .collect();
                note = format!("ZcFail({})", shown.join(","));
                let (multis, finals) = self.ops[i].ids.iter().fold((0, 0), |a, id| (a.0 + self.ids[id].multis.len(), a.1 + self.ids[id].finals.len()));
                // the error is the operation's own: the one the harness arranged
                match results.first() {
                    Some((Err(e), false)) if zc_fail_errnos(spec.kind).contains(e) || (cancelled && *e == libc::ECANCELED) => {
                        self.result_class[i] = format!("zcfail-err{e}");
                    }
                    other => {
                        self.result_class[i] = "zcfail-unexpected".into();
                        self.fail("result", format!("wrong-error:{name}"), format!("zero-copy send {i} on a broken socket reported {other:?} first (expected one of the errnos {:?})", zc_fail_errnos(spec.kind)));
                    }
                }
                match &results[..] {
                    // the failed send result flagged "more", then the kernel's release notification
                    [(_, false), (_, true)] => {
                        if multis >= 1 && finals == 1 {
                            self.reach("zerocopy_failed_send_two_completions");
                        } else {
                            self.fail("hooks", format!("zc-completions-mismatch:{name}"), format!("zero-copy send {i} yielded {shown:?} but the driver logged {multis} intermediate and {finals} final completions"));
                        }
                    }
                    // the send result was the only completion: this kernel posts no notification
                    // for a failed zero-copy send — or the buffer came back before it; then a
                    // second final completion follows and is judged at the end of the execution
                    [(_, false)] => {
                        self.reach("zerocopy_failed_send_single_completion");
                        if multis > 0 {
                            self.fail("lifetime", format!("zc-buffer-returned-before-notification:{name}"), format!("failed zero-copy send {i} handed its buffer back with its only result {shown:?} although the driver saw {multis} completion(s) flagged 'more' (a notification is still to come)"));
                        }
                    }
                    _ => {
                        self.fail("result", format!("zc-completion-sequence:{name}"), format!("failed zero-copy send {i} yielded the completions {shown:?} (expected the error, then the release notification)"));
                    }
                }
                // nothing of the payload went out
                let mut got = Vec::new();
                if let ResKind::Broken { peer: Some(peer) } = &self.ress[spec.res as usize].kind {
                    let mut b = [0u8; 16];
                    let n = read_nb(peer.as_raw_fd(), &mut b);
                    if n > 0 {
                        got = b[..n as usize].to_vec();
                    }
                }
                if !got.is_empty() {
                    self.fail("result", format!("sent-despite-error:{name}"), format!("zero-copy send {i} reported an error but the peer received {:02x?}", got));
                }
                match buf {
                    Some(b) => {
                        if b.id != self.ops[i].buf_id || b.raw() != &pl[..] {
                            self.fail("result", format!("foreign-buffer:{name}"), format!("zero-copy send {i} got buffer {} ({:02x?}) back", b.id, b.raw()));
                        }
                        drop(b);
                    }
                    None => self.fail("result", format!("no-buffer:{name}"), format!("zero-copy send {i} finished but the operation could not be taken back")),
                }
            }
            Outcome::Bytes(n, buf) => {
                self.result_class[i] = format!("ok{n}");
                let raw = buf.raw().to_vec();
                note = format!("Ok({n},{:02x?})", &raw[..n.min(raw.len())]);
                if buf.id != self.ops[i].buf_id {
                    self.fail("result", format!("foreign-buffer:{name}"), format!("op {i} was submitted with buffer {} and got buffer {} back", self.ops[i].buf_id, buf.id));
                }
                match spec.kind {
                    Kind::Recv | Kind::Read => self.check_in_bytes(i, n, &raw),
                    Kind::File => {
                        let fc = file_content();
                        let off = i * 8;
                        if n != CAP || raw[..] != fc[off..off + CAP] {
                            self.fail("result", format!("wrong-data:{name}"), format!("op {i} read {n} bytes {:02x?} from the file at offset {off}, expected {:02x?}", &raw, &fc[off..off + CAP]));
                        }
                    }
                    Kind::Job => {
                        if n != 1000 + i || raw[..] != job_pattern(i) {
                            self.fail("result", format!("wrong-data:{name}"), format!("job {i} returned value {n} data {:02x?}, expected {} {:02x?}", &raw, 1000 + i, job_pattern(i)));
                        }
                    }
                    Kind::SendW => {
                        let pl = send_payload(i);
                        self.drain_peer(spec.res as usize);
                        let got = match &self.ress[spec.res as usize].kind {
                            ResKind::Stream { peer_got, .. } => peer_got.clone(),
                            _ => Vec::new(),
                        };
                        if n == 0 || n > pl.len() || got != pl[..n] {
                            self.fail("result", format!("wrong-data:{name}"), format!("send {i} reported {n} bytes; the peer received {:02x?}, payload was {:02x?}", got, pl));
                        }
                        if raw[..] != pl[..] {
                            self.fail("result", format!("buffer-modified:{name}"), format!("send buffer of op {i} came back as {:02x?}", raw));
                        }
                    }
                    _ => {}
                }
                drop(buf);
            }
        }
        note
    }

    /// bytes reported by a reader: its own stream, contiguous, disjoint from other readers
    fn check_in_bytes(&mut self, i: usize, n: usize, raw: &[u8]) {
        let spec = self.ops[i].spec;
        let name = self.opname(i);
        let res = spec.res;
        let written = match &self.ress[res as usize].kind {
            ResKind::Stream { written, .. } => written.clone(),
            _ => Vec::new(),
        };
        if n == 0 || n > CAP {
            self.fail("result", format!("wrong-count:{name}"), format!("op {i} reported {n} bytes (capacity {CAP}, peer still open)"));
            return;
        }
        if raw[n..].iter().any(|&b| b != FILL) {
            self.fail("result", format!("wrote-beyond-count:{name}"), format!("op {i} reported {n} bytes but the buffer holds {:02x?}", raw));
        }
        let data = &raw[..n];
        if data[0] >> 5 != res + 1 {
            self.fail("result", format!("foreign-data:{name}"), format!("op {i} reads resource {res} but got bytes {:02x?} (bytes of resource {})", data, (data[0] >> 5) as i32 - 1));
            return;
        }
        let pos = (data[0] & 31) as usize;
        if pos + n > written.len() || written[pos..pos + n] != *data {
            self.fail("result", format!("wrong-data:{name}"), format!("op {i} got {:02x?}; the peer wrote {:02x?}", data, written));
            return;
        }
        // disjoint from the pieces of the other readers of this descriptor
        for (j, o) in self.ops.iter().enumerate() {
            if j != i && o.spec.res == res {
                if let Some((p, l)) = o.piece {
                    if pos < p + l && p < pos + n {
                        self.fails.push(Fail {
                            oracle: "result",
                            class: format!("duplicated-data:{name}"),
                            msg: format!("ops {i} and {j} both received stream bytes [{}..{}) ∩ [{}..{})", pos, pos + n, p, p + l),
                        });
                    }
                }
            }
        }
        self.ops[i].piece = Some((pos, n));
        let readers: Vec<usize> = (0..self.ops.len())
            .filter(|&j| self.ops[j].spec.res == res && self.ops[j].spec.kind.class() == Class::In)
            .collect();
        if readers.len() == 1 && pos != 0 {
            self.fail("result", format!("skipped-data:{name}"), format!("op {i} is the only reader and got bytes from offset {pos}"));
        }
        if readers.len() >= 2 {
            self.reach("two_readers_one_descriptor_delivered");
        }
        // readers on dup()ed descriptors of one stream: this one was already pending when an
        // EARLIER chunk arrived that another reader took (it was woken for nothing, or not at
        // all), and it was served by a later chunk
        let my_submit = self.ops[i].ids.iter().filter_map(|id| self.ids[id].submit).min();
        let stamps = &self.write_stamps[res as usize];
        let my_chunk = stamps.iter().rev().find(|(off, _)| *off <= pos).map(|x| x.1);
        let served_late = readers.iter().any(|&j| {
            let oj = &self.ops[j];
            if j == i || oj.fd_id == self.ops[i].fd_id {
                return false;
            }
            let Some((pj, _)) = oj.piece else { return false };
            let chunk_j = stamps.iter().rev().find(|(off, _)| *off <= pj).map(|x| x.1);
            let fin_j = oj.ids.iter().filter_map(|id| self.ids[id].finals.first().copied()).min();
            match (my_submit, chunk_j, fin_j, my_chunk) {
                (Some(ms), Some(cj), Some(fj), Some(mc)) => pj < pos && ms < cj && fj < mc,
                _ => false,
            }
        });
        if served_late {
            self.reach("dup_descriptor_reader_served_after_other_reader_took_first_chunk");
        }
    }

    // --------------------------------------------------------------------------------------
    // C02 epilogue: everything submitted must complete, exactly once, with its own result
    // --------------------------------------------------------------------------------------

    /// submitted, still held by the program, and something is still to be delivered
    fn still_owed(&self, i: usize) -> bool {
        let o = &self.ops[i];
        if !o.submitted || o.holder.is_none() {
            return false;
        }
        if o.spec.kind == Kind::Multi {
            let written = match &self.ress[o.spec.res as usize].kind {
                ResKind::Stream { written, .. } => written.len(),
                _ => 0,
            };
            return o.items == 0 || o.consumed < written;
        }
        true
    }

    fn epilogue(&mut self) {
        if self.rt.is_none() {
            return;
        }
        for _round in 0..4 {
            let pend: Vec<usize> = (0..self.ops.len()).filter(|&i| self.still_owed(i)).collect();
            if pend.is_empty() {
                break;
            }
            for p in 0..self.ports.len() {
                let users: Vec<usize> = self.port_users_pending(p).into_iter().filter(|&i| self.still_owed(i)).collect();
                if !users.is_empty() && !users.iter().any(|&i| self.completion_enabled(i)) {
                    self.do_make_ready(p);
                }
            }
            let note = self.do_harvest();
            if !note.is_empty() {
                self.obs.push(format!("epilogue: {note}"));
                break;
            }
            for i in pend {
                let n = self.do_poll(i);
                self.obs.push(format!("epilogue poll({i}) -> {n}"));
            }
        }
        // a multishot receive that delivered everything is ended by dropping (cancelling) it
        let mut dropped_multi = false;
        for i in 0..self.ops.len() {
            if self.ops[i].spec.kind == Kind::Multi && self.ops[i].holder.is_some() && !self.still_owed(i) {
                let h = self.ops[i].holder.take();
                self.rt.as_ref().unwrap().enter(|| drop(h));
                self.ops[i].cancel_step = Some(self.step_idx);
                self.ops[i].delivered = true;
                dropped_multi = true;
            }
        }
        if dropped_multi && !self.stuck {
            self.do_harvest();
        }
        if !self.stuck {
            for i in 0..self.ops.len() {
                if self.still_owed(i) {
                    let class = format!("never-completed:{}", self.opname(i));
                    self.fail("liveness", class, format!("op {i} is still pending after everything it waits for was made ready and harvested"));
                }
            }
        }
        self.collect();
        // hook oracle at quiescence
        for (id, s) in self.ids.clone() {
            let handed = s.submit.is_some() || s.pool_submit.is_some();
            let name = if s.op < self.ops.len() { self.opname(s.op) } else { "?".into() };
            let cancelled = s.op < self.ops.len() && self.ops[s.op].cancel_step.is_some();
            if handed && s.finals.is_empty() && !self.stuck && !cancelled {
                self.fail("hooks", format!("no-final:{name}"), format!("operation storage {id} (op {}) was handed over but never got a final completion", s.op));
            }
        }
        // polling driver: compio itself matches readiness to the head of its per-descriptor queue,
        // so a reader that was queued first (and before the bytes arrived) gets the earlier bytes
        if !self.cfg.is_uring() {
            for a in 0..self.ops.len() {
                for b in 0..self.ops.len() {
                    let (oa, ob) = (&self.ops[a], &self.ops[b]);
                    if a == b || oa.spec.res != ob.spec.res || oa.spec.kind.class() != Class::In || ob.spec.kind.class() != Class::In {
                        continue;
                    }
                    // one queue per DESCRIPTOR: readers on dup()ed descriptors of one stream are
                    // in different queues, and which of them a readiness event serves is the OS's
                    if oa.fd_id != ob.fd_id {
                        continue;
                    }
                    let (Some((pa, _)), Some((pb, _))) = (oa.piece, ob.piece) else { continue };
                    let sa = oa.ids.iter().filter_map(|id| self.ids[id].submit).min();
                    let sb = ob.ids.iter().filter_map(|id| self.ids[id].submit).min();
                    let (Some(sa), Some(sb)) = (sa, sb) else { continue };
                    let stamp_b = self.write_stamps[ob.spec.res as usize].iter().rev().find(|(off, _)| *off <= pb).map(|x| x.1);
                    if sa < sb && pb < pa && stamp_b.is_some_and(|w| sa < w) {
                        let class = format!("poll-fifo:{}", self.opname(a));
                        let msg = format!(
                            "polling driver: op {a} was queued on the descriptor before op {b} and before stream offset {pb} was written, yet op {b} received offset {pb} and op {a} the later offset {pa}"
                        );
                        self.fails.push(Fail { oracle: "result", class, msg });
                    }
                }
            }
        }
        // accepted connections: exactly the first k connections made (listener queue order)
        for r in 0..self.ress.len() {
            if let ResKind::Listener { accepted, clients, .. } = &self.ress[r].kind {
                let mut a = accepted.clone();
                a.sort();
                let want: Vec<u8> = (0..a.len() as u8).collect();
                if a != want {
                    let msg = format!("listener {r}: {} connections were made, the accepts returned connections {:?} (expected the first {})", clients.len(), accepted, a.len());
                    self.fail("result", "accept-not-a-prefix".into(), msg);
                }
            }
        }
        // conservation: what the readers did not report is still in the descriptor
        for r in 0..self.ress.len() {
            let readers: Vec<usize> = (0..self.ops.len())
                .filter(|&j| self.ops[j].spec.res as usize == r && self.ops[j].spec.kind.class() == Class::In)
                .collect();
            if readers.is_empty() || readers.iter().any(|&j| self.ops[j].submitted && !self.ops[j].delivered) {
                continue;
            }
            let mut pieces: Vec<(usize, usize)> = readers.iter().filter_map(|&j| self.ops[j].piece).collect();
            pieces.sort();
            let mut pos = 0;
            let mut ok = true;
            for (p, l) in &pieces {
                if *p != pos {
                    ok = false;
                }
                pos = p + l;
            }
            if let ResKind::Stream { obs, written, .. } = &self.ress[r].kind {
                let mut rest = vec![0u8; 256];
                let n = unsafe { libc::recv(obs.as_raw_fd(), rest.as_mut_ptr() as _, rest.len(), libc::MSG_DONTWAIT | libc::MSG_PEEK) };
                let n = if n < 0 {
                    // pipes: not a socket
                    readable_bytes(obs.as_raw_fd()) as isize
                } else {
                    n
                };
                let left = n.max(0) as usize;
                if !ok || pos + left != written.len() {
                    let msg = format!(
                        "resource {r}: peer wrote {} bytes, readers reported pieces {:?}, {} bytes are still unread in the descriptor",
                        written.len(),
                        pieces,
                        left
                    );
                    self.fail("result", "stream-not-conserved".into(), msg);
                }
            }
        }
        self.teardown();
    }

    // --------------------------------------------------------------------------------------
    // teardown + C01 oracle
    // --------------------------------------------------------------------------------------

    pub fn teardown(&mut self) {
        if self.torn_down {
            return;
        }
        self.torn_down = true;
        self.collect();
        self.teardown_seq = Some(verif::next_seq());
        self.teardown_step = self.step_idx;
        // 1. the runtime goes first ...
        drop(self.rt.take());
        self.collect();
        // 2. ... then whatever the program still holds: futures / join handles, tokens
        for i in 0..self.ops.len() {
            drop(self.ops[i].holder.take());
            drop(self.ops[i].token.take());
        }
        self.collect();
        // 3. the harness' own descriptor handles
        for r in self.ress.iter_mut() {
            r.fd = None;
        }
        self.dup_fds.clear();
        // 4. let every pool job run to its end
        for r in &self.ress {
            if let ResKind::Gate(g) = &r.kind {
                g.open();
            }
        }
        self.settle_pool();
        // 5. a pool job that outlived the runtime releases what is left (its own completion
        //    entry, and the completion queue it kept alive) on the pool thread: wait for that
        let td = self.teardown_seq.unwrap();
        let _ = td;
        // (also a job that left before the teardown but whose completion entry the driver never
        // received: the pool thread may still be between "done" and "send")
        // (also when every job is done: a pool thread that is still inside the tail of its closure
        // keeps the completion queue alive, and whatever sits in it is then released there)
        let late_job = self.ids.values().any(|s| s.pool_submit.is_some());
        if late_job {
            let deadline = Instant::now() + Duration::from_millis(3000);
            loop {
                self.collect();
                let missing = (0..self.ops.len()).any(|i| {
                    let o = &self.ops[i];
                    o.submitted
                        && (o.ids.iter().any(|id| self.ids[id].frees.is_empty())
                            || (!matches!(o.spec.kind, Kind::Accept | Kind::Multi)
                                && !self.trace.iter().any(|t| matches!(t.ev, Ev::Har(HKind::BufDrop(b)) if b == o.buf_id))))
                });
                if !missing || Instant::now() > deadline {
                    break;
                }
                std::thread::sleep(Duration::from_micros(50));
            }
        }
        self.collect();
        set_pool_sink(None);
        let bad = self.sink.check_and_release();
        if !bad.is_empty() {
            self.fail("lifetime", "write-into-released-buffer".into(), format!("canary of released block(s) {bad:?} was overwritten after the release"));
        }
        self.trace.sort_by_key(|t| t.seq);
        self.lifetime_oracle();
    }

    /// could the FINAL completion of operation `i` sit in the completion queue when the driver
    /// is dropped? (intermediate "more" completions do not count: the operation is still armed)
    fn op_is_cqe_possible(&self, i: usize) -> bool {
        let o = &self.ops[i];
        let port_ready = self.prog.port_of(i).map(|p| self.port_ready[p] > 0).unwrap_or(false);
        let cancelled = o.cancel_step.is_some() && o.harvest_after_cancel;
        match o.spec.kind {
            // a multishot receive ends only through cancellation (or an error)
            Kind::Multi => cancelled,
            Kind::File => true,
            // zero-copy: the notification follows the peer's acknowledgement (port made ready)
            _ => port_ready || cancelled,
        }
    }

    fn lifetime_oracle(&mut self) {
        let uring = self.cfg.is_uring();
        let td = self.teardown_seq.unwrap_or(u64::MAX);
        let mut fails = Vec::new();
        // a future that was leaked by `guard_held_storage` keeps the driver alive (it owns a handle
        // to it): nothing is torn down then, and what stays allocated is the harness' doing
        let driver_leaked = self.ops.iter().any(|o| o.poisoned);
        // release events per operation
        let mut buf_drops: BTreeMap<u32, Vec<u64>> = BTreeMap::new();
        let mut fd_closes: BTreeMap<u32, Vec<u64>> = BTreeMap::new();
        for t in &self.trace {
            match &t.ev {
                Ev::Har(HKind::BufDrop(b)) => buf_drops.entry(*b).or_default().push(t.seq),
                Ev::Har(HKind::FdClose(f)) => fd_closes.entry(*f).or_default().push(t.seq),
                Ev::Har(HKind::BufOverrun(b)) => fails.push(Fail {
                    oracle: "lifetime",
                    class: "buffer-overrun".into(),
                    msg: format!("red zone behind buffer {b} was overwritten"),
                }),
                _ => {}
            }
        }
        for (i, o) in self.ops.iter().enumerate() {
            let name = self.opname(i);
            if !o.submitted {
                continue;
            }
            let cancel_seq_step = o.cancel_step;
            for id in &o.ids {
                let s = &self.ids[id];
                let mut releases: Vec<(&'static str, u64)> = Vec::new();
                for f in &s.frees {
                    releases.push(("operation storage freed", *f));
                }
                for d in buf_drops.get(&o.buf_id).into_iter().flatten() {
                    releases.push(("buffer dropped", *d));
                }
                let has_fd = !matches!(o.spec.kind, Kind::Job);
                if has_fd {
                    for c in fd_closes.get(&o.fd_id).into_iter().flatten() {
                        releases.push(("descriptor closed", *c));
                    }
                }
                let fin = s.finals.first().copied();
                for (what, seq) in &releases {
                    let what = *what;
                    let seq = *seq;
                    if let Some(ps) = s.pool_submit {
                        if seq < ps {
                            continue;
                        }
                        match s.leave {
                            Some(l) if seq > l => {}
                            _ => {
                                let phase = if s.enter.is_some_and(|e| seq > e) { "while the pool thread was running it" } else { "before the pool thread ran it" };
                                fails.push(Fail {
                                    oracle: "lifetime",
                                    class: format!("released-during-pool-job:{name}"),
                                    msg: format!("op {i} ({name}): {what} {phase} (PoolSubmit@{ps} release@{seq} PoolLeave@{:?})", s.leave),
                                });
                            }
                        }
                        continue;
                    }
                    let Some(sub) = s.submit else { continue };
                    if seq < sub {
                        continue;
                    }
                    if fin.is_some_and(|f| f < seq) {
                        continue;
                    }
                    if uring {
                        if self.ring_closed.is_some_and(|r| r < seq) {
                            continue;
                        }
                        // Driver::drop first drains completions that already sit in the queue
                        if seq > td && self.op_is_cqe_possible(i) {
                            continue;
                        }
                        fails.push(Fail {
                            oracle: "lifetime",
                            class: format!("released-before-final:{name}"),
                            msg: format!(
                                "op {i} ({name}) was handed to io_uring (Submit@{sub}) and {what} @{seq} before its final completion ({:?}) and before the ring was closed ({:?})",
                                fin, self.ring_closed
                            ),
                        });
                    } else {
                        // readiness driver: the OS holds nothing between syscalls; the release is
                        // legitimate once the submitter gave the operation up or the runtime goes
                        let step_of = self.trace.iter().find(|t| t.seq == seq).map(|t| t.step).unwrap_or(u32::MAX);
                        let given_up = cancel_seq_step.is_some_and(|c| c <= step_of) || seq > td;
                        if !given_up {
                            fails.push(Fail {
                                oracle: "lifetime",
                                class: format!("released-while-awaited:{name}"),
                                msg: format!("op {i} ({name}) is registered with the poller (Submit@{sub}), still awaited, and {what} @{seq} before its final completion"),
                            });
                        }
                    }
                }
                // exactly once
                if s.frees.len() > 1 {
                    fails.push(Fail {
                        oracle: "lifetime",
                        class: format!("double-free:{name}"),
                        msg: format!("operation storage of op {i} freed {} times", s.frees.len()),
                    });
                }
                if s.frees.is_empty() && !driver_leaked {
                    fails.push(Fail {
                        oracle: "lifetime",
                        class: format!("leak:{name}"),
                        msg: format!("operation storage of op {i} ({name}) was never freed"),
                    });
                }
                if s.finals.len() > 1 {
                    fails.push(Fail {
                        oracle: "hooks",
                        class: format!("final-twice:{name}"),
                        msg: format!("op {i} got {} final completions", s.finals.len()),
                    });
                    // every final completion re-materialises (and then drops) the reference the
                    // driver leaked into the kernel at submit: two of them release it twice, and
                    // the first cannot have been the OS's last word about the operation
                    fails.push(Fail {
                        oracle: "lifetime",
                        class: format!("kernel-reference-reclaimed-twice:{name}"),
                        msg: format!(
                            "op {i} ({name}): the driver took {} completions for the final one (@{:?}; intermediate @{:?}): the reference held for the kernel was released more than once, and whatever was released after the first (frees @{:?}) was released before the OS's last completion",
                            s.finals.len(), s.finals, s.multis, s.frees
                        ),
                    });
                }
            }
            let nd = buf_drops.get(&o.buf_id).map(|v| v.len()).unwrap_or(0);
            if nd != 1 && !(nd == 0 && driver_leaked) && !matches!(o.spec.kind, Kind::Accept | Kind::Multi) {
                fails.push(Fail {
                    oracle: "lifetime",
                    class: format!("{}:{name}", if nd == 0 { "buffer-leak" } else { "buffer-double-drop" }),
                    msg: format!("buffer of op {i} ({name}) was dropped {nd} times by the end of the execution"),
                });
            }
        }
        for r in &self.ress {
            if matches!(r.kind, ResKind::Gate(_)) {
                continue;
            }
            let nc = fd_closes.get(&r.fd_id).map(|v| v.len()).unwrap_or(0);
            if nc != 1 && !(nc == 0 && driver_leaked) {
                fails.push(Fail {
                    oracle: "lifetime",
                    class: if nc == 0 { "descriptor-leak".into() } else { "descriptor-double-close".into() },
                    msg: format!("descriptor handle {} was closed {nc} times by the end of the execution", r.fd_id),
                });
            }
        }
        for (i, o) in self.ops.iter().enumerate() {
            if !o.spec.dup {
                continue;
            }
            let nc = fd_closes.get(&o.fd_id).map(|v| v.len()).unwrap_or(0);
            if nc != 1 && !(nc == 0 && driver_leaked) {
                fails.push(Fail {
                    oracle: "lifetime",
                    class: if nc == 0 { "descriptor-leak".into() } else { "descriptor-double-close".into() },
                    msg: format!("the dup()ed descriptor handle {} of op {i} was closed {nc} times by the end of the execution", o.fd_id),
                });
            }
        }
        // managed buffer pool: its buffers are unregistered and released by Proactor::drop before
        // the ring is closed (counted, not judged: an armed multishot receive holds no buffer
        // between completions and cannot select one after the unregistration)
        if uring {
            let armed = self.ops.iter().any(|o| o.spec.kind == Kind::Multi && o.ids.iter().any(|id| self.ids[id].submit.is_some() && self.ids[id].finals.is_empty()));
            let early = self.trace.iter().any(|t| matches!(t.ev, Ev::Har(HKind::PoolFree(_))) && self.ring_closed.is_none_or(|r| t.seq < r));
            if armed && early {
                self.reached.push("pool_buffers_released_before_ring_closed_with_armed_multishot");
            }
        }
        // vacuity markers
        if uring {
            let late = self.ids.values().any(|s| s.submit.is_some() && s.finals.is_empty() && s.frees.iter().any(|f| self.ring_closed.is_some_and(|r| *f > r)));
            if late {
                self.reached.push("inflight_op_freed_after_ring_closed");
            }
        }
        if self.ids.values().any(|s| s.pool_submit.is_some() && s.leave.is_some_and(|l| l > td)) {
            self.reached.push("pool_job_running_at_teardown");
        }
        if self.ids.values().any(|s| s.submit.is_some() && !s.finals.is_empty()) && self.ops.iter().any(|o| o.cancel_step.is_some() && o.harvest_after_cancel) {
            self.reached.push("cancelled_op_finalized");
        }
        self.fails.extend(fails);
    }

    /// compact class of the execution: configuration + how every operation ended
    pub fn signature(&self) -> String {
        let mut parts = vec![self.cfg.name()];
        for (i, o) in self.ops.iter().enumerate() {
            let has_final = o.ids.iter().any(|id| !self.ids[id].finals.is_empty());
            let st = if !o.submitted {
                "-".to_string()
            } else if o.poisoned {
                "storage-freed-while-held".into()
            } else if o.delivered {
                self.result_class[i].clone()
            } else if o.cancel_step.is_some() {
                if has_final { "cancelled+final".into() } else { "cancelled-inflight".into() }
            } else if has_final {
                "held+final".into()
            } else if o.ids.iter().any(|id| self.ids[id].submit.is_some() || self.ids[id].pool_submit.is_some()) {
                "held-inflight".into()
            } else {
                "held".into()
            };
            parts.push(format!("{}:{}", self.opname(i), st));
        }
        parts.join("|")
    }

    /// after a panic of the code under test: releases what belongs to the harness (pool jobs
    /// blocked on a gate, the allocator sink) and leaks the rest without running any destructor
    pub fn abandon(self) {
        for r in &self.ress {
            if let ResKind::Gate(g) = &r.kind {
                g.open();
            }
        }
        set_pool_sink(None);
        std::mem::forget(self);
    }

    pub fn finish(&mut self) {
        if !self.torn_down {
            self.step_idx += 1;
            match self.prop {
                Prop::C01 => {
                    self.teardown();
                    self.push_obs("(end) Teardown".to_string());
                }
                Prop::C02 => {
                    self.steps.push(Step::Stop);
                    self.epilogue();
                    self.steps.pop();
                    self.push_obs("(end) Epilogue+Teardown".to_string());
                }
            }
        }
    }
}

impl Drop for World<'_> {
    fn drop(&mut self) {
        if !self.torn_down {
            // unwinding: release what we can without running oracles
            for r in &self.ress {
                if let ResKind::Gate(g) = &r.kind {
                    g.open();
                }
            }
            set_pool_sink(None);
        }
    }
}
