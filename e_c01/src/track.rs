//! Instrumented resources: buffers that log their drop and are quarantined instead of freed,
//! descriptor handles that log their close, a buffer-pool allocator that logs and quarantines.
//! All stamps come from `compio_driver::verif::next_seq()`, the sequence the driver hooks use.
use std::{
    cell::RefCell,
    mem::MaybeUninit,
    os::fd::{AsFd, BorrowedFd, OwnedFd},
    ptr::NonNull,
    sync::{Arc, Mutex},
};

use compio_buf::{IoBuf, IoBufMut, SetLen};
use compio_driver::{BufferAllocator, verif};

pub const FILL: u8 = 0xEE; // content of a fresh buffer (never part of a payload)
pub const RED: u8 = 0xCD; // red zone behind the capacity
pub const CANARY: u8 = 0xA5; // content of a released (quarantined) block
pub const REDLEN: usize = 8;

#[derive(Clone, Copy, Debug, PartialEq, Eq)]
pub enum HKind {
    BufDrop(u32),
    /// red zone of a buffer was damaged when it was dropped
    BufOverrun(u32),
    FdClose(u32),
    PoolAlloc(usize),
    PoolFree(usize),
}

#[derive(Clone, Copy, Debug)]
pub struct HEvent {
    pub seq: u64,
    pub kind: HKind,
}

struct Block {
    ptr: usize,
    size: usize,
    /// buffer id, or usize::MAX for pool blocks
    id: usize,
}

/// Per-sequence sink of harness events (shared with pool threads through the resources).
#[derive(Default)]
pub struct Sink {
    events: Mutex<Vec<HEvent>>,
    quarantine: Mutex<Vec<Block>>,
}

impl Sink {
    pub fn new() -> Arc<Self> {
        Arc::new(Self::default())
    }

    pub fn log(&self, kind: HKind) {
        let seq = verif::next_seq();
        self.events.lock().unwrap().push(HEvent { seq, kind });
    }

    pub fn take(&self) -> Vec<HEvent> {
        std::mem::take(&mut *self.events.lock().unwrap())
    }

    /// Re-checks every quarantined block, frees them, returns the ids of damaged blocks.
    pub fn check_and_release(&self) -> Vec<String> {
        let mut bad = Vec::new();
        for b in self.quarantine.lock().unwrap().drain(..) {
            let s = unsafe { std::slice::from_raw_parts(b.ptr as *const u8, b.size) };
            if let Some(pos) = s.iter().position(|&x| x != CANARY) {
                bad.push(if b.id == usize::MAX {
                    format!("pool-block@{pos}")
                } else {
                    format!("buf{}@{pos}", b.id)
                });
            }
            unsafe {
                drop(Vec::from_raw_parts(b.ptr as *mut u8, b.size, b.size));
            }
        }
        bad
    }
}

impl Drop for Sink {
    fn drop(&mut self) {
        // blocks released after the end-of-sequence check (late drops) are simply freed
        for b in self.quarantine.get_mut().unwrap().drain(..) {
            unsafe {
                drop(Vec::from_raw_parts(b.ptr as *mut u8, b.size, b.size));
            }
        }
    }
}

fn alloc_block(size: usize, fill: u8) -> usize {
    let mut v = vec![fill; size];
    v.shrink_to_fit();
    assert_eq!(v.capacity(), size);
    let p = v.as_mut_ptr() as usize;
    std::mem::forget(v);
    p
}

/// A heap block of `cap` bytes (+ red zone) with `len` initialized bytes.
pub struct TrackedBuf {
    pub id: u32,
    ptr: usize,
    len: usize,
    cap: usize,
    sink: Arc<Sink>,
}

unsafe impl Send for TrackedBuf {}
unsafe impl Sync for TrackedBuf {}

impl TrackedBuf {
    /// receive buffer: nothing initialized, capacity `cap`
    pub fn recv(id: u32, cap: usize, sink: &Arc<Sink>) -> Self {
        let ptr = alloc_block(cap + REDLEN, FILL);
        unsafe { std::ptr::write_bytes((ptr + cap) as *mut u8, RED, REDLEN) };
        Self {
            id,
            ptr,
            len: 0,
            cap,
            sink: sink.clone(),
        }
    }

    /// send buffer holding `data`
    pub fn send(id: u32, data: &[u8], sink: &Arc<Sink>) -> Self {
        let mut b = Self::recv(id, data.len(), sink);
        unsafe { std::ptr::copy_nonoverlapping(data.as_ptr(), b.ptr as *mut u8, data.len()) };
        b.len = data.len();
        b
    }

    /// all `cap` bytes of the block, whatever the length says (the raw operations do not
    /// advance the length)
    pub fn raw(&self) -> &[u8] {
        unsafe { std::slice::from_raw_parts(self.ptr as *const u8, self.cap) }
    }

    pub fn raw_mut(&mut self) -> &mut [u8] {
        unsafe { std::slice::from_raw_parts_mut(self.ptr as *mut u8, self.cap) }
    }
}

impl Drop for TrackedBuf {
    fn drop(&mut self) {
        let red = unsafe { std::slice::from_raw_parts((self.ptr + self.cap) as *const u8, REDLEN) };
        if red.iter().any(|&x| x != RED) {
            self.sink.log(HKind::BufOverrun(self.id));
        }
        unsafe { std::ptr::write_bytes(self.ptr as *mut u8, CANARY, self.cap + REDLEN) };
        self.sink.log(HKind::BufDrop(self.id));
        self.sink.quarantine.lock().unwrap().push(Block {
            ptr: self.ptr,
            size: self.cap + REDLEN,
            id: self.id as usize,
        });
    }
}

impl IoBuf for TrackedBuf {
    fn as_init(&self) -> &[u8] {
        unsafe { std::slice::from_raw_parts(self.ptr as *const u8, self.len) }
    }
}

impl SetLen for TrackedBuf {
    unsafe fn set_len(&mut self, len: usize) {
        assert!(len <= self.cap);
        self.len = len;
    }
}

impl IoBufMut for TrackedBuf {
    fn as_uninit(&mut self) -> &mut [MaybeUninit<u8>] {
        unsafe { std::slice::from_raw_parts_mut(self.ptr as *mut MaybeUninit<u8>, self.cap) }
    }
}

struct FdInner {
    id: u32,
    fd: Option<OwnedFd>,
    sink: Arc<Sink>,
}

impl Drop for FdInner {
    fn drop(&mut self) {
        self.sink.log(HKind::FdClose(self.id));
        drop(self.fd.take());
    }
}

/// Shared descriptor handle; the descriptor is closed (and the close logged) when the last
/// clone goes away.
#[derive(Clone)]
pub struct TrackedFd(Arc<FdInner>);

impl TrackedFd {
    pub fn new(id: u32, fd: OwnedFd, sink: &Arc<Sink>) -> Self {
        Self(Arc::new(FdInner {
            id,
            fd: Some(fd),
            sink: sink.clone(),
        }))
    }

}

impl AsFd for TrackedFd {
    fn as_fd(&self) -> BorrowedFd<'_> {
        self.0.fd.as_ref().unwrap().as_fd()
    }
}

thread_local! {
    /// sink the buffer-pool allocator of this (runtime) thread logs into
    static POOL_SINK: RefCell<Option<Arc<Sink>>> = const { RefCell::new(None) };
}

pub fn set_pool_sink(s: Option<Arc<Sink>>) {
    POOL_SINK.with(|p| *p.borrow_mut() = s);
}

/// Allocator for the driver's managed buffer pool: logs, and quarantines instead of freeing.
pub struct PoolAlloc;

impl BufferAllocator for PoolAlloc {
    fn allocate(len: u32) -> NonNull<MaybeUninit<u8>> {
        let p = alloc_block(len as usize, FILL);
        POOL_SINK.with(|s| {
            if let Some(s) = s.borrow().as_ref() {
                s.log(HKind::PoolAlloc(p));
            }
        });
        NonNull::new(p as *mut MaybeUninit<u8>).unwrap()
    }

    unsafe fn deallocate(ptr: NonNull<MaybeUninit<u8>>, len: u32) {
        let p = ptr.as_ptr() as usize;
        unsafe { std::ptr::write_bytes(p as *mut u8, CANARY, len as usize) };
        let done = POOL_SINK.with(|s| {
            if let Some(s) = s.borrow().as_ref() {
                s.log(HKind::PoolFree(p));
                s.quarantine.lock().unwrap().push(Block {
                    ptr: p,
                    size: len as usize,
                    id: usize::MAX,
                });
                true
            } else {
                false
            }
        });
        if !done {
            unsafe { drop(Vec::from_raw_parts(p as *mut u8, len as usize, len as usize)) };
        }
    }
}
