//! e_c01 — real-kernel operation-sequence explorer for C01 (in-flight operations keep their
//! memory and descriptors alive) and C02 (every operation completes exactly once, with its own
//! result). See DESIGN.md §2 C01 / C02.
mod model;
mod track;
mod world;

use std::{
    collections::BTreeMap,
    path::{Path, PathBuf},
    sync::{
        Mutex,
        atomic::{AtomicBool, AtomicU64, Ordering},
    },
    time::Duration,
};

use compio_driver::{AsyncifyPool, DriverType};
use model::*;
use vcore::{Report, Tier, Value, Violation, json};
use world::{Env, Fail, STUCK_SEEN, World};

// ------------------------------------------------------------------------------------------
// program lists
// ------------------------------------------------------------------------------------------

fn p(s: &str, max_ready: u8) -> Program {
    Program::parse(s, max_ready).unwrap_or_else(|| vcore::machinery_error(&format!("bad program {s}")))
}

fn programs(prop: Prop, tier: Tier) -> Vec<Program> {
    let mut v = Vec::new();
    match prop {
        Prop::C01 => {
            // every kind alone in every awaiting mode
            for k in ["recv", "read", "accept", "job", "file"] {
                for m in ["d", "t", "c"] {
                    v.push(p(&format!("{k}.{m}@0"), 1));
                }
            }
            // pairs: shared descriptors, pool + ring mixes, different awaiting modes
            for s in [
                "recv.d@0+recv.d@0",
                "recv.d@0+job.d@1",
                "read.t@0+accept.c@1",
                "job.t@0+file.d@1",
                "recv.c@0+recv.t@1",
                "accept.d@0+accept.d@0",
                "job.d@0+job.c@1",
                "file.t@0+read.d@1",
                "recv.t@0+recv.t@0",
                "job.c@0+recv.c@1",
            ] {
                v.push(p(s, 1));
            }
            if tier == Tier::Thorough {
                for s in [
                    "read.d@0+read.d@0",
                    "accept.t@0+job.t@1",
                    "file.c@0+file.c@0",
                    "recv.d@0+read.c@1",
                    "job.d@0+job.d@0",
                    "accept.c@0+recv.d@1",
                    "file.d@0+job.t@1",
                    "read.t@0+read.c@0",
                ] {
                    v.push(p(s, 1));
                }
            }
        }
        Prop::C02 => {
            for s in [
                // which result went where: three of a kind on distinct descriptors
                "recv.d@0+recv.d@1+recv.d@2",
                // one descriptor, several readers (per-descriptor FIFO on the polling driver)
                "recv.d@0+recv.d@0+recv.d@0",
                // two readers plus a writer on one descriptor
                "recv.d@0+recv.d@0+send.d@0",
                "recv.d@0+read.d@1+accept.d@2",
                "job.d@0+recv.d@1+file.d@2",
                "job.d@0+job.d@1+job.d@2",
                "accept.d@0+accept.d@0+recv.d@1",
                "read.t@0+job.t@1+recv.t@2",
                "file.d@0+file.d@0+read.d@1",
                "send.d@0+recv.t@1+job.d@2",
            ] {
                v.push(p(s, 2));
            }
            if tier == Tier::Thorough {
                for s in [
                    "read.d@0+read.d@0+read.d@0",
                    "recv.t@0+recv.t@0+recv.d@1",
                    "accept.t@0+accept.d@0+accept.d@0",
                    "job.t@0+file.t@1+send.t@2",
                    "recv.c@0+read.c@1+job.c@2",
                ] {
                    v.push(p(s, 2));
                }
            }
        }
    }
    v
}

fn configs() -> Vec<Config> {
    let mut v = Vec::new();
    for driver in [DriverType::IoUring, DriverType::Poll] {
        for cap in [1u32, 2, 8] {
            v.push(Config { driver, cap });
        }
    }
    v
}

// ------------------------------------------------------------------------------------------
// one execution
// ------------------------------------------------------------------------------------------

struct Exec {
    steps: Vec<Step>,
    /// (chosen, alternatives) per choice point
    points: Vec<(u32, u32)>,
    diverged: bool,
    fails: Vec<Fail>,
    obs: Vec<String>,
    reached: Vec<&'static str>,
    sig: String,
    nsteps: u64,
}

fn summarize(w: &World) -> String {
    // compact outcome class of the execution: how each operation ended
    let mut parts = Vec::new();
    for line in w.obs.iter() {
        // keep only the result part of polls/submits
        if let Some((head, rest)) = line.split_once(" -> ") {
            let kind = head.split('(').next().unwrap_or("");
            let res = rest.split([' ', '(']).next().unwrap_or("");
            parts.push(format!("{}{}", &kind[..1], res));
        }
    }
    format!("{}:{}:{}", w.cfg.dname(), w.prog.name(), parts.join(","))
}

fn finish_exec(mut w: World, points: Vec<(u32, u32)>, diverged: bool, panic: Option<String>) -> Exec {
    if let Some(p) = &panic {
        let short: String = p.chars().filter(|c| c.is_ascii_alphanumeric() || *c == ' ').take(48).collect();
        w.fails.push(Fail {
            oracle: "panic",
            class: format!("panic:{}", short.replace(' ', "-")),
            msg: format!("compio panicked: {p}"),
        });
    }
    Exec {
        steps: w.steps.clone(),
        points,
        diverged,
        fails: std::mem::take(&mut w.fails),
        obs: std::mem::take(&mut w.obs),
        reached: std::mem::take(&mut w.reached),
        sig: summarize(&w),
        nsteps: w.steps.len() as u64,
    }
}

/// Runs one execution: follows `prefix` (choice indices into the enabled sets), then always the
/// first enabled step, up to `depth` steps.
fn run_choices(prop: Prop, cfg: Config, prog: &Program, env: &Env, prefix: &[u32], depth: usize) -> Exec {
    let mut w = World::new(prop, cfg, prog, env);
    let mut points = Vec::new();
    let mut diverged = false;
    let r = vcore::catch(|| {
        loop {
            if w.steps.len() >= depth {
                break;
            }
            let en = w.enabled();
            if en.is_empty() {
                break;
            }
            let pos = points.len();
            let c = if pos < prefix.len() { prefix[pos] } else { 0 };
            if c as usize >= en.len() {
                diverged = true;
                break;
            }
            points.push((c, en.len() as u32));
            let s = en[c as usize];
            w.step(s);
            if s.terminal() {
                break;
            }
        }
        w.finish();
    });
    finish_exec(w, points, diverged, r.err())
}

/// Runs exactly `steps`.
fn run_steps(prop: Prop, cfg: Config, prog: &Program, env: &Env, steps: &[Step]) -> Exec {
    let mut w = World::new(prop, cfg, prog, env);
    let mut diverged = false;
    let r = vcore::catch(|| {
        for s in steps {
            if !w.enabled().contains(s) {
                diverged = true;
                break;
            }
            w.step(*s);
            if s.terminal() {
                break;
            }
        }
        w.finish();
    });
    finish_exec(w, Vec::new(), diverged, r.err())
}

// ------------------------------------------------------------------------------------------
// aggregation
// ------------------------------------------------------------------------------------------

struct Found {
    len: usize,
    v: Violation,
    count: u64,
    confirmed: bool,
}

struct Agg {
    found: Mutex<BTreeMap<String, Found>>,
    machinery: Mutex<BTreeMap<String, (u64, String)>>,
    other: AtomicU64,
    diverged: AtomicU64,
    nondet: AtomicU64,
    flaky_stuck: AtomicU64,
    abort: AtomicBool,
}

fn relevant(prop: Prop, oracle: &str) -> bool {
    match prop {
        Prop::C01 => matches!(oracle, "lifetime" | "panic"),
        Prop::C02 => matches!(oracle, "result" | "liveness" | "waker" | "hooks" | "panic"),
    }
}

fn key_of(prop: Prop, cfg: &Config, f: &Fail) -> String {
    format!("{}:{}:{}:{}", prop.name(), cfg.dname(), f.oracle, f.class)
}

#[allow(clippy::too_many_arguments)]
fn record(agg: &Agg, report: &Report, prop: Prop, cfg: Config, prog: &Program, env: &Env, e: &Exec) {
    for f in &e.fails {
        if f.oracle == "machinery" {
            let mut g = agg.machinery.lock().unwrap();
            let ent = g.entry(f.class.clone()).or_insert((0, format!("{} | {} {} {:?}", f.msg, cfg.name(), prog.name(), e.steps.iter().map(|s| s.name()).collect::<Vec<_>>())));
            ent.0 += 1;
            continue;
        }
        if !relevant(prop, f.oracle) {
            agg.other.fetch_add(1, Ordering::Relaxed);
            continue;
        }
        let key = key_of(prop, &cfg, f);
        {
            let mut g = agg.found.lock().unwrap();
            if let Some(old) = g.get_mut(&key) {
                old.count += 1;
                if old.len <= e.steps.len() && old.confirmed {
                    continue;
                }
            }
        }
        // confirm by re-running the same steps
        let mut confirmed = false;
        let tries = if f.oracle == "liveness" { 2 } else { 1 };
        let mut all = true;
        for _ in 0..tries {
            let again = run_steps(prop, cfg, prog, env, &e.steps);
            let same = again.fails.iter().any(|g| key_of(prop, &cfg, g) == key);
            all &= same;
        }
        if all {
            confirmed = true;
        }
        if f.oracle == "liveness" && !confirmed {
            agg.flaky_stuck.fetch_add(1, Ordering::Relaxed);
            continue;
        }
        if f.oracle == "liveness" {
            STUCK_SEEN.fetch_add(1, Ordering::Relaxed);
            if STUCK_SEEN.load(Ordering::Relaxed) > 64 {
                agg.abort.store(true, Ordering::Relaxed);
            }
        }
        let steps: Vec<String> = e.steps.iter().map(|s| s.name()).collect();
        let what = format!(
            "{} | config {} program {} | history: {} | observed: {}{}",
            f.msg,
            cfg.name(),
            prog.name(),
            steps.join(" "),
            e.obs.join(" ; "),
            if confirmed { "" } else { " | (not reproduced on re-run)" }
        );
        let v = Violation {
            key: key.clone(),
            what,
            replay: replay_json(prop, &cfg, prog, &e.steps),
        };
        let mut g = agg.found.lock().unwrap();
        match g.get_mut(&key) {
            Some(old) => {
                if (confirmed && !old.confirmed) || (confirmed == old.confirmed && e.steps.len() < old.len) {
                    old.len = e.steps.len();
                    old.v = v;
                    old.confirmed = confirmed;
                }
            }
            None => {
                g.insert(
                    key,
                    Found {
                        len: e.steps.len(),
                        v,
                        count: 1,
                        confirmed,
                    },
                );
            }
        }
    }
    for r in &e.reached {
        report.count(r, 1);
    }
}

// ------------------------------------------------------------------------------------------
// exploration
// ------------------------------------------------------------------------------------------

struct Item {
    cfg: Config,
    prog: usize,
    prefix: Vec<u32>,
}

fn next_prefix(points: &[(u32, u32)], fixed: usize) -> Option<Vec<u32>> {
    let mut i = points.len();
    while i > fixed {
        i -= 1;
        if points[i].0 + 1 < points[i].1 {
            let mut v: Vec<u32> = points[..i].iter().map(|p| p.0).collect();
            v.push(points[i].0 + 1);
            return Some(v);
        }
    }
    None
}

fn make_tmp() -> PathBuf {
    let base = std::env::var_os("TMPDIR").map(PathBuf::from).unwrap_or_else(|| PathBuf::from("/tmp"));
    let dir = base.join(format!("e_c01-{}", std::process::id()));
    std::fs::create_dir_all(&dir).unwrap_or_else(|e| vcore::machinery_error(&format!("cannot create {dir:?}: {e}")));
    std::fs::write(dir.join("data"), world::file_content()).unwrap_or_else(|e| vcore::machinery_error(&format!("cannot write data file: {e}")));
    dir
}

thread_local! {
    static POOL: AsyncifyPool = AsyncifyPool::new(16, Duration::from_secs(30));
}

fn with_env<R>(file: &Path, f: impl FnOnce(&Env) -> R) -> R {
    POOL.with(|pool| {
        let env = Env {
            pool,
            file_path: file,
        };
        f(&env)
    })
}

fn replay_main(prop: Prop, path: &Path, file: &Path) -> ! {
    let body: Value = serde_json_from(path);
    let r = if body.get("replay").is_some() { &body["replay"] } else { &body };
    let driver = match r["driver"].as_str() {
        Some("iour") => DriverType::IoUring,
        Some("poll") => DriverType::Poll,
        other => vcore::machinery_error(&format!("replay: bad driver {other:?}")),
    };
    let cfg = Config {
        driver,
        cap: r["sq_capacity"].as_u64().unwrap_or(8) as u32,
    };
    let prog = Program::parse(r["program"].as_str().unwrap_or(""), r["max_ready"].as_u64().unwrap_or(1) as u8)
        .unwrap_or_else(|| vcore::machinery_error("replay: bad program"));
    let steps: Vec<Step> = r["steps"]
        .as_array()
        .cloned()
        .unwrap_or_default()
        .iter()
        .map(|s| Step::parse(s.as_str().unwrap_or("")).unwrap_or_else(|| vcore::machinery_error(&format!("replay: bad step {s}"))))
        .collect();
    let e = with_env(file, |env| run_steps(prop, cfg, &prog, env, &steps));
    println!("replay {} on {} program {}", prop.name(), cfg.name(), prog.name());
    for o in &e.obs {
        println!("  {o}");
    }
    if e.diverged {
        println!("  (a recorded step was not enabled: replay diverged)");
    }
    let mut bad = 0;
    for f in &e.fails {
        let rel = relevant(prop, f.oracle);
        println!("  {} [{}] {}: {}", if rel { "VIOLATED" } else { "note" }, f.oracle, f.class, f.msg);
        if rel {
            bad += 1;
        }
    }
    let _ = std::fs::remove_dir_all(file.parent().unwrap());
    if bad > 0 {
        println!("VIOLATION property={} replay={}", prop.name(), path.display());
        std::process::exit(1);
    }
    println!("replay: property held on this execution");
    std::process::exit(0)
}

fn serde_json_from(path: &Path) -> Value {
    let bytes = std::fs::read(path).unwrap_or_else(|e| vcore::machinery_error(&format!("cannot read {path:?}: {e}")));
    vcore::serde_json::from_slice(&bytes).unwrap_or_else(|e| vcore::machinery_error(&format!("replay file does not parse: {e}")))
}

fn main() {
    let args = vcore::parse_args();
    let prop = match args.property.as_str() {
        "C01" => Prop::C01,
        "C02" => Prop::C02,
        other => vcore::machinery_error(&format!("e_c01 serves C01 and C02, not {other}")),
    };
    let tier = args.tier;
    vcore::quiet_panics();
    let tmp = make_tmp();
    let file = tmp.join("data");
    if let Some(r) = &args.replay {
        replay_main(prop, r, &file);
    }

    let report = Report::new(prop.name(), tier);
    let depth: usize = std::env::var("E_C01_DEPTH")
        .ok()
        .and_then(|s| s.parse().ok())
        .unwrap_or(match (prop, tier) {
            (Prop::C01, Tier::Quick) => 6,
            (Prop::C01, Tier::Thorough) => 8,
            (Prop::C02, Tier::Quick) => 7,
            (Prop::C02, Tier::Thorough) => 9,
        });
    let progs = programs(prop, tier);
    let cfgs = configs();
    let wall_cap = Duration::from_secs(tier.pick(40, 840));

    match prop {
        Prop::C01 => {
            report.must_reach("inflight_op_freed_after_ring_closed");
            report.must_reach("pool_job_running_at_teardown");
            report.must_reach("cancelled_op_finalized");
        }
        Prop::C02 => {
            report.must_reach("sq_overflow_completion_during_submit");
            report.must_reach("burst_two_completions_in_one_harvest");
            report.must_reach("two_readers_one_descriptor_delivered");
            report.must_reach("completed_at_submit");
        }
    }

    // work items: every choice prefix of length 2 of every (configuration, program)
    const FIXED: usize = 2;
    let mut items = Vec::new();
    with_env(&file, |env| {
        for cfg in &cfgs {
            for (pi, prog) in progs.iter().enumerate() {
                if prog.uring_only() && !cfg.is_uring() {
                    continue;
                }
                let mut prefix: Vec<u32> = Vec::new();
                loop {
                    let e = run_choices(prop, *cfg, prog, env, &prefix, FIXED);
                    items.push(Item {
                        cfg: *cfg,
                        prog: pi,
                        prefix: e.points.iter().map(|p| p.0).collect(),
                    });
                    match next_prefix(&e.points, 0) {
                        Some(pf) => prefix = pf,
                        None => break,
                    }
                }
            }
        }
    });

    let agg = Agg {
        found: Mutex::new(BTreeMap::new()),
        machinery: Mutex::new(BTreeMap::new()),
        other: AtomicU64::new(0),
        diverged: AtomicU64::new(0),
        nondet: AtomicU64::new(0),
        flaky_stuck: AtomicU64::new(0),
        abort: AtomicBool::new(false),
    };
    let per_cfg: Mutex<BTreeMap<String, u64>> = Mutex::new(BTreeMap::new());
    let capped = AtomicBool::new(false);

    vcore::par_for_each(&items, |_, item| {
        with_env(&file, |env| {
            let prog = &progs[item.prog];
            let fixed = item.prefix.len();
            let mut prefix = item.prefix.clone();
            let mut first = true;
            let mut n = 0u64;
            loop {
                if agg.abort.load(Ordering::Relaxed) || report.elapsed() > wall_cap.as_secs_f64() {
                    capped.store(true, Ordering::Relaxed);
                    break;
                }
                let e = run_choices(prop, item.cfg, prog, env, &prefix, depth);
                if e.diverged {
                    agg.diverged.fetch_add(1, Ordering::Relaxed);
                }
                n += 1;
                report.add_execution(e.nsteps);
                report.outcome(e.sig.clone());
                record(&agg, &report, prop, item.cfg, prog, env, &e);
                if first {
                    first = false;
                    // determinism guard: the same steps give the same observations
                    let again = run_steps(prop, item.cfg, prog, env, &e.steps);
                    if again.obs != e.obs {
                        agg.nondet.fetch_add(1, Ordering::Relaxed);
                        report.sample(8, || json!({"nondeterministic": {"config": item.cfg.name(), "program": prog.name(), "first": e.obs, "second": again.obs}}));
                    } else {
                        report.sample(3, || json!({"config": item.cfg.name(), "program": prog.name(), "observations": e.obs}));
                    }
                }
                match next_prefix(&e.points, fixed) {
                    Some(pf) => prefix = pf,
                    None => break,
                }
            }
            *per_cfg.lock().unwrap().entry(item.cfg.name()).or_insert(0) += n;
        })
    });

    let _ = std::fs::remove_dir_all(&tmp);

    // ---------------------------------------------------------------------------------------
    // report
    // ---------------------------------------------------------------------------------------
    for (_, f) in agg.found.into_inner().unwrap() {
        let mut v = f.v;
        v.what = format!("{} | occurrences in this run: {}", v.what, f.count);
        report.violation(v);
    }
    report.extra(
        "bounds",
        json!({
            "depth": depth,
            "configurations": cfgs.iter().map(|c| c.name()).collect::<Vec<_>>(),
            "programs": progs.iter().map(|p| p.name()).collect::<Vec<_>>(),
            "work_items": items.len(),
            "receive_buffer_capacity": world::CAP,
            "bytes_per_make_ready": world::CHUNK,
        }),
    );
    report.extra("executions_per_configuration", json!(*per_cfg.lock().unwrap()));
    report.count("failures_of_the_other_propertys_oracles_seen", agg.other.load(Ordering::Relaxed));
    report.count("replay_divergences", agg.diverged.load(Ordering::Relaxed));
    report.count("nondeterministic_replays", agg.nondet.load(Ordering::Relaxed));
    report.count("unreproduced_harvest_timeouts", agg.flaky_stuck.load(Ordering::Relaxed));
    report.rule(
        "for every configuration (driver x submission-queue capacity) and every program (2-3 operations with kind, awaiting mode and descriptor sharing fixed) ALL sequences of enabled harness steps up to the depth bound are executed, each on a fresh runtime on the real kernel; states = executions; transitions = harness steps executed; distinct_nontrivial = distinct (configuration, program, per-step result) signatures",
    );
    match prop {
        Prop::C01 => {
            report.assume("closing the io_uring descriptor quiesces in-flight requests before close returns: this is the repository's own assumption (impl Drop for Driver in iour/mod.rs) and is NOT checked; the check verifies that compio orders every release after the final completion or after the ring was closed");
            report.assume("polling driver: between syscalls the OS holds no reference to buffers of readiness-based operations; only the blocking pool is an asynchronous holder there");
            report.assume("completions that already sit in the completion queue when the driver is dropped are drained without being delivered; an operation whose completion was possible at that point (made ready or cancelled+harvested before) may therefore be released inside the teardown step before the ring is closed");
            report.assume("operation storage released by a pool thread after the runtime is gone is logged into that thread's private hook log and cannot be read; the instrumented buffer's drop is the witness in that case");
        }
        Prop::C02 => {
            report.assume("byte counts are validated against the descriptor FIFO (own stream, contiguous from the FIFO head, within capacity); how many of the available bytes one completion takes is the OS's choice");
            report.assume("between two operations pending on ONE descriptor the completion order is not prescribed");
        }
    }
    if capped.load(Ordering::Relaxed) {
        report.cap_hit(&format!("stopped early (wall cap {} s or repeated liveness violations)", wall_cap.as_secs()));
    }
    let nd = agg.nondet.load(Ordering::Relaxed);
    let dv = agg.diverged.load(Ordering::Relaxed);
    if nd > 0 || dv > 0 {
        report.cap_hit(&format!("{nd} determinism-guard mismatches, {dv} enabledness divergences during prefix replay"));
    }
    let mach = agg.machinery.into_inner().unwrap();
    if !mach.is_empty() {
        for (k, (n, ex)) in &mach {
            eprintln!("MACHINERY-ERROR: harness anomaly {k} x{n}: {ex}");
        }
        if report.violation_count() == 0 {
            std::process::exit(2);
        }
    }
    report.finish()
}
