//! e_c01 — real-kernel operation-sequence explorer for C01 (in-flight operations keep their
//! memory and descriptors alive) and C02 (every operation completes exactly once, with its own
//! result). See DESIGN.md §2 C01 / C02.
//!
//! Process layout: the parent computes the work-item list and starts one single-threaded worker
//! process per core (io_uring creation/teardown serializes inside one address space; separate
//! processes scale, and a crash of compio code under test takes down one worker only). Workers
//! claim items from a shared counter, write their partial results to a file; the parent merges.
mod model;
mod track;
mod world;

use std::{
    collections::{BTreeMap, BTreeSet},
    os::fd::AsRawFd,
    path::{Path, PathBuf},
    sync::atomic::{AtomicU64, Ordering},
    time::{Duration, Instant},
};

use compio_driver::{AsyncifyPool, DriverType};
use model::*;
use vcore::{Report, Tier, Value, Violation, json};
use world::{Env, Fail, STUCK_SEEN, World};

// ------------------------------------------------------------------------------------------
// program lists
// ------------------------------------------------------------------------------------------

fn p(s: &str, max_ready: u8) -> Program {
    Program::parse(s, max_ready)
        .unwrap_or_else(|| vcore::machinery_error(&format!("bad program {s}")))
}

fn programs(prop: Prop, tier: Tier) -> Vec<Program> {
    let mut v = Vec::new();
    match prop {
        Prop::C01 => {
            // every kind alone in every awaiting mode
            for k in ["recv", "read", "accept", "job", "file"] {
                for m in ["d", "t", "c"] {
                    v.push(p(&format!("{k}.{m}@0"), 1));
                }
            }
            // pairs: shared descriptors, pool + ring mixes, different awaiting modes
            for s in [
                "recv.d@0+recv.d@0",
                "recv.d@0+job.d@1",
                "read.t@0+accept.d@1",
                "job.t@0+file.d@1",
                "accept.d@0+accept.d@0",
                "job.d@0+job.c@1",
                "file.t@0+read.d@1",
                "recv.t@0+recv.t@0",
                // io_uring only: multishot receive with the buffer pool, zero-copy send
                "multi.d@0",
                "multi.c@0",
                "zc.d@0",
                "zc.c@0",
                "multi.d@0+job.d@1",
                "zc.d@0+recv.d@1",
                // io_uring only: zero-copy sends that FAIL at send time (write side shut down,
                // peer reset, unix socket): the kernel still posts two completions, the error
                // flagged "more" and then the release notification
                "zcerr.d@0",
                "zcerr.t@0",
                "zcerr.c@0",
                "zcrst.d@0",
                "zcux.t@0",
                "zcerr.d@0+recv.d@1",
                "zcerr.t@0+zcrst.c@1",
            ] {
                v.push(p(s, 1));
            }
            if tier == Tier::Thorough {
                for s in [
                    "read.t@0+accept.c@1",
                    "recv.c@0+recv.t@1",
                    "job.c@0+recv.c@1",
                    "read.d@0+read.d@0",
                    "accept.t@0+job.t@1",
                    "file.c@0+file.c@0",
                    "recv.d@0+read.c@1",
                    "job.d@0+job.d@0",
                    "accept.c@0+recv.d@1",
                    "file.d@0+job.t@1",
                    "read.t@0+read.c@0",
                    "zcrst.t@0",
                    "zcrst.c@0",
                    "zcux.d@0",
                    "zcux.c@0",
                    "zcrst.d@0+zcrst.d@0",
                    "zcerr.t@0+zcerr.c@0",
                    "zcrst.c@0+zcux.d@1",
                    "recv.t@0+zcrst.c@1",
                    "zcux.c@0+job.d@1",
                    "zc.d@0+zcerr.d@1",
                    "multi.d@0+zcerr.c@1",
                    "accept.d@0+zcrst.t@1",
                    "recv.d@0+recv.t@0x",
                    "read.h@0+job.h@1",
                ] {
                    v.push(p(s, 1));
                }
            }
        }
        Prop::C02 => {
            // (program, how often an In port may be made ready in the quick tier)
            for (s, mr) in [
                // which result went where: three of a kind on distinct descriptors
                ("recv.d@0+recv.d@1+recv.d@2", 1),
                // one descriptor, several readers (per-descriptor FIFO on the polling driver)
                ("recv.d@0+recv.d@0+recv.d@0", 2),
                // two readers plus a writer on one descriptor
                ("recv.d@0+recv.d@0+send.d@0", 2),
                ("recv.d@0+read.d@1+accept.d@2", 1),
                ("job.d@0+recv.d@1+file.d@2", 2),
                ("job.d@0+job.d@1+job.d@2", 1),
                ("accept.d@0+accept.d@0+recv.d@1", 1),
                ("read.t@0+job.t@1+recv.t@2", 1),
                ("file.d@0+file.d@0+read.d@1", 2),
                // io_uring only: multishot receive, zero-copy send
                ("multi.d@0+recv.d@1", 2),
                ("zc.d@0+recv.d@1", 1),
                // io_uring only: zero-copy sends that fail at send time (error, then notification)
                ("zcerr.d@0+recv.d@1", 1),
                ("zcerr.t@0+zcrst.d@1", 1),
                // two readers on two descriptors that are dup()s of ONE socket / pipe end: a chunk
                // wakes both, one takes it, the other comes back empty-handed and must be served
                // by the next chunk
                ("recv.d@0+recv.d@0x", 2),
                ("read.d@0x+read.t@0x", 2),
                // probe-polled by hand once, then handed over to a spawned task
                ("recv.h@0+job.h@1", 1),
            ] {
                v.push(p(s, if tier == Tier::Thorough { 2 } else { mr }));
            }
            if tier == Tier::Thorough {
                for s in [
                    "multi.d@0+recv.d@1+job.d@2",
                    "zc.d@0+recv.d@1+recv.d@2",
                    "send.d@0+recv.t@1+job.d@2",
                    "read.d@0+read.d@0+read.d@0",
                    "recv.t@0+recv.t@0+recv.d@1",
                    "accept.t@0+accept.d@0+accept.d@0",
                    "job.t@0+file.t@1+send.t@2",
                    "recv.c@0+read.c@1+job.c@2",
                    "multi.c@0+zc.d@1+recv.d@2",
                    "zcerr.d@0+zcerr.d@0+recv.d@1",
                    "zcux.t@0+recv.d@1+zcrst.c@2",
                    "zc.d@0+zcerr.t@1",
                    "recv.d@0+recv.d@0x+recv.d@0",
                    "read.d@0+read.d@0x+recv.t@1",
                    "recv.h@0+recv.d@0x",
                    "read.h@0+file.h@1+accept.h@2",
                ] {
                    v.push(p(s, 2));
                }
            }
        }
    }
    if let Ok(f) = std::env::var("E_C01_PROG") {
        v.retain(|p| p.name().contains(&f));
    }
    v
}

fn configs() -> Vec<Config> {
    let mut v = Vec::new();
    for driver in [DriverType::IoUring, DriverType::Poll] {
        for cap in [1u32, 2, 8] {
            v.push(Config { driver, cap });
        }
    }
    if let Ok(f) = std::env::var("E_C01_CFG") {
        v.retain(|c| c.name().contains(&f));
    }
    v
}

/// depth bound; `nops` = number of operations of the program (a single operation is explored
/// deeper: its sequences are few)
fn depth_of(prop: Prop, tier: Tier, nops: usize) -> usize {
    std::env::var("E_C01_DEPTH")
        .ok()
        .and_then(|s| s.parse().ok())
        .unwrap_or(match (prop, tier, nops) {
            (Prop::C01, Tier::Quick, 1) => 7,
            (Prop::C01, Tier::Quick, _) => 6,
            (Prop::C01, Tier::Thorough, 1) => 9,
            (Prop::C01, Tier::Thorough, _) => 7,
            (Prop::C02, Tier::Quick, _) => 6,
            (Prop::C02, Tier::Thorough, _) => 7,
        })
}

// ------------------------------------------------------------------------------------------
// one execution
// ------------------------------------------------------------------------------------------

struct Exec {
    steps: Vec<Step>,
    /// (chosen, alternatives) per choice point
    points: Vec<(u32, u32)>,
    diverged: bool,
    fails: Vec<Fail>,
    obs: Vec<String>,
    reached: Vec<&'static str>,
    sig: String,
}

fn finish_exec(mut w: World, points: Vec<(u32, u32)>, diverged: bool, panic: Option<String>) -> Exec {
    if let Some(p) = panic.as_ref().filter(|p| p.starts_with("harness")) {
        w.fails.push(Fail {
            oracle: "machinery",
            class: "harness-panic".into(),
            msg: p.clone(),
        });
    } else if let Some(p) = &panic {
        let short: String = p
            .chars()
            .filter(|c| c.is_ascii_alphanumeric() || *c == ' ')
            .take(48)
            .collect();
        w.fails.push(Fail {
            oracle: "panic",
            class: format!("panic:{}", short.replace(' ', "-")),
            msg: format!("compio panicked: {p}"),
        });
    }
    let sig = w.signature();
    let e = Exec {
        steps: w.steps.clone(),
        points,
        diverged,
        sig,
        fails: std::mem::take(&mut w.fails),
        obs: std::mem::take(&mut w.obs),
        reached: std::mem::take(&mut w.reached),
    };
    if panic.as_ref().is_some_and(|p| !p.starts_with("harness")) {
        // compio panicked in the middle of a step: its runtime, futures and tokens are in an
        // unknown state, and running their destructors here (outside `catch`) could panic again
        // and take the worker down with a verdict-less exit; they are leaked instead
        w.abandon();
    }
    e
}

/// Runs one execution: follows `prefix` (choice indices into the enabled sets), then always the
/// first enabled step, up to `depth` steps.
fn run_choices(
    prop: Prop,
    cfg: Config,
    prog: &Program,
    env: &Env,
    prefix: &[u32],
    depth: usize,
    cur: Option<&Current>,
) -> Exec {
    let mut slot: Option<World> = None;
    let mut points = Vec::new();
    let mut diverged = false;
    let r = vcore::catch(|| {
        let w = slot.insert(World::new(prop, cfg, prog, env));
        loop {
            if w.steps.len() >= depth {
                break;
            }
            let en = w.enabled();
            if en.is_empty() {
                break;
            }
            let pos = points.len();
            let c = if pos < prefix.len() { prefix[pos] } else { 0 };
            if c as usize >= en.len() {
                diverged = true;
                break;
            }
            points.push((c, en.len() as u32));
            let s = en[c as usize];
            if let Some(cur) = cur {
                let mut steps = w.steps.clone();
                steps.push(s);
                cur.set(&replay_json(prop, &cfg, prog, &steps));
            }
            w.step(s);
            if s.terminal() {
                break;
            }
        }
        w.finish();
    });
    match slot {
        Some(w) => finish_exec(w, points, diverged, r.err()),
        None => setup_failed(r.err()),
    }
}

fn setup_failed(panic: Option<String>) -> Exec {
    Exec {
        steps: Vec::new(),
        points: Vec::new(),
        diverged: false,
        fails: vec![Fail {
            oracle: "machinery",
            class: "setup-failed".into(),
            msg: panic.unwrap_or_default(),
        }],
        obs: Vec::new(),
        reached: Vec::new(),
        sig: "setup-failed".into(),
    }
}

/// Runs exactly `steps`.
fn run_steps(prop: Prop, cfg: Config, prog: &Program, env: &Env, steps: &[Step]) -> Exec {
    let mut slot: Option<World> = None;
    let mut diverged = false;
    let r = vcore::catch(|| {
        let w = slot.insert(World::new(prop, cfg, prog, env));
        for s in steps {
            if !w.enabled().contains(s) {
                diverged = true;
                break;
            }
            w.step(*s);
            if s.terminal() {
                break;
            }
        }
        w.finish();
    });
    match slot {
        Some(w) => finish_exec(w, Vec::new(), diverged, r.err()),
        None => setup_failed(r.err()),
    }
}

// ------------------------------------------------------------------------------------------
// shared memory between parent and workers
// ------------------------------------------------------------------------------------------

struct Shared {
    ptr: *mut u8,
    len: usize,
}

impl Shared {
    fn open(path: &Path, len: usize, create: bool) -> Shared {
        let f = std::fs::OpenOptions::new()
            .read(true)
            .write(true)
            .create(create)
            .truncate(false)
            .open(path)
            .unwrap_or_else(|e| vcore::machinery_error(&format!("cannot open {path:?}: {e}")));
        if create {
            f.set_len(len as u64).unwrap();
        }
        let p = unsafe {
            libc::mmap(
                std::ptr::null_mut(),
                len,
                libc::PROT_READ | libc::PROT_WRITE,
                libc::MAP_SHARED,
                f.as_raw_fd(),
                0,
            )
        };
        if p == libc::MAP_FAILED {
            vcore::machinery_error("mmap of the shared work file failed");
        }
        Shared {
            ptr: p as *mut u8,
            len,
        }
    }

    fn counter(&self) -> &AtomicU64 {
        unsafe { &*(self.ptr as *const AtomicU64) }
    }
}

/// "what this worker is executing right now", readable by the parent after a crash
struct Current(Shared);

impl Current {
    fn set(&self, v: &Value) {
        let s = v.to_string();
        let b = s.as_bytes();
        let n = b.len().min(self.0.len - 8);
        unsafe {
            std::ptr::write_volatile(self.0.ptr as *mut u32, 0);
            std::ptr::copy_nonoverlapping(b.as_ptr(), self.0.ptr.add(8), n);
            std::ptr::write_volatile(self.0.ptr as *mut u32, n as u32);
        }
    }

    fn get(&self) -> Option<Value> {
        let n = unsafe { std::ptr::read_volatile(self.0.ptr as *const u32) } as usize;
        if n == 0 || n > self.0.len - 8 {
            return None;
        }
        let b = unsafe { std::slice::from_raw_parts(self.0.ptr.add(8), n) };
        vcore::serde_json::from_slice(b).ok()
    }
}

// ------------------------------------------------------------------------------------------
// aggregation (per worker, merged by the parent)
// ------------------------------------------------------------------------------------------

struct Found {
    len: usize,
    what: String,
    replay: Value,
    count: u64,
    confirmed: bool,
}

#[derive(Default)]
struct Agg {
    found: BTreeMap<String, Found>,
    machinery: BTreeMap<String, (u64, String)>,
    outcomes: BTreeSet<String>,
    counters: BTreeMap<String, u64>,
    per_cfg: BTreeMap<String, u64>,
    samples: Vec<Value>,
    executions: u64,
    transitions: u64,
    capped: bool,
}

impl Agg {
    fn count(&mut self, k: &str, n: u64) {
        *self.counters.entry(k.to_string()).or_insert(0) += n;
    }
}

fn relevant(prop: Prop, oracle: &str) -> bool {
    match prop {
        Prop::C01 => matches!(oracle, "lifetime" | "panic"),
        Prop::C02 => matches!(oracle, "result" | "liveness" | "waker" | "hooks" | "panic"),
    }
}

fn key_of(prop: Prop, cfg: &Config, f: &Fail) -> String {
    format!("{}:{}:{}:{}", prop.name(), cfg.dname(), f.oracle, f.class)
}

fn record(agg: &mut Agg, prop: Prop, cfg: Config, prog: &Program, env: &Env, e: &Exec) {
    for f in &e.fails {
        if f.oracle == "machinery" {
            let ent = agg.machinery.entry(f.class.clone()).or_insert((
                0,
                format!(
                    "{} | {} {} {:?}",
                    f.msg,
                    cfg.name(),
                    prog.name(),
                    e.steps.iter().map(|s| s.name()).collect::<Vec<_>>()
                ),
            ));
            ent.0 += 1;
            continue;
        }
        if !relevant(prop, f.oracle) {
            agg.count("failures_of_the_other_propertys_oracles_seen", 1);
            agg.count(&format!("other-oracle:{}:{}:{}", cfg.dname(), f.oracle, f.class), 1);
            if agg.samples.len() < 3 {
                agg.samples.push(json!({"other_oracle": f.class, "msg": f.msg, "config": cfg.name(), "program": prog.name(), "steps": e.steps.iter().map(|s| s.name()).collect::<Vec<_>>(), "obs": e.obs}));
            }
            continue;
        }
        let key = key_of(prop, &cfg, f);
        if let Some(old) = agg.found.get_mut(&key) {
            old.count += 1;
            if old.len <= e.steps.len() && old.confirmed {
                continue;
            }
        }
        // confirm by re-running the same steps (liveness: must reproduce twice)
        let tries = if f.oracle == "liveness" { 2 } else { 1 };
        let mut confirmed = true;
        for _ in 0..tries {
            let again = run_steps(prop, cfg, prog, env, &e.steps);
            confirmed &= again.fails.iter().any(|g| key_of(prop, &cfg, g) == key);
        }
        if f.oracle == "liveness" {
            if !confirmed {
                agg.count("unreproduced_harvest_timeouts", 1);
                continue;
            }
            STUCK_SEEN.fetch_add(1, Ordering::Relaxed);
        }
        let steps: Vec<String> = e.steps.iter().map(|s| s.name()).collect();
        let what = format!(
            "{} | config {} program {} | history: {} | observed: {}{}",
            f.msg,
            cfg.name(),
            prog.name(),
            steps.join(" "),
            e.obs.join(" ; "),
            if confirmed { "" } else { " | (not reproduced on re-run)" }
        );
        let new = Found {
            len: e.steps.len(),
            what,
            replay: replay_json(prop, &cfg, prog, &e.steps),
            count: 1,
            confirmed,
        };
        match agg.found.get_mut(&key) {
            Some(old) => {
                if (confirmed && !old.confirmed) || (confirmed == old.confirmed && new.len < old.len) {
                    let c = old.count;
                    *old = new;
                    old.count = c;
                }
            }
            None => {
                agg.found.insert(key, new);
            }
        }
    }
    for r in &e.reached {
        agg.count(r, 1);
    }
}

fn agg_to_json(a: &Agg) -> Value {
    json!({
        "found": a.found.iter().map(|(k, f)| json!({"key": k, "len": f.len, "what": f.what, "replay": f.replay, "count": f.count, "confirmed": f.confirmed})).collect::<Vec<_>>(),
        "machinery": a.machinery.iter().map(|(k, (n, ex))| json!({"class": k, "n": n, "example": ex})).collect::<Vec<_>>(),
        "outcomes": a.outcomes.iter().collect::<Vec<_>>(),
        "counters": a.counters,
        "per_cfg": a.per_cfg,
        "samples": a.samples,
        "executions": a.executions,
        "transitions": a.transitions,
        "capped": a.capped,
    })
}

fn merge_json(a: &mut Agg, v: &Value) {
    for f in v["found"].as_array().cloned().unwrap_or_default() {
        let key = f["key"].as_str().unwrap_or("").to_string();
        let new = Found {
            len: f["len"].as_u64().unwrap_or(0) as usize,
            what: f["what"].as_str().unwrap_or("").to_string(),
            replay: f["replay"].clone(),
            count: f["count"].as_u64().unwrap_or(1),
            confirmed: f["confirmed"].as_bool().unwrap_or(false),
        };
        match a.found.get_mut(&key) {
            Some(old) => {
                let c = old.count + new.count;
                if (new.confirmed && !old.confirmed) || (new.confirmed == old.confirmed && new.len < old.len) {
                    *old = new;
                }
                old.count = c;
            }
            None => {
                a.found.insert(key, new);
            }
        }
    }
    for m in v["machinery"].as_array().cloned().unwrap_or_default() {
        let ent = a
            .machinery
            .entry(m["class"].as_str().unwrap_or("").to_string())
            .or_insert((0, m["example"].as_str().unwrap_or("").to_string()));
        ent.0 += m["n"].as_u64().unwrap_or(0);
    }
    for o in v["outcomes"].as_array().cloned().unwrap_or_default() {
        if let Some(s) = o.as_str() {
            a.outcomes.insert(s.to_string());
        }
    }
    for (k, n) in v["counters"].as_object().cloned().unwrap_or_default() {
        a.count(&k, n.as_u64().unwrap_or(0));
    }
    for (k, n) in v["per_cfg"].as_object().cloned().unwrap_or_default() {
        *a.per_cfg.entry(k).or_insert(0) += n.as_u64().unwrap_or(0);
    }
    for s in v["samples"].as_array().cloned().unwrap_or_default() {
        if s.get("nondeterministic").is_some() {
            // determinism-guard mismatches are always kept, in front
            a.samples.insert(0, s);
        } else if a.samples.len() < 6 {
            a.samples.push(s);
        }
    }
    a.executions += v["executions"].as_u64().unwrap_or(0);
    a.transitions += v["transitions"].as_u64().unwrap_or(0);
    a.capped |= v["capped"].as_bool().unwrap_or(false);
}

// ------------------------------------------------------------------------------------------
// work items
// ------------------------------------------------------------------------------------------

#[derive(Clone)]
struct Item {
    cfg: Config,
    prog: usize,
    first: u32,
}

fn next_prefix(points: &[(u32, u32)], fixed: usize) -> Option<Vec<u32>> {
    let mut i = points.len();
    while i > fixed {
        i -= 1;
        if points[i].0 + 1 < points[i].1 {
            let mut v: Vec<u32> = points[..i].iter().map(|p| p.0).collect();
            v.push(points[i].0 + 1);
            return Some(v);
        }
    }
    None
}

/// One item per (configuration, program, first step). The set of first steps does not depend
/// on the driver, so it is computed on the (cheap) polling driver.
fn make_items(prop: Prop, cfgs: &[Config], progs: &[Program], env: &Env) -> Vec<Item> {
    let mut items = Vec::new();
    let probe_cfg = Config {
        driver: DriverType::Poll,
        cap: 8,
    };
    for (pi, prog) in progs.iter().enumerate() {
        let n0 = {
            let mut w = World::new(prop, probe_cfg, prog, env);
            let n = w.enabled().len() as u32;
            w.teardown();
            n
        };
        for cfg in cfgs {
            if prog.uring_only() && !cfg.is_uring() {
                continue;
            }
            for first in 0..n0 {
                items.push(Item {
                    cfg: *cfg,
                    prog: pi,
                    first,
                });
            }
        }
    }
    // big subtrees (first step = Submit(0), index 0) first; io_uring (slow) before polling
    items.sort_by_key(|it| (it.first != 0, !it.cfg.is_uring()));
    items
}

fn make_tmp() -> PathBuf {
    let base = std::env::var_os("TMPDIR")
        .map(PathBuf::from)
        .unwrap_or_else(|| PathBuf::from("/tmp"));
    let dir = base.join(format!("e_c01-{}", std::process::id()));
    std::fs::create_dir_all(&dir)
        .unwrap_or_else(|e| vcore::machinery_error(&format!("cannot create {dir:?}: {e}")));
    std::fs::write(dir.join("data"), world::file_content())
        .unwrap_or_else(|e| vcore::machinery_error(&format!("cannot write data file: {e}")));
    dir
}

thread_local! {
    static POOL: AsyncifyPool = AsyncifyPool::new(16, Duration::from_secs(30));
}

fn with_env<R>(file: &Path, f: impl FnOnce(&Env) -> R) -> R {
    POOL.with(|pool| {
        let env = Env {
            pool,
            file_path: file,
        };
        f(&env)
    })
}

// ------------------------------------------------------------------------------------------
// worker
// ------------------------------------------------------------------------------------------

fn worker_main(prop: Prop, tier: Tier, k: usize, dir: &Path, generation: usize) -> ! {
    let out = dir.join(format!("out-{k}-{generation}.json"));
    let flush = |agg: &Agg| {
        let tmp = out.with_extension("tmp");
        let ok = std::fs::write(&tmp, vcore::serde_json::to_vec(&agg_to_json(agg)).unwrap()).is_ok() && std::fs::rename(&tmp, &out).is_ok();
        if !ok {
            vcore::machinery_error(&format!("cannot write {out:?}"));
        }
    };
    let file = dir.join("data");
    let progs = programs(prop, tier);
    let cfgs = configs();
    let wall_cap = Duration::from_secs(
        std::env::var("E_C01_WALL")
            .ok()
            .and_then(|s| s.parse().ok())
            .unwrap_or(tier.pick(28, 800)),
    );
    let start = Instant::now();
    let shared = Shared::open(&dir.join("work"), 4096, false);
    let cur = Current(Shared::open(&dir.join(format!("cur-{k}")), 16384, false));
    let mut agg = Agg::default();
    with_env(&file, |env| {
        let items = make_items(prop, &cfgs, &progs, env);
        loop {
            let i = shared.counter().fetch_add(1, Ordering::SeqCst) as usize;
            if i >= items.len() {
                break;
            }
            let item = &items[i];
            let prog = &progs[item.prog];
            let mut prefix = vec![item.first];
            let mut first = true;
            let mut n = 0u64;
            loop {
                if start.elapsed() > wall_cap || STUCK_SEEN.load(Ordering::Relaxed) > 12 {
                    agg.capped = true;
                    break;
                }
                let depth = depth_of(prop, tier, prog.ops.len());
                let mut e = run_choices(prop, item.cfg, prog, env, &prefix, depth, Some(&cur));
                if e.fails.iter().any(|f| f.oracle == "machinery") {
                    // a harness watchdog fired (an overloaded machine can stall a fresh pool
                    // thread for seconds): the execution is repeated once before it counts
                    agg.count("harness_watchdog_retries", 1);
                    e = run_choices(prop, item.cfg, prog, env, &prefix, depth, Some(&cur));
                }
                if e.diverged {
                    agg.count("replay_divergences", 1);
                }
                n += 1;
                agg.executions += 1;
                agg.transitions += e.steps.len() as u64;
                if agg.outcomes.len() < 20_000 {
                    agg.outcomes.insert(e.sig.clone());
                }
                let known = agg.found.len();
                record(&mut agg, prop, item.cfg, prog, env, &e);
                if agg.found.len() != known {
                    flush(&agg);
                }
                if first {
                    first = false;
                    // determinism guard: the same steps give the same observations
                    let again = run_steps(prop, item.cfg, prog, env, &e.steps);
                    if again.obs != e.obs {
                        agg.count("nondeterministic_replays", 1);
                        if agg.samples.len() < 4 {
                            agg.samples.push(json!({"nondeterministic": {"config": item.cfg.name(), "program": prog.name(), "first": e.obs, "second": again.obs}}));
                        }
                    } else if agg.samples.is_empty() {
                        agg.samples.push(json!({"config": item.cfg.name(), "program": prog.name(), "observations": e.obs}));
                    }
                }
                match next_prefix(&e.points, 1) {
                    Some(pf) => prefix = pf,
                    None => break,
                }
            }
            *agg.per_cfg.entry(item.cfg.name()).or_insert(0) += n;
            // partial results survive a later crash of this worker
            flush(&agg);
            if agg.capped {
                break;
            }
        }
    });
    cur.set(&json!(null));
    flush(&agg);
    std::process::exit(0)
}

// ------------------------------------------------------------------------------------------
// replay
// ------------------------------------------------------------------------------------------

fn parse_replay(r: &Value) -> Option<(Config, Program, Vec<Step>)> {
    let driver = match r["driver"].as_str()? {
        "iour" => DriverType::IoUring,
        "poll" => DriverType::Poll,
        _ => return None,
    };
    let cfg = Config {
        driver,
        cap: r["sq_capacity"].as_u64()? as u32,
    };
    let prog = Program::parse(r["program"].as_str()?, r["max_ready"].as_u64().unwrap_or(1) as u8)?;
    let mut steps = Vec::new();
    for s in r["steps"].as_array()? {
        steps.push(Step::parse(s.as_str()?)?);
    }
    Some((cfg, prog, steps))
}

fn replay_main(prop: Prop, path: &Path, file: &Path) -> ! {
    let bytes = std::fs::read(path)
        .unwrap_or_else(|e| vcore::machinery_error(&format!("cannot read {path:?}: {e}")));
    let body: Value = vcore::serde_json::from_slice(&bytes)
        .unwrap_or_else(|e| vcore::machinery_error(&format!("replay file does not parse: {e}")));
    let r = if body.get("replay").is_some() {
        &body["replay"]
    } else {
        &body
    };
    let (cfg, prog, steps) =
        parse_replay(r).unwrap_or_else(|| vcore::machinery_error("replay: malformed replay value"));
    let e = with_env(file, |env| run_steps(prop, cfg, &prog, env, &steps));
    println!(
        "replay {} on {} program {}",
        prop.name(),
        cfg.name(),
        prog.name()
    );
    for o in &e.obs {
        println!("  {o}");
    }
    if e.diverged {
        println!("  (a recorded step was not enabled: replay diverged)");
    }
    let mut bad = 0;
    for f in &e.fails {
        let rel = relevant(prop, f.oracle);
        println!(
            "  {} [{}] {}: {}",
            if rel { "VIOLATED" } else { "note" },
            f.oracle,
            f.class,
            f.msg
        );
        if rel {
            bad += 1;
        }
    }
    let _ = std::fs::remove_dir_all(file.parent().unwrap());
    if bad > 0 {
        println!(
            "VIOLATION property={} replay={}",
            prop.name(),
            path.display()
        );
        std::process::exit(1);
    }
    println!("replay: property held on this execution");
    std::process::exit(0)
}

// ------------------------------------------------------------------------------------------
// parent
// ------------------------------------------------------------------------------------------

fn main() {
    let args = vcore::parse_args();
    let prop = match args.property.as_str() {
        "C01" => Prop::C01,
        "C02" => Prop::C02,
        other => vcore::machinery_error(&format!("e_c01 serves C01 and C02, not {other}")),
    };
    let tier = args.tier;
    vcore::quiet_panics();
    if args.rest.first().map(|s| s.as_str()) == Some("--worker") {
        let k: usize = args.rest[1].parse().unwrap();
        let generation: usize = args.rest.get(3).and_then(|s| s.parse().ok()).unwrap_or(0);
        worker_main(prop, tier, k, Path::new(&args.rest[2]), generation);
    }
    let tmp = make_tmp();
    let file = tmp.join("data");
    if let Some(r) = &args.replay {
        replay_main(prop, r, &file);
    }

    let report = Report::new(prop.name(), tier);
    let progs = programs(prop, tier);
    let cfgs = configs();
    match prop {
        Prop::C01 => {
            report.must_reach("inflight_op_freed_after_ring_closed");
            report.must_reach("pool_job_running_at_teardown");
            report.must_reach("cancelled_op_finalized");
            report.must_reach("multishot_item_delivered");
            report.must_reach("zerocopy_buffer_returned_after_notification");
        }
        Prop::C02 => {
            report.must_reach("sq_overflow_completion_during_submit");
            report.must_reach("burst_two_completions_in_one_harvest");
            report.must_reach("two_readers_one_descriptor_delivered");
            report.must_reach("completed_at_submit");
            report.must_reach("repolled_with_new_waker_then_woken");
            report.must_reach("handed_over_task_woken_by_completion");
            report.must_reach("dup_descriptor_reader_served_after_other_reader_took_first_chunk");
            report.must_reach("multishot_item_delivered");
            report.must_reach("zerocopy_buffer_returned_after_notification");
        }
    }
    let nitems = with_env(&file, |env| make_items(prop, &cfgs, &progs, env).len());

    // shared counter + per-worker "current execution" pages, then the workers
    let nworkers = vcore::threads().max(1);
    let shared = Shared::open(&tmp.join("work"), 4096, true);
    shared.counter().store(0, Ordering::SeqCst);
    let mut currents = Vec::new();
    for k in 0..nworkers {
        currents.push(Current(Shared::open(&tmp.join(format!("cur-{k}")), 16384, true)));
    }
    let exe = std::env::current_exe()
        .unwrap_or_else(|e| vcore::machinery_error(&format!("current_exe: {e}")));
    let spawn = |k: usize, generation: usize| {
        std::process::Command::new(&exe)
            .arg(prop.name())
            .arg(tier.name())
            .arg("--worker")
            .arg(k.to_string())
            .arg(&tmp)
            .arg(generation.to_string())
            .spawn()
            .unwrap_or_else(|e| vcore::machinery_error(&format!("cannot start worker: {e}")))
    };
    // (slot, generation, child); a worker that dies is replaced (the work counter goes on) so
    // that one crashing execution does not hide the rest of the space
    let mut running: Vec<(usize, usize, std::process::Child)> = (0..nworkers).map(|k| (k, 0, spawn(k, 0))).collect();
    let mut finished: Vec<(usize, usize)> = Vec::new();
    let mut crashed = Vec::new();
    let mut respawns = 0usize;
    while !running.is_empty() {
        let mut i = 0;
        let mut progressed = false;
        while i < running.len() {
            let st = running[i]
                .2
                .try_wait()
                .unwrap_or_else(|e| vcore::machinery_error(&format!("wait for worker: {e}")));
            match st {
                None => i += 1,
                Some(st) => {
                    progressed = true;
                    let (k, generation, _) = running.swap_remove(i);
                    finished.push((k, generation));
                    if !st.success() {
                        use std::os::unix::process::ExitStatusExt;
                        crashed.push((k, st.signal(), st.code(), currents[k].get()));
                        let left = (shared.counter().load(Ordering::SeqCst) as usize) < nitems;
                        if left && respawns < 48 {
                            respawns += 1;
                            running.push((k, generation + 1, spawn(k, generation + 1)));
                        }
                    }
                }
            }
        }
        if !progressed {
            std::thread::sleep(Duration::from_millis(5));
        }
    }
    let mut agg = Agg::default();
    for (k, generation) in &finished {
        let out = tmp.join(format!("out-{k}-{generation}.json"));
        if let Some(v) = std::fs::read(&out).ok().and_then(|b| vcore::serde_json::from_slice::<Value>(&b).ok()) {
            merge_json(&mut agg, &v);
        }
    }
    let _ = std::fs::remove_dir_all(&tmp);

    // ---------------------------------------------------------------------------------------
    // report
    // ---------------------------------------------------------------------------------------
    report.evaluations.fetch_add(agg.executions, Ordering::Relaxed);
    report.traces_validated.fetch_add(agg.executions, Ordering::Relaxed);
    report.transitions.fetch_add(agg.transitions, Ordering::Relaxed);
    for o in &agg.outcomes {
        report.outcome(o.clone());
    }
    for (k, n) in &agg.counters {
        report.count(k, *n);
    }
    for s in agg.samples.iter().take(6) {
        let s = s.clone();
        report.sample(6, move || s);
    }
    for (key, f) in &agg.found {
        report.violation(Violation {
            key: key.clone(),
            what: format!("{} | occurrences in this run: {}", f.what, f.count),
            replay: f.replay.clone(),
        });
    }
    for (k, sig, code, cur) in &crashed {
        // a worker that dies while executing compio code: memory-safety class failure
        let (driver, replay) = match cur {
            Some(v) if !v.is_null() => (v["driver"].as_str().unwrap_or("?").to_string(), v.clone()),
            _ => ("?".into(), json!(null)),
        };
        if replay.is_null() || sig.is_none() {
            // no signal: the harness itself gave up (panic outside an execution, I/O error)
            eprintln!("MACHINERY-ERROR: worker {k} ended abnormally (signal {sig:?}, code {code:?}); last execution: {replay}");
            std::process::exit(2);
        }
        report.violation(Violation {
            key: format!("{}:{}:crash:signal-{}", prop.name(), driver, sig.unwrap_or(0)),
            what: format!(
                "worker process died (signal {sig:?}, exit code {code:?}) while executing: {replay}"
            ),
            replay,
        });
        report.cap_hit("a worker process crashed; its remaining work items were not explored");
    }
    // zero-copy sends that fail at send time: does the running kernel post the two completions
    // (error flagged "more", then the notification) these programs are there for?
    if progs.iter().any(|p| p.ops.iter().any(|o| o.kind.zc_fail())) {
        let two = agg.counters.get("zerocopy_failed_send_two_completions").copied().unwrap_or(0);
        let one = agg.counters.get("zerocopy_failed_send_single_completion").copied().unwrap_or(0);
        report.assume("zero-copy sends that fail at send time (kinds zcerr: write side shut down, zcrst: peer reset, zcux: unix socket): their final completion is the kernel's release notification, and that the kernel posts two completions for them (the error flagged 'more', then the notification) is OBSERVED, not assumed: counter zerocopy_failed_send_two_completions counts executions whose hook log shows Multi then Final and whose last completion carried the notification flag; counter zerocopy_failed_send_single_completion counts executions where the error was the only completion");
        if two == 0 && one > 0 && agg.found.is_empty() && crashed.is_empty() {
            report.count("zerocopy_failed_send_two_completions", 0);
            report.assume("ADVISORY: the running kernel delivered a single completion for every failed zero-copy send, so the two-completion path of failed zero-copy sends was NOT exercised by this run (must-reach zerocopy_failed_send_two_completions not enforced); the zcerr/zcrst/zcux programs then only cover the ordinary single-completion error path");
        } else {
            report.must_reach("zerocopy_failed_send_two_completions");
        }
    }
    report.extra(
        "bounds",
        json!({
            "depth": depth_of(prop, tier, 2),
            "depth_single_operation_programs": depth_of(prop, tier, 1),
            "configurations": cfgs.iter().map(|c| c.name()).collect::<Vec<_>>(),
            "programs": progs.iter().map(|p| p.name()).collect::<Vec<_>>(),
            "work_items": nitems,
            "worker_processes": nworkers,
            "receive_buffer_capacity": world::CAP,
            "bytes_per_make_ready": world::CHUNK,
        }),
    );
    report.extra("executions_per_configuration", json!(agg.per_cfg));
    report.rule(
        "for every configuration (driver x submission-queue capacity) and every program (1-3 operations with kind, awaiting mode and descriptor sharing fixed) ALL sequences of enabled harness steps up to the depth bound are executed, each on a fresh runtime on the real kernel; states = executions; transitions = harness steps executed; distinct_nontrivial = distinct (configuration, how each operation ended) signatures",
    );
    match prop {
        Prop::C01 => {
            report.assume("closing the io_uring descriptor quiesces in-flight requests before close returns: this is the repository's own assumption (impl Drop for Driver in iour/mod.rs) and is NOT checked; the check verifies that compio orders every release after the final completion or after the ring was closed");
            report.assume("polling driver: between syscalls the OS holds no reference to buffers of readiness-based operations; only the blocking pool is an asynchronous holder there");
            report.assume("completions that already sit in the completion queue when the driver is dropped are drained without being delivered; an operation whose completion was possible at that point (made ready, or cancelled and harvested before) may therefore be released inside the teardown step before the ring is closed");
        }
        Prop::C02 => {
            report.assume("byte counts are validated against the descriptor FIFO (own stream, contiguous from the FIFO head, within capacity); how many of the available bytes one completion takes is the OS's choice");
            report.assume("between two operations pending on ONE descriptor the completion order is not prescribed, except on the polling driver where compio itself matches readiness to the head of its per-descriptor queue");
        }
    }
    if agg.capped {
        report.cap_hit("stopped early (wall cap or repeated liveness violations)");
    }
    let nd = agg.counters.get("nondeterministic_replays").copied().unwrap_or(0);
    let dv = agg.counters.get("replay_divergences").copied().unwrap_or(0);
    if nd > 0 || dv > 0 {
        report.cap_hit(&format!(
            "{nd} determinism-guard mismatches, {dv} enabledness divergences during prefix replay"
        ));
    }
    if !agg.machinery.is_empty() {
        for (k, (n, ex)) in &agg.machinery {
            eprintln!("MACHINERY-ERROR: harness anomaly {k} x{n}: {ex}");
        }
        if report.violation_count() == 0 {
            std::process::exit(2);
        }
    }
    report.finish()
}
