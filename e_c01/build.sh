#!/bin/bash
cd "$(dirname "$0")"
RUSTFLAGS="--cfg compio_verif" CARGO_NET_OFFLINE=true CARGO_TARGET_DIR=/verif/.target/hooks cargo build --release --offline "$@"
