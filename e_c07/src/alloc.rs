//! Counting / quarantining buffer allocator installed through
//! `ProactorBuilder::buffer_pool_allocator::<Tracking>()`.
//!
//! `BufferAllocator` is purely static, so the bookkeeping lives in a thread-local registry (a compio
//! runtime, its pool and every `BufferRef` are `!Send`: allocation and release happen on the worker
//! thread that runs the execution).
//!
//! * every block is surrounded by guard zones and its user area is pre-filled;
//! * a released block is not given back to the system allocator: its user area is overwritten with
//!   a canary and the block is quarantined until the end of the execution, where the canary (a late
//!   write of the OS into a freed buffer) and the guards (overrun) are re-checked;
//! * double / foreign / wrong-length releases are recorded as faults.

use std::{
    alloc::{Layout, alloc, dealloc},
    cell::RefCell,
    mem::MaybeUninit,
    ptr::NonNull,
};

use compio_driver::BufferAllocator;

const GUARD: usize = 16;
const GUARD_BYTE: u8 = 0xA5;
pub const FILL_BYTE: u8 = 0xEE;
const FREED_BYTE: u8 = 0xDD;

struct Block {
    base: *mut u8,
    user: usize,
    len: usize,
}

impl Block {
    fn layout(&self) -> Layout {
        Layout::from_size_align(self.len + 2 * GUARD, 16).unwrap()
    }

    fn guards_ok(&self) -> bool {
        unsafe {
            let lo = std::slice::from_raw_parts(self.base, GUARD);
            let hi = std::slice::from_raw_parts(self.base.add(GUARD + self.len), GUARD);
            lo.iter().chain(hi).all(|&b| b == GUARD_BYTE)
        }
    }

    fn user_slice(&self) -> &[u8] {
        unsafe { std::slice::from_raw_parts(self.user as *const u8, self.len) }
    }
}

#[derive(Default)]
pub struct Registry {
    pub allocs: u64,
    pub deallocs: u64,
    live: Vec<Block>,
    quarantine: Vec<Block>,
    pub faults: Vec<(&'static str, String)>,
}

thread_local! {
    static REG: RefCell<Registry> = RefCell::new(Registry::default());
}

pub struct Tracking;

impl BufferAllocator for Tracking {
    fn allocate(len: u32) -> NonNull<MaybeUninit<u8>> {
        let len = len as usize;
        let layout = Layout::from_size_align(len + 2 * GUARD, 16).unwrap();
        let base = unsafe { alloc(layout) };
        assert!(!base.is_null());
        unsafe {
            std::ptr::write_bytes(base, GUARD_BYTE, GUARD);
            std::ptr::write_bytes(base.add(GUARD), FILL_BYTE, len);
            std::ptr::write_bytes(base.add(GUARD + len), GUARD_BYTE, GUARD);
        }
        let user = unsafe { base.add(GUARD) };
        REG.with(|r| {
            let mut r = r.borrow_mut();
            r.allocs += 1;
            r.live.push(Block { base, user: user as usize, len });
        });
        NonNull::new(user.cast()).unwrap()
    }

    unsafe fn deallocate(ptr: NonNull<MaybeUninit<u8>>, len: u32) {
        let p = ptr.as_ptr() as usize;
        REG.with(|r| {
            let mut r = r.borrow_mut();
            r.deallocs += 1;
            let Some(i) = r.live.iter().position(|b| b.user == p) else {
                if r.quarantine.iter().any(|b| b.user == p) {
                    r.faults.push(("double-free", format!("buffer {p:#x} released twice")));
                } else {
                    r.faults.push(("foreign-free", format!("pointer {p:#x} was never allocated by this allocator")));
                }
                return;
            };
            let b = r.live.swap_remove(i);
            if b.len != len as usize {
                r.faults.push(("free-wrong-len", format!("buffer of {} bytes released with length {len}", b.len)));
            }
            if !b.guards_ok() {
                r.faults.push(("overrun", format!("guard zone of buffer {p:#x} overwritten (seen at release)")));
            }
            unsafe { std::ptr::write_bytes(b.user as *mut u8, FREED_BYTE, b.len) };
            r.quarantine.push(b);
        });
    }
}

/// start of an execution: forget everything (also after a panic in the previous execution)
pub fn reset() {
    REG.with(|r| {
        let mut r = r.borrow_mut();
        // blocks of an aborted execution are leaked on purpose: something may still point at them
        r.live.clear();
        r.quarantine.clear();
        r.allocs = 0;
        r.deallocs = 0;
        r.faults.clear();
    });
}

pub fn counts() -> (u64, u64, usize) {
    REG.with(|r| {
        let r = r.borrow();
        (r.allocs, r.deallocs, r.live.len())
    })
}

pub fn is_live(p: usize) -> bool {
    REG.with(|r| r.borrow().live.iter().any(|b| b.user == p))
}

pub fn live_ptrs() -> Vec<usize> {
    REG.with(|r| r.borrow().live.iter().map(|b| b.user).collect())
}

/// the whole user area of the live block starting at `p`
pub fn block_bytes(p: usize) -> Option<Vec<u8>> {
    REG.with(|r| r.borrow().live.iter().find(|b| b.user == p).map(|b| b.user_slice().to_vec()))
}

/// (start, len) of the live block containing address `p`
pub fn block_of(p: usize) -> Option<(usize, usize)> {
    REG.with(|r| {
        r.borrow().live.iter().find(|b| p >= b.user && p <= b.user + b.len).map(|b| (b.user, b.len))
    })
}

/// end of an execution: re-check quarantine canaries and the guards of everything, really free the
/// memory, and hand back the faults.  `expect_live` is the number of blocks that may still be live.
pub fn finish() -> (u64, u64, usize, Vec<(&'static str, String)>) {
    REG.with(|r| {
        let mut r = r.borrow_mut();
        let mut faults = std::mem::take(&mut r.faults);
        for b in &r.quarantine {
            if !b.user_slice().iter().all(|&x| x == FREED_BYTE) {
                faults.push((
                    "write-after-free",
                    format!("buffer {:#x} was written after it had been released: {:02x?}", b.user, b.user_slice()),
                ));
            }
            if !b.guards_ok() {
                faults.push(("overrun", format!("guard zone of released buffer {:#x} overwritten", b.user)));
            }
        }
        for b in &r.live {
            if !b.guards_ok() {
                faults.push(("overrun", format!("guard zone of buffer {:#x} overwritten", b.user)));
            }
        }
        let live = r.live.len();
        let (a, d) = (r.allocs, r.deallocs);
        for b in r.quarantine.drain(..).collect::<Vec<_>>() {
            unsafe { dealloc(b.base, b.layout()) };
        }
        // still-live blocks (a leak, reported by the caller) are intentionally not freed
        r.live.clear();
        r.allocs = 0;
        r.deallocs = 0;
        (a, d, live, faults)
    })
}
