//! e_c07 — C07 "Managed buffer pool: exclusive ownership and conservation" (real-kernel
//! operation-sequence explorer) and the pool part of C10 (`C10pool`).
//!
//! usage: e_c07 C07 <quick|thorough> [--replay file] [only=<substring of config label>]
//!        e_c07 C10pool <quick|thorough>
//! env:   C07_EOF=0 switches the zero-length-completion steps (PeerClose / EofBurst) off, C07_EOF=core
//!        drops tcp from them on io_uring (cost comparisons only)

mod alloc;
mod c10pool;
mod galloc;
mod world;

#[global_allocator]
static GLOBAL: galloc::Quarantine = galloc::Quarantine;

use std::{collections::BTreeMap, sync::Mutex, time::Duration};

use compio_driver::DriverType;
use vcore::{Chooser, Report, Tier, Violation, json, next_prefix};
use world::{Cfg, Source, driver_name, execute};

/// One family = (drivers, read-len alphabet, depth, pending-read slots).  The io_uring families are
/// shallower: creating + destroying a ring costs ~1 ms of (globally serialised) kernel time here,
/// i.e. ~600 executions per second whatever the thread count, against ~20 000/s on the fallback.
struct Family {
    driver: DriverType,
    lens: Vec<usize>,
    depth: usize,
    slots: usize,
    /// restrict to these (pool, buflen) pairs; empty = all
    only: Vec<(u16, usize)>,
    /// restrict to these sources; empty = all
    sources: Vec<Source>,
    /// zero-length completions (PeerClose / EofBurst) are part of the alphabet on these sources
    eof: Vec<Source>,
}

fn families(tier: Tier) -> Vec<Family> {
    let d = |k: &str, q: usize, t: usize| env_usize(k).unwrap_or(tier.pick(q, t));
    let all_b8 = vec![(1, 8), (2, 8), (4, 8)];
    let all_b16 = vec![(1, 16), (2, 16), (4, 16)];
    let _ = (&all_b8, &all_b16);
    // zero-length completions: sources that have an end of file (UDP has none)
    let eof_all = vec![Source::Pipe, Source::Unix, Source::Tcp, Source::File];
    // quick, io_uring: tcp left out (same operations as unix; a ring costs ~1 ms per execution)
    let eof_core = vec![Source::Pipe, Source::Unix, Source::File];
    // quick, io_uring, deepest family: only the sources whose 0-byte completions consume a ring buffer
    let eof_min = vec![Source::Pipe, Source::File];
    let _ = (&eof_all, &eof_core, &eof_min);
    let mut v = match tier {
        Tier::Quick => vec![
            Family { driver: DriverType::IoUring, lens: vec![0], depth: d("C07_DEPTH_IOUR", 4, 0), slots: 1, only: vec![(2, 8)], sources: vec![], eof: eof_min.clone() },
            Family { driver: DriverType::IoUring, lens: vec![0], depth: d("C07_DEPTH_IOUR_B", 3, 0), slots: 1, only: vec![(1, 8), (4, 8)], sources: vec![], eof: eof_core.clone() },
            Family { driver: DriverType::IoUring, lens: vec![0, 3], depth: d("C07_DEPTH_IOUR_FULL", 3, 0), slots: 1, only: vec![(2, 16)], sources: vec![], eof: eof_core.clone() },
            Family { driver: DriverType::Poll, lens: vec![0, 3], depth: d("C07_DEPTH_POLL_FULL", 5, 0), slots: 1, only: all_b8.clone(), sources: vec![], eof: eof_all.clone() },
            Family { driver: DriverType::Poll, lens: vec![0, 3], depth: d("C07_DEPTH_POLL_B", 4, 0), slots: 1, only: all_b16.clone(), sources: vec![], eof: eof_all.clone() },
            Family { driver: DriverType::Poll, lens: vec![0], depth: d("C07_DEPTH_POLL", 6, 0), slots: 1, only: vec![(2, 8)], sources: vec![Source::Pipe, Source::Unix], eof: eof_all.clone() },
        ],
        // in priority order: the time budget cuts from the end
        Tier::Thorough => vec![
            Family { driver: DriverType::IoUring, lens: vec![0, 3], depth: d("C07_DEPTH_IOUR_FULL", 0, 5), slots: 1, only: all_b8.clone(), sources: vec![], eof: eof_all.clone() },
            Family { driver: DriverType::IoUring, lens: vec![0, 3], depth: d("C07_DEPTH_IOUR_B", 0, 4), slots: 2, only: all_b16.clone(), sources: vec![], eof: eof_all.clone() },
            Family { driver: DriverType::IoUring, lens: vec![0], depth: d("C07_DEPTH_IOUR", 0, 6), slots: 1, only: vec![(2, 8)], sources: vec![Source::Unix], eof: eof_all.clone() },
            Family { driver: DriverType::Poll, lens: vec![0, 3], depth: d("C07_DEPTH_POLL_FULL", 0, 6), slots: 2, only: vec![], sources: vec![], eof: eof_all.clone() },
            Family { driver: DriverType::Poll, lens: vec![0], depth: d("C07_DEPTH_POLL", 0, 7), slots: 1, only: all_b8.clone(), sources: vec![], eof: eof_all.clone() },
            Family { driver: DriverType::Poll, lens: vec![0], depth: d("C07_DEPTH_POLL_DEEP", 0, 8), slots: 1, only: vec![(2, 8)], sources: vec![Source::Pipe, Source::Unix], eof: eof_all.clone() },
        ],
    };
    // C07_EOF=0 switches the zero-length dimension off, C07_EOF=core drops tcp from it (cost comparisons)
    match std::env::var("C07_EOF").as_deref() {
        Ok("0") => v.iter_mut().for_each(|f| f.eof.clear()),
        Ok("core") => v.iter_mut().for_each(|f| if f.driver == DriverType::IoUring { f.eof = eof_core.clone() }),
        _ => {}
    }
    v.retain(|f| f.depth > 0);
    v
}

fn configs(tier: Tier, only: Option<&str>) -> Vec<Cfg> {
    let mut v = Vec::new();
    for f in families(tier) {
        for source in Source::ALL {
            if !f.sources.is_empty() && !f.sources.contains(&source) {
                continue;
            }
            for pool in [1u16, 2, 4] {
                for buflen in [8usize, 16] {
                    if !f.only.is_empty() && !f.only.contains(&(pool, buflen)) {
                        continue;
                    }
                    let c = Cfg {
                        driver: f.driver,
                        pool,
                        buflen,
                        source,
                        depth: f.depth,
                        lens: f.lens.clone(),
                        slots: f.slots,
                        settle: Duration::from_millis(1000),
                        verbose: false,
                        eof: f.eof.contains(&source),
                    };
                    if only.is_none_or(|o| c.label().contains(o)) {
                        v.push(c);
                    }
                }
            }
        }
    }
    v
}

fn env_usize(k: &str) -> Option<usize> {
    std::env::var(k).ok().and_then(|s| s.parse().ok())
}

fn cfg_json(c: &Cfg) -> vcore::Value {
    json!({
        "driver": driver_name(c.driver), "source": c.source.name(), "pool_size": c.pool,
        "buffer_len": c.buflen, "depth": c.depth, "lens": c.lens, "slots": c.slots, "eof": c.eof,
    })
}

fn cfg_from_json(v: &vcore::Value) -> Cfg {
    fn bad() -> ! {
        vcore::machinery_error("replay file does not describe a C07 execution")
    }
    Cfg {
        driver: match v["driver"].as_str() {
            Some("iour") => DriverType::IoUring,
            Some("poll") => DriverType::Poll,
            _ => bad(),
        },
        source: v["source"].as_str().and_then(Source::parse).unwrap_or_else(|| bad()),
        pool: v["pool_size"].as_u64().unwrap_or_else(|| bad()) as u16,
        buflen: v["buffer_len"].as_u64().unwrap_or_else(|| bad()) as usize,
        depth: v["depth"].as_u64().unwrap_or_else(|| bad()) as usize,
        lens: v["lens"].as_array().unwrap_or_else(|| bad()).iter().map(|x| x.as_u64().unwrap() as usize).collect(),
        slots: v["slots"].as_u64().unwrap_or_else(|| bad()) as usize,
        settle: Duration::from_millis(1000),
        verbose: true,
        eof: v["eof"].as_bool().unwrap_or(false),
    }
}

struct Best {
    /// (number of choices, config label, choices): the smallest is reported
    rank: (usize, String, Vec<u32>),
    v: Violation,
    count: u64,
}

fn main() {
    let args = vcore::parse_args();
    match args.property.as_str() {
        "C07" => c07(args),
        "bench" => bench(),
        "C10pool" => c10pool::run(args.tier),
        "C10" if std::env::var("VERIF_EVIDENCE_PART").is_ok_and(|p| p == "pool") => c10pool::run(args.tier),
        other => vcore::machinery_error(&format!("e_c07 serves C07 and C10pool, not {other}")),
    }
}

fn run_one(cfg: &Cfg, ch: &mut Chooser) -> world::Exec {
    match vcore::catch(|| execute(cfg, ch)) {
        Ok(e) => e,
        Err(msg) => {
            // a panic inside compio (e.g. "Buffer should be available") is a verdict, not a crash
            let cls: String = msg.chars().filter(|c| c.is_ascii_alphabetic() || *c == ' ').take(40).collect();
            world::Exec {
                vios: vec![world::Vio {
                    key: format!("{}:panic:{}", driver_name(cfg.driver), cls.trim().replace(' ', "-")),
                    timing: false,
                    what: format!(
                        "panic \"{msg}\" in config {} (pool_size={}, buffer_len={}) during the last step of history [{}]",
                        cfg.label(),
                        cfg.pool,
                        cfg.buflen,
                        world::LAST_HISTORY.with(|h| h.borrow().join("; "))
                    ),
                }],
                sig: "panic".into(),
                steps: ch.trace.len() as u64,
                reached: vec![],
                history: world::LAST_HISTORY.with(|h| h.borrow().clone()),
            }
        }
    }
}

fn c07(args: vcore::Args) {
    let tier = args.tier;
    vcore::quiet_panics();

    if let Some(path) = &args.replay {
        let body: vcore::Value = serde_json_from(path);
        let r = &body["replay"];
        let cfg = cfg_from_json(&r["config"]);
        let choices: Vec<u32> = r["choices"].as_array().map(|a| a.iter().map(|x| x.as_u64().unwrap() as u32).collect()).unwrap_or_default();
        println!("replaying {} choices {:?}", cfg.label(), choices);
        world::calibrate();
        if let Ok(pre) = std::env::var("C07_PRE") {
            for list in pre.split(';') {
                let c: Vec<u32> = list.split(',').filter_map(|x| x.trim().parse().ok()).collect();
                let mut quiet = cfg.clone();
                quiet.verbose = false;
                let mut ch = Chooser::replay(c);
                let _ = run_one(&quiet, &mut ch);
            }
        }
        for _ in 0..env_usize("C07_REPEAT").unwrap_or(0) {
            let mut quiet = cfg.clone();
            quiet.verbose = false;
            let mut ch = Chooser::replay(choices.clone());
            let _ = run_one(&quiet, &mut ch);
        }
        let mut ch = Chooser::replay(choices);
        let e = run_one(&cfg, &mut ch);
        for h in &e.history {
            println!("  {h}");
        }
        for v in &e.vios {
            println!("VIOLATION {}: {}", v.key, v.what);
        }
        let _ = std::fs::remove_dir_all(world::tmp_root());
        std::process::exit(if e.vios.is_empty() { 0 } else { 1 });
    }

    let only = args.rest.iter().find_map(|a| a.strip_prefix("only=").map(|s| s.to_string()));
    let report = Report::new("C07", tier);
    let cfgs = configs(tier, only.as_deref());
    if cfgs.is_empty() {
        vcore::machinery_error("no configuration selected");
    }
    report.rule(
        "every sequence of at most `depth` harness steps (ManagedRead(len) / MultiStart / MultiNext / MultiDrop / PeerWrite(3 | buflen+3) / Release(any held handle) / Cancel(any pending read) / Harvest / DropRuntimeKeepingHandles / PeerClose (pipe, unix, tcp: the harness closes its end once; what it wrote stays readable, then every single-shot read and the multishot stream complete with 0 bytes) / EofBurst (at end of file -- peer closed and nothing unread, or file cursor at the end: pool_size+1 managed reads in a row, each awaited), each only when enabled; Stop at every prefix) is executed on a fresh real compio runtime for every configuration driver x source x pool_size x buffer_len; each sequence ending with Stop is followed by the conservation probe (on a fresh source of the same kind in the same runtime if the peer was closed); a 0-byte result must be Ok(None) / end of stream and is legitimate only at end of file; distinct_nontrivial = distinct sets of (step kind, observation class) pairs seen in one execution",
    );
    report.extra(
        "bounds",
        json!({
            "drivers": ["io_uring buffer ring", "fallback pool (polling driver)"],
            "sources": Source::ALL.iter().map(|s| s.name()).collect::<Vec<_>>(),
            "pool_sizes": [1, 2, 4], "buffer_lens": [8, 16],
            "families": families(tier).iter().map(|f| json!({"driver": driver_name(f.driver), "read_len_arguments": f.lens, "depth": f.depth, "simultaneously_pending_single_reads": f.slots, "pool_x_buflen": if f.only.is_empty() { json!("all") } else { json!(f.only) }, "sources": if f.sources.is_empty() { json!("all") } else { json!(f.sources.iter().map(|s| s.name()).collect::<Vec<_>>()) }, "zero_length_steps_on": f.eof.iter().map(|s| s.name()).collect::<Vec<_>>()})).collect::<Vec<_>>(),
            "zero_length_completions": {"sources_with_PeerClose": ["pipe", "unix", "tcp"], "sources_with_EofBurst": ["pipe", "unix", "tcp", "file"], "zero_length_reads_per_runtime": "up to depth-1 single reads plus pool_size+1 per EofBurst", "not_covered": "empty UDP datagrams"},
            "multishot_streams_at_a_time": 1,
            "peer_write_sizes": ["3", "buffer_len+3"], "settle_bound_ms": 1000,
            "configurations": cfgs.len(),
        }),
    );
    report.assume("the peer end of every source is operated by the harness thread; a completion is only demanded (bounded settle, 1 s) when FIONREAD shows readable data for an operation that an earlier zero-timeout poll handed to the OS");
    report.assume("loopback TCP data counts as delivered when the writer's TIOCOUTQ is 0; loopback UDP datagrams are taken as delivered when write() returns");
    let calib = world::calibrate();
    let kernel_selects = calib.iter().any(|(k, b)| *b == Some(true) && cfgs.iter().any(|c| c.eof && c.source == *k && c.driver == DriverType::IoUring));
    report.extra(
        "zero_length_completion_consumes_a_ring_buffer_on_this_kernel",
        json!(calib.iter().map(|(k, b)| (k.name().to_string(), match b { Some(true) => json!(true), Some(false) => json!(false), None => json!("not determined / not applicable") })).collect::<serde_json::Map<_, _>>()),
    );
    report.assume("whether the running kernel consumes a ring buffer for a 0-byte completion is calibrated once per source kind at start, independently of compio's bookkeeping (ring of one buffer: a first managed read at end of file completes and its operation value is kept; a second one fails with ENOBUFS iff the first consumed the buffer); the counter managed_read_completed_with_zero_bytes_and_a_selected_buffer counts single-shot 0-byte completions on io_uring for the kinds calibrated as consuming");
    report.assume("loopback TCP: the harness' FIN counts as delivered when poll() shows POLLRDHUP on the source");
    report.assume("buffer ids are read from the Debug output of BufferRef (there is no public getter)");
    for k in [
        "two-live-handles-distinct",
        "completion-while-handles-held",
        "busy-error-mid-program-fallback",
        "probe-exhaustion-reported",
        "multishot-item",
        "probe-exact",
        "runtime-dropped-with-handles-held",
        "stream-dropped-while-operation-in-driver",
        "file-eof-zero-length-completion",
    ] {
        report.must_reach(k);
    }
    if cfgs.iter().any(|c| c.eof && c.source != Source::File) {
        report.must_reach("managed-read-zero-length-completion");
        report.must_reach("multishot-stream-ended-at-end-of-file");
    }
    if kernel_selects {
        report.must_reach(world::ZERO_SELECTED);
        for (k, b) in calib {
            if *b == Some(true) && cfgs.iter().any(|c| c.eof && c.source == *k && c.driver == DriverType::IoUring) {
                if let Some(name) = world::zero_selected_by_kind(*k) {
                    report.must_reach(name);
                }
            }
        }
    } else {
        // advisory: the running kernel does not consume a buffer for 0-byte results (or no
        // zero-length configuration is selected), the counter stays in the evidence with value 0
        report.count(world::ZERO_SELECTED, 0);
    }

    // work items: (config, first choice).  The first choice point is static: nothing is held or
    // outstanding, so Stop, ManagedRead(len)*, MultiStart (not on files), PeerWrite x2 are enabled.
    let mut items: Vec<(usize, Vec<u32>)> = Vec::new();
    for (ci, c) in cfgs.iter().enumerate() {
        for r in 0..world::initial_branching(c) {
            items.push((ci, vec![r as u32]));
        }
    }
    let best: Mutex<BTreeMap<String, Best>> = Mutex::new(BTreeMap::new());
    let per_cfg: Vec<std::sync::atomic::AtomicU64> = cfgs.iter().map(|_| Default::default()).collect();
    let budget_s: f64 = std::env::var("C07_BUDGET_S").ok().and_then(|s| s.parse().ok()).unwrap_or(tier.pick(38.0, 560.0));
    let capped = std::sync::atomic::AtomicBool::new(false);

    let trace_all = std::env::var_os("C07_TRACE").is_some();
    let work = |_: usize, (ci, root): &(usize, Vec<u32>)| {
        let cfg = &cfgs[*ci];
        let mut prefix = root.clone();
        loop {
            if report.elapsed() > budget_s {
                capped.store(true, std::sync::atomic::Ordering::Relaxed);
                return;
            }
            if trace_all {
                eprintln!("RUN {} slots{} depth{} lens{:?} prefix {:?}", cfg.label(), cfg.slots, cfg.depth, cfg.lens, prefix);
            }
            let mut ch = Chooser::new(prefix, 0);
            let mut e = run_one(cfg, &mut ch);
            if e.vios.iter().any(|v| v.timing) {
                // a settle bound expired: a verdict only if it reproduces twice with a 5x longer bound
                let mut slow = cfg.clone();
                slow.settle = cfg.settle * 5;
                for _ in 0..2 {
                    let mut ch2 = Chooser::replay(ch.choices());
                    let e2 = run_one(&slow, &mut ch2);
                    if !e2.vios.iter().any(|v| v.timing) {
                        report.count("settle-bound-expiry-not-reproduced", 1);
                        ch = ch2;
                        e = e2;
                        break;
                    }
                }
            }
            if !ch.prefix_consumed() {
                vcore::machinery_error(&format!(
                    "replay divergence in {}: prefix {:?} not consumed (nondeterministic enabledness)",
                    cfg.label(),
                    ch.choices()
                ));
            }
            report.add_execution(e.steps);
            per_cfg[*ci].fetch_add(1, std::sync::atomic::Ordering::Relaxed);
            report.outcome(e.sig.clone());
            for k in &e.reached {
                report.count(k, 1);
            }
            report.sample(6, || json!({"config": cfg.label(), "history": e.history}));
            for v in e.vios {
                let rank = (ch.trace.len(), cfg.label(), ch.choices());
                let vi = Violation {
                    key: v.key.clone(),
                    what: v.what,
                    replay: json!({"config": cfg_json(cfg), "choices": ch.choices(), "history": e.history}),
                };
                let mut g = best.lock().unwrap();
                match g.get_mut(&v.key) {
                    Some(b) => {
                        b.count += 1;
                        if rank < b.rank {
                            b.rank = rank;
                            b.v = vi;
                        }
                    }
                    None => {
                        g.insert(v.key, Best { rank, v: vi, count: 1 });
                    }
                }
            }
            match next_prefix(&ch.trace) {
                Some(p) if p.len() >= root.len() && p[..root.len()] == root[..] => prefix = p,
                _ => return,
            }
        }
    };
    // io_uring executions are bound by kernel-side ring setup/teardown, not by CPU: a few threads
    // saturate it; the rest of the machine works on the fallback configurations meanwhile
    let (iour, poll): (Vec<_>, Vec<_>) = items.iter().cloned().partition(|(ci, _)| cfgs[*ci].driver == DriverType::IoUring);
    let nthreads = vcore::threads();
    let n_iour = if iour.is_empty() { 0 } else if poll.is_empty() { nthreads } else { (nthreads / 4).max(1) };
    std::thread::scope(|s| {
        s.spawn(|| vcore::par_for_each_n(&iour, n_iour.max(1), &work));
        s.spawn(|| vcore::par_for_each_n(&poll, (nthreads - n_iour).max(1), &work));
    });

    if capped.load(std::sync::atomic::Ordering::Relaxed) {
        report.cap_hit(&format!("time budget of {budget_s} s reached before every subtree was finished"));
    }
    let mut per = serde_json::Map::new();
    for (c, n) in cfgs.iter().zip(&per_cfg) {
        per.insert(format!("{} depth{} lens{:?} slots{}", c.label(), c.depth, c.lens, c.slots), json!(n.load(std::sync::atomic::Ordering::Relaxed)));
    }
    report.extra("executions_per_configuration", vcore::Value::Object(per));
    for (_, b) in best.into_inner().unwrap() {
        let mut v = b.v;
        v.what = format!("{} [{} failing execution(s) in this class; shortest shown]", v.what, b.count);
        report.violation(v);
    }
    let _ = std::fs::remove_dir_all(world::tmp_root());
    report.finish();
}

fn serde_json_from(path: &std::path::Path) -> vcore::Value {
    let b = std::fs::read(path).unwrap_or_else(|e| vcore::machinery_error(&format!("cannot read {path:?}: {e}")));
    vcore::serde_json::from_slice(&b).unwrap_or_else(|e| vcore::machinery_error(&format!("{path:?}: {e}")))
}

use vcore::serde_json;

fn bench() {
    use std::time::Instant;
    for driver in [DriverType::IoUring, DriverType::Poll] {
        let cfg = Cfg { driver, pool: 2, buflen: 8, source: Source::Pipe, depth: 0, lens: vec![0], slots: 1, settle: Duration::from_secs(1), verbose: false, eof: false };
        let mut tb = Duration::ZERO;
        let mut td = Duration::ZERO;
        for _ in 0..500 {
            let t = Instant::now();
            let rt = world::build_rt(&cfg);
            tb += t.elapsed();
            let t = Instant::now();
            drop(rt);
            td += t.elapsed();
        }
        println!("{:?}: build {:?} drop {:?} each", driver, tb / 500, td / 500);
        let t = Instant::now();
        for _ in 0..500 {
            let rt = world::build_rt(&cfg);
            let _ = rt.buffer_pool();
            drop(rt);
        }
        println!("{:?}: build+pool+drop runtime {:?} each", driver, t.elapsed() / 500);
        let t = Instant::now();
        for _ in 0..500 {
            let mut ch = Chooser::replay(vec![0]);
            let _ = execute(&cfg, &mut ch);
        }
        println!("{:?}: Stop+probe execution {:?} each", driver, t.elapsed() / 500);
    }
}
