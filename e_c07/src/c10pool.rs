//! C10, part "pool": the buffer-view contract on a real pool `BufferRef` root.
//!
//! Enumerated per driver (fallback pool: `BufferPool::pop`, io_uring buffer ring:
//! `BufferPool::take(0)`) and pool buffer length L in {4, 8}:
//! every program  [capacity change c0]  fill(k, recorded with advance_to | set_len)
//! [capacity change c1]  [second fill(k2)]  with c in 0..=L+1 applied through `set_capacity` and
//! `with_capacity`, k over every value the current writable region allows; plus every
//! `slice(a..b)` of a filled handle with every fill of the slice.
//!
//! Oracle: pointer arithmetic against the pool buffer (known from the harness allocator) and a
//! reference image of the buffer's bytes.

use std::num::NonZero;

use compio_buf::{IntoInner, IoBuf, IoBufExt, IoBufMut, IoBufMutExt, SetLen, SetLenExt};
use compio_driver::{BufferPool, BufferRef, DriverType, ProactorBuilder};
use vcore::{Report, Tier, Violation, json};

use crate::{
    alloc::{self, Tracking},
    world::driver_name,
};

fn pattern(gen_: usize, i: usize) -> u8 {
    0x10u8.wrapping_add((gen_ as u8).wrapping_mul(0x20)).wrapping_add(i as u8)
}

#[derive(Clone, Copy, Debug, PartialEq)]
enum CapOp {
    None,
    Set(usize),
    With(usize),
}

#[derive(Clone, Copy, Debug, PartialEq)]
enum Rec {
    AdvanceTo,
    SetLen,
}

#[derive(Clone, Debug)]
struct Prog {
    c0: CapOp,
    k: usize,
    rec: Rec,
    c1: CapOp,
    /// second fill of the root
    k2: Option<usize>,
    /// slice(a..b) of the result and a fill of j bytes through it
    slice: Option<(usize, usize, usize)>,
}

struct Fail {
    oracle: &'static str,
    shape: &'static str,
    phase: &'static str,
    rec: &'static str,
    detail: String,
}

/// what the view reports, checked against the block; returns (len, cap)
fn look<V: IoBuf + IoBufMut>(
    v: &mut V,
    block: (usize, usize),
    off: usize,
    shape: &'static str,
    phase: &'static str,
    rec: &'static str,
) -> Result<(usize, usize), Fail> {
    let fail = |oracle, detail| Err(Fail { oracle, shape, phase, rec, detail });
    let (ip, il) = {
        let s = ini(&*v);
        (s.as_ptr() as usize, s.len())
    };
    let (up, ul) = {
        let s = v.as_uninit();
        (s.as_ptr() as usize, s.len())
    };
    if il > ul {
        return fail("len-exceeds-capacity", format!("initialized length {il} exceeds capacity {ul}"));
    }
    if ip != up && !(il == 0 && ul == 0) {
        return fail("init-not-prefix", format!("as_init starts at {ip:#x}, as_uninit at {up:#x}"));
    }
    if up < block.0 || up + ul > block.0 + block.1 || ip < block.0 || ip + il > block.0 + block.1 {
        return fail(
            "outside-allocation",
            format!("view {up:#x}+{ul} / {ip:#x}+{il} leaves the pool buffer {:#x}+{}", block.0, block.1),
        );
    }
    if up != block.0 + off && ul != 0 {
        return fail("wrong-offset", format!("view starts at offset {} of the pool buffer, expected {off}", up - block.0));
    }
    if (*v).buf_len() != il || v.buf_capacity() != ul {
        return fail("len-exceeds-capacity", "buf_len/buf_capacity disagree with as_init/as_uninit".into());
    }
    Ok((il, ul))
}

fn ini<V: IoBuf>(v: &V) -> &[u8] {
    v.as_init()
}

fn apply_cap(b: BufferRef, op: CapOp) -> BufferRef {
    match op {
        CapOp::None => b,
        CapOp::Set(c) => {
            let mut b = b;
            b.set_capacity(c);
            b
        }
        CapOp::With(c) => b.with_capacity(c),
    }
}

fn fill<V: IoBufMut + SetLen + IoBuf>(v: &mut V, k: usize, rec: Rec, gen_: usize, image: &mut [u8], off: usize) {
    let u = v.as_uninit();
    for i in 0..k {
        u[i].write(pattern(gen_, i));
        image[off + i] = pattern(gen_, i);
    }
    unsafe {
        match rec {
            Rec::AdvanceTo => v.advance_to(k),
            Rec::SetLen => v.set_len(k),
        }
    }
}

fn rec_name(r: Rec) -> &'static str {
    match r {
        Rec::AdvanceTo => "advance_to",
        Rec::SetLen => "set_len",
    }
}

/// run one program; `None` when it is not applicable (a k beyond the capacity)
fn run_prog(get: &dyn Fn() -> BufferRef, l: usize, p: &Prog) -> Option<Result<(), Fail>> {
    let mut slot: Option<BufferRef> = Some(get());
    let out = run_prog_inner(&mut slot, l, p);
    drop(slot);
    match out {
        Ok(true) => Some(Ok(())),
        Ok(false) => None,
        Err(f) => Some(Err(f)),
    }
}

fn run_prog_inner(slot: &mut Option<BufferRef>, l: usize, p: &Prog) -> Result<bool, Fail> {
    let ptr = slot.as_mut().unwrap().as_uninit().as_ptr() as usize;
    let Some(block) = alloc::block_of(ptr) else {
        return Err(Fail {
            oracle: "outside-allocation",
            shape: "root",
            phase: "static",
            rec: "none",
            detail: format!("fresh handle points at {ptr:#x}, not into a pool buffer"),
        });
    };
    if block.1 != l {
        vcore::machinery_error("pool buffer length differs from the configured one");
    }
    // reference image of the whole pool buffer: make every byte known
    let mut image = vec![0u8; l];
    for i in 0..l {
        let x = 0xC0 + i as u8;
        unsafe { ((block.0 + i) as *mut u8).write(x) };
        image[i] = x;
    }
    let rn = rec_name(p.rec);
    {
        let b = slot.as_mut().unwrap();
        let (len, cap) = look(b, block, 0, "root", "static", "none")?;
        if len != 0 || cap != l {
            return Err(Fail {
                oracle: "fresh-handle",
                shape: "root",
                phase: "static",
                rec: "none",
                detail: format!("fresh handle reports len {len}, capacity {cap} for a buffer of {l}"),
            });
        }
    }
    *slot = Some(apply_cap(slot.take().unwrap(), p.c0));
    let b = slot.as_mut().unwrap();
    let (len0, cap0) = look(b, block, 0, "root", "static", "none")?;
    if len0 != 0 {
        return Err(Fail {
            oracle: "visible-bytes",
            shape: "root",
            phase: "static",
            rec: "none",
            detail: format!("capacity change made {len0} bytes visible"),
        });
    }
    if p.k > cap0 {
        return Ok(false);
    }
    fill(b, p.k, p.rec, 1, &mut image, 0);
    let (len1, _cap1) = look(b, block, 0, "root", "after-fill", rn)?;
    if len1 != p.k || ini(&*b) != &image[..p.k] || &(**b)[..] != &image[..p.k] {
        return Err(Fail {
            oracle: "visible-bytes",
            shape: "root",
            phase: "after-fill",
            rec: rn,
            detail: format!(
                "wrote {} bytes and recorded them, the handle shows {:02x?} (expected {:02x?})",
                p.k,
                ini(&*b),
                &image[..p.k]
            ),
        });
    }
    // capacity change after the fill
    let before = ini(&*b).to_vec();
    *slot = Some(apply_cap(slot.take().unwrap(), p.c1));
    let b = slot.as_mut().unwrap();
    let rc = if p.c1 == CapOp::None { rn } else { "set_capacity" };
    let (len2, cap2) = look(b, block, 0, "root", "after-fill", rc)?;
    if len2 > before.len() || ini(&*b) != &before[..len2] {
        return Err(Fail {
            oracle: "visible-bytes",
            shape: "root",
            phase: "after-fill",
            rec: "set_capacity",
            detail: format!("capacity change turned visible bytes {before:02x?} into {:02x?}", ini(&*b)),
        });
    }
    if let CapOp::Set(c) | CapOp::With(c) = p.c1 {
        if (1..=l).contains(&c) && cap2 != c {
            return Err(Fail {
                oracle: "capacity-value",
                shape: "root",
                phase: "after-fill",
                rec: "set_capacity",
                detail: format!("set_capacity({c}) on a buffer of {l} gives capacity {cap2}"),
            });
        }
    }
    let mut len_now = len2;
    if let Some(k2) = p.k2 {
        if k2 > cap2 {
            return Ok(false);
        }
        fill(b, k2, p.rec, 2, &mut image, 0);
        let want = match p.rec {
            Rec::AdvanceTo => len2.max(k2),
            Rec::SetLen => k2,
        };
        let (len3, _) = look(b, block, 0, "root", "after-fill", rn)?;
        if len3 != want || ini(&*b) != &image[..want] {
            return Err(Fail {
                oracle: "visible-bytes",
                shape: "root",
                phase: "after-fill",
                rec: rn,
                detail: format!(
                    "second fill of {k2} bytes: the handle shows {:02x?} (expected {:02x?})",
                    ini(&*b),
                    &image[..want]
                ),
            });
        }
        len_now = len3;
    }
    if let Some((a, e, j)) = p.slice {
        if a > len_now || e < a {
            return Ok(false);
        }
        let cap_now = b.buf_capacity();
        let mut s = slot.take().unwrap().slice(a..e);
        let r = (|| -> Result<bool, Fail> {
            let (sl, sc) = look(&mut s, block, a, "root.slice", "after-fill", rn)?;
            let want_l = e.min(len_now).saturating_sub(a);
            let want_c = e.min(cap_now).saturating_sub(a);
            if sl != want_l || sc != want_c || ini(&s) != &image[a..a + want_l] {
                return Err(Fail {
                    oracle: "visible-bytes",
                    shape: "root.slice",
                    phase: "after-fill",
                    rec: rn,
                    detail: format!(
                        "slice({a}..{e}) of a handle with len {len_now} cap {cap_now} reports len {sl} cap {sc} bytes {:02x?}",
                        ini(&s)
                    ),
                });
            }
            if j > sc {
                return Ok(false);
            }
            fill(&mut s, j, p.rec, 3, &mut image, a);
            let want = match p.rec {
                Rec::AdvanceTo => want_l.max(j),
                Rec::SetLen => j,
            };
            let (sl2, _) = look(&mut s, block, a, "root.slice", "after-fill", rn)?;
            if sl2 != want || ini(&s) != &image[a..a + want] {
                return Err(Fail {
                    oracle: "visible-bytes",
                    shape: "root.slice",
                    phase: "after-fill",
                    rec: rn,
                    detail: format!(
                        "fill of {j} bytes through slice({a}..{e}): slice shows {:02x?} (expected {:02x?})",
                        ini(&s),
                        &image[a..a + want]
                    ),
                });
            }
            Ok(true)
        })();
        *slot = Some(s.into_inner());
        if !r? {
            return Ok(false);
        }
        let b = slot.as_mut().unwrap();
        let (lr, _) = look(b, block, 0, "root", "after-fill", rn)?;
        if ini(&*b) != &image[..lr] {
            return Err(Fail {
                oracle: "visible-bytes",
                shape: "root.slice",
                phase: "after-fill",
                rec: rn,
                detail: format!(
                    "after into_inner the handle shows {:02x?}, the reference {:02x?}",
                    ini(&*b),
                    &image[..lr]
                ),
            });
        }
    }
    // content outside what was written is untouched
    let now = alloc::block_bytes(block.0).unwrap();
    if now != image {
        return Err(Fail {
            oracle: "untouched",
            shape: "root",
            phase: "after-fill",
            rec: rn,
            detail: format!("pool buffer is {now:02x?}, the reference image {image:02x?}"),
        });
    }
    Ok(true)
}

pub fn run(tier: Tier) -> ! {
    // evidence of this sub-command is a part of C10
    unsafe { std::env::set_var("VERIF_EVIDENCE_PART", "pool") };
    vcore::quiet_panics();
    let report = Report::new("C10", tier);
    report.rule(
        "every program [set_capacity|with_capacity(c0)] fill(k) [set_capacity|with_capacity(c1)] [fill(k2)] [slice(a..b) fill(j)] over a real pool BufferRef (fallback pool and io_uring buffer ring, buffer lengths 4 and 8, c in 0..=L+1, every k/k2/j the writable region allows, every a <= len, b in a..=L+1, fills recorded with advance_to and with set_len) is run and every view is compared with pointer arithmetic against the pool buffer and a reference image; distinct_nontrivial = distinct (len, capacity, shape) outcomes",
    );
    report.extra("bounds", json!({"buffer_lens": [4, 8], "capacities": "0..=L+1", "drivers": ["poll", "iour"], "slices": "all a<=len, b in a..=L+1"}));
    report.must_reach("fill-then-shrink-capacity-below-len");
    report.must_reach("slice-fill");

    for driver in [DriverType::Poll, DriverType::IoUring] {
        for l in [4usize, 8] {
            alloc::reset();
            let mut pb = ProactorBuilder::new();
            pb.driver_type(driver)
                .capacity(4)
                .buffer_pool_size(NonZero::new(2).unwrap())
                .buffer_pool_buffer_len(l)
                .buffer_pool_allocator::<Tracking>();
            let mut pr = pb.build().unwrap_or_else(|e| vcore::machinery_error(&format!("proactor on {driver:?}: {e}")));
            let pool: BufferPool = pr.buffer_pool().unwrap_or_else(|e| vcore::machinery_error(&format!("buffer pool: {e}")));
            let take = |id: u16| -> BufferRef {
                let r = if driver == DriverType::Poll { pool.pop() } else { pool.take(id).map(|o| o.expect("pool buffer is free")) };
                r.unwrap_or_else(|e| vcore::machinery_error(&format!("cannot obtain a pool buffer: {e}")))
            };
            let get = || -> BufferRef { take(0) };
            let caps: Vec<CapOp> = std::iter::once(CapOp::None)
                .chain((0..=l + 1).map(CapOp::Set))
                .chain((0..=l + 1).map(CapOp::With))
                .collect();
            let run_one = |p: Prog| {
                let r = vcore::catch(|| run_prog(&get, l, &p));
                if !matches!(r, Ok(None)) {
                    report.add_execution(4);
                }
                match r {
                    Ok(None) => {}
                    Ok(Some(Ok(()))) => {
                        report.outcome(format!("{}:{:?}:{:?}:{:?}", p.k, p.c1, p.k2.is_some(), p.slice.map(|s| (s.0, s.1))));
                        if let CapOp::Set(c) | CapOp::With(c) = p.c1 {
                            if c > 0 && c < p.k {
                                report.count("fill-then-shrink-capacity-below-len", 1);
                            }
                        }
                        if p.slice.is_some() {
                            report.count("slice-fill", 1);
                        }
                    }
                    Ok(Some(Err(f))) => report.violation(Violation {
                        key: format!("{}:{}:{}:{}:BufferRef", f.oracle, f.shape, f.phase, f.rec),
                        what: format!(
                            "{} on a pool BufferRef ({} pool, buffer length {l}): {}; program {:?}",
                            f.oracle,
                            driver_name(driver),
                            f.detail,
                            p
                        ),
                        replay: json!({"driver": driver_name(driver), "buffer_len": l, "program": format!("{p:?}")}),
                    }),
                    Err(msg) => report.violation(Violation {
                        key: format!("panic:root:{}:BufferRef", if p.k > 0 { "after-fill" } else { "static" }),
                        what: format!("panic \"{msg}\" on a pool BufferRef ({} pool, buffer length {l}); program {:?}", driver_name(driver), p),
                        replay: json!({"driver": driver_name(driver), "buffer_len": l, "program": format!("{p:?}")}),
                    }),
                }
            };
            for &c0 in &caps {
                for k in 0..=l {
                    for rec in [Rec::AdvanceTo, Rec::SetLen] {
                        for &c1 in &caps {
                            run_one(Prog { c0, k, rec, c1, k2: None, slice: None });
                            for k2 in 0..=l {
                                run_one(Prog { c0, k, rec, c1, k2: Some(k2), slice: None });
                            }
                            for a in 0..=k {
                                for e in a..=l + 1 {
                                    for j in 0..=l {
                                        run_one(Prog { c0, k, rec, c1, k2: None, slice: Some((a, e, j)) });
                                    }
                                }
                            }
                        }
                    }
                }
            }
            drop(pool);
            drop(pr);
            let (a, d, live, faults) = alloc::finish();
            if let Some((o, dsc)) = faults.into_iter().next() {
                report.violation(Violation { key: format!("{o}:root:static:none:BufferRef"), what: dsc, replay: json!({}) });
            } else if a != d || live != 0 {
                vcore::machinery_error(&format!("C10pool leaked pool buffers: {a} allocated, {d} freed"));
            }
        }
    }
    report.finish()
}

