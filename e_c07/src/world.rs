//! Executes one step sequence on a fresh real compio runtime with a managed buffer pool over real
//! kernel objects and judges it (C07).
//!
//! Ownership of nondeterminism: the peer end of every source is a raw descriptor operated by the
//! harness thread itself; completions are reaped only with zero-timeout polls; futures / streams are
//! polled by hand with a flag waker.  The only waits are bounded settle loops for completions the
//! harness itself enabled (data is known to be available for an operation that was handed to the OS).
//!
//! Zero-length completions (`Cfg::eof`): `PeerClose` is a harness step like a peer write (the harness
//! closes its own end; for loopback TCP it waits until the source shows POLLRDHUP), after which an
//! operation handed to the OS must complete (with the unread data, then with 0 bytes); `EofBurst`
//! performs pool_size + 1 managed reads at end of file in a row.  Whether the running kernel consumes
//! a ring buffer for a 0-byte result is calibrated once at start (`calibrate`).

use std::{
    cell::Cell,
    future::Future,
    io,
    num::NonZero,
    os::fd::{AsFd, AsRawFd, BorrowedFd, FromRawFd, OwnedFd, RawFd},
    pin::Pin,
    rc::Rc,
    sync::{
        Arc,
        atomic::{AtomicBool, AtomicU64, Ordering},
    },
    task::{Context, Poll, Wake, Waker},
    time::{Duration, Instant},
};

use compio_buf::{BufResult, IoBuf, SetLenExt};
use compio_driver::{
    AsyncifyPool, BufferRef, DriverType, ProactorBuilder, TakeBuffer,
    op::{
        ReadManaged, ReadManagedAt, ReadMulti, RecvFlags, RecvFromManaged, RecvManaged, RecvMulti,
        ResultTakeBuffer,
    },
};
use compio_runtime::{Runtime, RuntimeBuilder, SubmitMultiStream};
use futures_util::Stream;
use vcore::Chooser;

use crate::{
    alloc::{self, Tracking},
    galloc,
};

// ---------------------------------------------------------------------------------------------
// configuration
// ---------------------------------------------------------------------------------------------

#[derive(Clone, Copy, PartialEq, Eq, Debug)]
pub enum Source {
    Pipe,
    Unix,
    Tcp,
    Udp,
    File,
}

impl Source {
    pub const ALL: [Source; 5] = [Source::Pipe, Source::Unix, Source::Tcp, Source::Udp, Source::File];

    pub fn name(self) -> &'static str {
        match self {
            Source::Pipe => "pipe",
            Source::Unix => "unix",
            Source::Tcp => "tcp",
            Source::Udp => "udp",
            Source::File => "file",
        }
    }

    pub fn parse(s: &str) -> Option<Source> {
        Source::ALL.into_iter().find(|x| x.name() == s)
    }

    fn is_stream(self) -> bool {
        matches!(self, Source::Pipe | Source::Unix | Source::Tcp)
    }
}

#[derive(Clone, Debug)]
pub struct Cfg {
    pub driver: DriverType,
    pub pool: u16,
    pub buflen: usize,
    pub source: Source,
    /// maximal number of steps (the final probe is not a step)
    pub depth: usize,
    /// `len` arguments offered to ManagedRead (0 = whole buffer)
    pub lens: Vec<usize>,
    /// how many single-shot reads may be pending at the same time
    pub slots: usize,
    pub settle: Duration,
    pub verbose: bool,
    /// zero-length completions are part of the alphabet: PeerClose (pipe / unix / tcp) and
    /// EofBurst (pool_size + 1 managed reads at end of file in a row)
    pub eof: bool,
}

pub fn driver_name(d: DriverType) -> &'static str {
    match d {
        DriverType::Poll => "poll",
        DriverType::IoUring => "iour",
        _ => "other",
    }
}

impl Cfg {
    pub fn label(&self) -> String {
        format!("{}/{}/p{}/b{}", driver_name(self.driver), self.source.name(), self.pool, self.buflen)
    }
}

// ---------------------------------------------------------------------------------------------
// small helpers
// ---------------------------------------------------------------------------------------------

fn machinery(msg: String) -> ! {
    vcore::machinery_error(&msg)
}

fn cvt(r: libc::c_int, what: &str) -> libc::c_int {
    if r < 0 {
        machinery(format!("harness syscall {what} failed: {}", io::Error::last_os_error()));
    }
    r
}

/// position-coded content: byte at absolute position `p` of everything the harness ever wrote
pub fn pat(p: usize) -> u8 {
    if p >= 250 {
        machinery(format!("pattern space exhausted at position {p}"));
    }
    (p + 1) as u8
}

pub struct Flag(pub AtomicBool);

impl Wake for Flag {
    fn wake(self: Arc<Self>) {
        self.0.store(true, Ordering::SeqCst);
    }

    fn wake_by_ref(self: &Arc<Self>) {
        self.0.store(true, Ordering::SeqCst);
    }
}

fn new_flag() -> (Arc<Flag>, Waker) {
    let f = Arc::new(Flag(AtomicBool::new(false)));
    (f.clone(), Waker::from(f))
}

/// counts the copies of the descriptor handle that live inside operation storage
#[derive(Default)]
pub struct Probe {
    live: Cell<usize>,
}

pub struct OpFd {
    fd: Rc<OwnedFd>,
    probe: Rc<Probe>,
}

impl OpFd {
    fn new(fd: &Rc<OwnedFd>, probe: &Rc<Probe>) -> Self {
        probe.live.set(probe.live.get() + 1);
        Self { fd: fd.clone(), probe: probe.clone() }
    }
}

impl Clone for OpFd {
    fn clone(&self) -> Self {
        OpFd::new(&self.fd, &self.probe)
    }
}

impl Drop for OpFd {
    fn drop(&mut self) {
        self.probe.live.set(self.probe.live.get() - 1);
    }
}

impl AsFd for OpFd {
    fn as_fd(&self) -> BorrowedFd<'_> {
        self.fd.as_fd()
    }
}

// ---------------------------------------------------------------------------------------------
// the source and its peer end
// ---------------------------------------------------------------------------------------------

struct Env {
    kind: Source,
    mine: Rc<OwnedFd>,
    /// None once the harness closed the peer end (PeerClose)
    peer: Option<OwnedFd>,
    /// bytes written so far (stream position / file length)
    written: usize,
    /// (start, len) of every write (datagram boundaries for UDP)
    writes: Vec<(usize, usize)>,
    /// file cursor of the harness program
    fpos: usize,
}

static UNIQ: AtomicU64 = AtomicU64::new(0);

pub fn tmp_root() -> std::path::PathBuf {
    let base = std::env::var_os("TMPDIR").map(std::path::PathBuf::from).unwrap_or_else(|| "/tmp".into());
    base.join(format!("e_c07-{}", std::process::id()))
}

thread_local! {
    /// step names of the running execution (survives a panic inside compio)
    pub static LAST_HISTORY: std::cell::RefCell<Vec<String>> = const { std::cell::RefCell::new(Vec::new()) };
    static TCPL: (socket2::Socket, socket2::SockAddr) = {
        use socket2::{Domain, Socket, Type};
        let l = Socket::new(Domain::IPV4, Type::STREAM, None).unwrap_or_else(|e| machinery(format!("tcp socket: {e}")));
        l.bind(&"127.0.0.1:0".parse::<std::net::SocketAddr>().unwrap().into())
            .unwrap_or_else(|e| machinery(format!("tcp bind: {e}")));
        l.listen(8).unwrap_or_else(|e| machinery(format!("tcp listen: {e}")));
        let a = l.local_addr().unwrap();
        (l, a)
    };
    static FILE_PATH: std::path::PathBuf = {
        let d = tmp_root();
        std::fs::create_dir_all(&d).unwrap_or_else(|e| machinery(format!("cannot create {d:?}: {e}")));
        d.join(format!("f{}", UNIQ.fetch_add(1, Ordering::Relaxed)))
    };
    static POOL: AsyncifyPool = AsyncifyPool::new(2, Duration::from_secs(5));
}

fn set_nonblock(fd: RawFd) {
    let fl = cvt(unsafe { libc::fcntl(fd, libc::F_GETFL) }, "fcntl");
    cvt(unsafe { libc::fcntl(fd, libc::F_SETFL, fl | libc::O_NONBLOCK) }, "fcntl");
}

impl Env {
    fn new(kind: Source) -> Env {
        let (mine, peer) = match kind {
            Source::Pipe => {
                let mut fds = [0; 2];
                cvt(unsafe { libc::pipe2(fds.as_mut_ptr(), libc::O_NONBLOCK | libc::O_CLOEXEC) }, "pipe2");
                unsafe { (OwnedFd::from_raw_fd(fds[0]), OwnedFd::from_raw_fd(fds[1])) }
            }
            Source::Unix => {
                let mut fds = [0; 2];
                cvt(
                    unsafe {
                        libc::socketpair(
                            libc::AF_UNIX,
                            libc::SOCK_STREAM | libc::SOCK_NONBLOCK | libc::SOCK_CLOEXEC,
                            0,
                            fds.as_mut_ptr(),
                        )
                    },
                    "socketpair",
                );
                unsafe { (OwnedFd::from_raw_fd(fds[0]), OwnedFd::from_raw_fd(fds[1])) }
            }
            Source::Tcp => {
                use socket2::{Domain, Socket, Type};
                TCPL.with(|(l, a)| {
                    let c = Socket::new(Domain::IPV4, Type::STREAM, None)
                        .unwrap_or_else(|e| machinery(format!("tcp socket: {e}")));
                    c.connect(a).unwrap_or_else(|e| machinery(format!("tcp connect: {e}")));
                    let (s, _) = l.accept().unwrap_or_else(|e| machinery(format!("tcp accept: {e}")));
                    c.set_tcp_nodelay(true).ok();
                    s.set_tcp_nodelay(true).ok();
                    c.set_nonblocking(true).unwrap();
                    s.set_nonblocking(true).unwrap();
                    (OwnedFd::from(s), OwnedFd::from(c))
                })
            }
            Source::Udp => {
                use socket2::{Domain, Socket, Type};
                let any: socket2::SockAddr = "127.0.0.1:0".parse::<std::net::SocketAddr>().unwrap().into();
                let a = Socket::new(Domain::IPV4, Type::DGRAM, None).unwrap_or_else(|e| machinery(format!("udp socket: {e}")));
                let b = Socket::new(Domain::IPV4, Type::DGRAM, None).unwrap_or_else(|e| machinery(format!("udp socket: {e}")));
                a.bind(&any).unwrap_or_else(|e| machinery(format!("udp bind: {e}")));
                b.bind(&any).unwrap_or_else(|e| machinery(format!("udp bind: {e}")));
                a.connect(&b.local_addr().unwrap()).unwrap_or_else(|e| machinery(format!("udp connect: {e}")));
                b.connect(&a.local_addr().unwrap()).unwrap_or_else(|e| machinery(format!("udp connect: {e}")));
                a.set_nonblocking(true).unwrap();
                b.set_nonblocking(true).unwrap();
                (OwnedFd::from(a), OwnedFd::from(b))
            }
            Source::File => FILE_PATH.with(|p| {
                use std::os::unix::ffi::OsStrExt;
                let c = std::ffi::CString::new(p.as_os_str().as_bytes()).unwrap();
                let w = cvt(
                    unsafe {
                        libc::open(
                            c.as_ptr(),
                            libc::O_WRONLY | libc::O_CREAT | libc::O_TRUNC | libc::O_APPEND | libc::O_CLOEXEC,
                            0o600,
                        )
                    },
                    "open(file,w)",
                );
                let r = cvt(unsafe { libc::open(c.as_ptr(), libc::O_RDONLY | libc::O_CLOEXEC) }, "open(file,r)");
                unsafe { (OwnedFd::from_raw_fd(r), OwnedFd::from_raw_fd(w)) }
            }),
        };
        if kind != Source::File {
            set_nonblock(mine.as_raw_fd());
        }
        Env { kind, mine: Rc::new(mine), peer: Some(peer), written: 0, writes: Vec::new(), fpos: 0 }
    }

    fn write(&mut self, k: usize) {
        let data: Vec<u8> = (0..k).map(|i| pat(self.written + i)).collect();
        let peer = self.peer.as_ref().unwrap_or_else(|| machinery("harness write after PeerClose".into())).as_raw_fd();
        let n = unsafe { libc::write(peer, data.as_ptr() as *const _, k) };
        if n != k as isize {
            machinery(format!("harness write of {k} bytes returned {n} ({})", io::Error::last_os_error()));
        }
        self.writes.push((self.written, k));
        self.written += k;
        if self.kind == Source::Tcp {
            // loopback TCP: wait until the peer's stack has acknowledged everything, i.e. the bytes
            // sit in (or went through) the receive queue of the source
            let t0 = Instant::now();
            loop {
                let mut q: libc::c_int = 0;
                cvt(unsafe { libc::ioctl(peer, libc::TIOCOUTQ, &mut q) }, "TIOCOUTQ");
                if q == 0 {
                    break;
                }
                if t0.elapsed() > Duration::from_secs(2) {
                    machinery("loopback TCP did not deliver harness data within 2 s".into());
                }
                std::thread::yield_now();
            }
        }
    }

    /// ground truth of the OS: bytes (next datagram size for UDP) readable on the source right now
    fn inq(&self) -> usize {
        if self.kind == Source::File {
            return self.written.saturating_sub(self.fpos);
        }
        let mut q: libc::c_int = 0;
        cvt(unsafe { libc::ioctl(self.mine.as_raw_fd(), libc::FIONREAD, &mut q) }, "FIONREAD");
        q as usize
    }

    fn closed(&self) -> bool {
        self.peer.is_none()
    }

    /// can the peer end of this kind of source be closed so that reads see end of file?
    /// (a connected UDP socket has no end of file; a file is at its end whenever the cursor is)
    fn closable(kind: Source) -> bool {
        matches!(kind, Source::Pipe | Source::Unix | Source::Tcp)
    }

    /// PeerClose: the harness closes its end; what it wrote before stays readable, then every
    /// read-style operation completes with 0 bytes
    fn close_peer(&mut self) {
        let peer = self.peer.take().unwrap_or_else(|| machinery("PeerClose twice".into()));
        drop(peer);
        if self.kind == Source::Tcp {
            // loopback TCP: own the delivery of the FIN (everything written was acknowledged before)
            let t0 = Instant::now();
            loop {
                let mut pfd = libc::pollfd { fd: self.mine.as_raw_fd(), events: libc::POLLRDHUP, revents: 0 };
                cvt(unsafe { libc::poll(&mut pfd, 1, 0) }, "poll(POLLRDHUP)");
                if pfd.revents & (libc::POLLRDHUP | libc::POLLHUP) != 0 {
                    break;
                }
                if t0.elapsed() > Duration::from_secs(2) {
                    machinery("loopback TCP did not deliver the harness' FIN within 2 s".into());
                }
                std::thread::yield_now();
            }
        }
    }

    /// every further read-style operation completes with 0 bytes: the peer is closed and all it
    /// wrote was consumed, or the file cursor is at (or behind) the end of the file
    fn at_eof(&self) -> bool {
        match self.kind {
            Source::File => self.fpos >= self.written,
            Source::Udp => false,
            _ => self.closed() && self.inq() == 0,
        }
    }

    /// a fresh source of the same kind with an open peer (the conservation probe needs data);
    /// the position code of the written bytes continues
    fn renew(&mut self) {
        let mut n = Env::new(self.kind);
        n.written = self.written;
        n.writes = std::mem::take(&mut self.writes);
        *self = n;
    }
}

// ---------------------------------------------------------------------------------------------
// operations
// ---------------------------------------------------------------------------------------------

type ReadFut = Pin<Box<dyn Future<Output = io::Result<Option<BufferRef>>>>>;
type MultiSt = Pin<Box<dyn Stream<Item = io::Result<BufferRef>>>>;

fn ready_err(e: io::Error) -> ReadFut {
    Box::pin(std::future::ready(Err(e)))
}

/// the managed single-shot read of this source, built exactly like the high-level crates build it
/// (pool from the runtime, op constructor errors returned before anything is submitted)
fn make_read(rt: &Runtime, kind: Source, fd: OpFd, len: usize, pos: u64) -> ReadFut {
    let pool = match rt.buffer_pool() {
        Ok(p) => p,
        Err(e) => return ready_err(e),
    };
    match kind {
        Source::Pipe => match ReadManaged::new(fd, &pool, len) {
            Ok(op) => {
                let sub = rt.submit(op);
                Box::pin(async move { unsafe { sub.await.take_buffer() } })
            }
            Err(e) => ready_err(e),
        },
        Source::Unix | Source::Tcp => match RecvManaged::new(fd, &pool, len, RecvFlags::empty()) {
            Ok(op) => {
                let sub = rt.submit(op);
                Box::pin(async move { unsafe { sub.await.take_buffer() } })
            }
            Err(e) => ready_err(e),
        },
        Source::Udp => match RecvFromManaged::new(fd, &pool, len, RecvFlags::empty()) {
            Ok(op) => {
                let sub = rt.submit(op);
                // same result handling as compio-net's `recv_from_managed`
                Box::pin(async move {
                    let BufResult(res, op) = sub.await;
                    let n = res?;
                    if n == 0 {
                        return Ok(None);
                    }
                    let Some((mut buf, _addr)) = op.take_buffer() else {
                        return Err(io::Error::new(
                            io::ErrorKind::UnexpectedEof,
                            format!("Read {n} bytes, but no buffer was selected by kernel"),
                        ));
                    };
                    unsafe { buf.advance_to(n) };
                    Ok(Some(buf))
                })
            }
            Err(e) => ready_err(e),
        },
        Source::File => match ReadManagedAt::new(fd, pos, &pool, len) {
            Ok(op) => {
                let sub = rt.submit(op);
                Box::pin(async move { unsafe { sub.await.take_buffer() } })
            }
            Err(e) => ready_err(e),
        },
    }
}

/// the managed multishot stream of this source, built like compio-net / compio-runtime build it
fn make_multi(rt: &Runtime, kind: Source, fd: OpFd) -> MultiSt {
    let rt = rt.clone();
    match kind {
        Source::Pipe => Box::pin(SubmitMultiStream::new(move || {
            let pool = rt.buffer_pool()?;
            let op = ReadMulti::new(fd.clone(), &pool, 0)?;
            Ok(rt.submit_multi(op).into_managed(pool))
        })),
        Source::Unix | Source::Tcp | Source::Udp => Box::pin(SubmitMultiStream::new(move || {
            let pool = rt.buffer_pool()?;
            let op = RecvMulti::new(fd.clone(), &pool, 0, RecvFlags::empty())?;
            Ok(rt.submit_multi(op).into_managed(pool))
        })),
        Source::File => unreachable!("no multishot on files"),
    }
}

// ---------------------------------------------------------------------------------------------
// world
// ---------------------------------------------------------------------------------------------

#[derive(Clone, Copy, Debug, PartialEq, Eq)]
pub enum Act {
    Stop,
    Read(usize),
    MultiStart,
    MultiNext,
    MultiDrop,
    Write(bool),
    Release(usize),
    Cancel(usize),
    Harvest,
    DropRt,
    PeerClose,
    EofBurst,
}

impl Act {
    fn name(self) -> String {
        match self {
            Act::Stop => "Stop+Probe".into(),
            Act::Read(l) => format!("ManagedRead(len={l})"),
            Act::MultiStart => "MultiStart".into(),
            Act::MultiNext => "MultiNext".into(),
            Act::MultiDrop => "MultiDrop".into(),
            Act::Write(big) => format!("PeerWrite({})", if big { "buflen+3" } else { "3" }),
            Act::Release(j) => format!("Release(h{j})"),
            Act::Cancel(s) => format!("Cancel(r{s})"),
            Act::Harvest => "Harvest".into(),
            Act::DropRt => "DropRuntimeKeepingHandles".into(),
            Act::PeerClose => "PeerClose".into(),
            Act::EofBurst => "EofBurst(pool_size+1 managed reads at end of file, each awaited)".into(),
        }
    }

    fn kind(self) -> &'static str {
        match self {
            Act::Stop => "stop",
            Act::Read(0) => "read",
            Act::Read(_) => "readL",
            Act::MultiStart => "mstart",
            Act::MultiNext => "mnext",
            Act::MultiDrop => "mdrop",
            Act::Write(false) => "write",
            Act::Write(true) => "writeB",
            Act::Release(_) => "release",
            Act::Cancel(_) => "cancel",
            Act::Harvest => "harvest",
            Act::DropRt => "droprt",
            Act::PeerClose => "close",
            Act::EofBurst => "eofburst",
        }
    }
}

struct Held {
    buf: BufferRef,
    id: u16,
    ptr: usize,
    snap: Vec<u8>,
    block: Vec<u8>,
    origin: String,
}

struct Slot {
    fut: ReadFut,
    flag: Arc<Flag>,
    waker: Waker,
    probe: Rc<Probe>,
    len: usize,
    pos: usize,
    /// highest number of user-held handles seen while this op was outstanding
    max_held: usize,
    /// highest value of (user-held handles + OTHER single-shot reads outstanding) seen while this op
    /// was outstanding: a read that is still in a slot may already have completed inside the kernel
    /// with a selected buffer (data, or -- on kernels that consume a buffer for it -- 0 bytes at end
    /// of file, after which no handle ever shows that the buffer was away)
    max_away: usize,
    /// a multishot stream or a dropped-but-unreleased operation existed while this op was
    /// outstanding: such operations may own buffers the harness cannot count
    shadow: bool,
    name: String,
}

struct Multi {
    st: MultiSt,
    flag: Arc<Flag>,
    waker: Waker,
    probe: Rc<Probe>,
    /// last poll returned Pending (an operation of the stream is outstanding)
    waiting: bool,
    /// a harvest happened since that poll
    harvested: bool,
    max_held: usize,
    /// the stream reported its end (polling it again would start a new operation)
    ended: bool,
}

pub struct Vio {
    pub key: String,
    pub what: String,
    /// the verdict rests on the expiry of a settle bound (re-checked with a longer bound)
    pub timing: bool,
}

const TIMING_ORACLES: [&str; 3] = ["hang", "exhaustion-hang", "op-never-released"];

pub struct Exec {
    pub vios: Vec<Vio>,
    pub sig: String,
    pub steps: u64,
    pub reached: Vec<&'static str>,
    pub history: Vec<String>,
}

struct World<'a> {
    cfg: &'a Cfg,
    env: Env,
    slots: Vec<Option<Slot>>,
    multi: Option<Multi>,
    held: Vec<Held>,
    /// cancelled / dropped operations whose storage the driver has not released yet
    zombies: Vec<Rc<Probe>>,
    delivered: Vec<(usize, usize)>,
    /// an operation that may have consumed data was dropped (its data is legitimately gone)
    loss: bool,
    nreads: usize,
    nwrites: usize,
    steps: usize,
    seen_cancel: bool,
    seen_multi: bool,
    in_probe: bool,
    vios: Vec<Vio>,
    hist: Vec<String>,
    obs: Vec<String>,
    reached: Vec<&'static str>,
}

fn errclass(e: &io::Error) -> String {
    match e.raw_os_error() {
        Some(n) => format!("errno{n}"),
        None => format!("{:?}", e.kind()),
    }
}

fn buffer_id_of(b: &BufferRef) -> Option<u16> {
    let s = format!("{b:?}");
    let i = s.rfind("buffer_id: ")?;
    let t = &s[i + 11..];
    let end = t.find(|c: char| !c.is_ascii_digit()).unwrap_or(t.len());
    t[..end].parse().ok()
}

impl<'a> World<'a> {
    fn new(cfg: &'a Cfg) -> Self {
        World {
            cfg,
            env: Env::new(cfg.source),
            slots: (0..cfg.slots).map(|_| None).collect(),
            multi: None,
            held: Vec::new(),
            zombies: Vec::new(),
            delivered: Vec::new(),
            loss: false,
            nreads: 0,
            nwrites: 0,
            steps: 0,
            seen_cancel: false,
            seen_multi: false,
            in_probe: false,
            vios: Vec::new(),
            hist: Vec::new(),
            obs: Vec::new(),
            reached: Vec::new(),
        }
    }

    fn trace(&self, s: impl FnOnce() -> String) {
        if self.cfg.verbose {
            println!("    {}", s());
        }
    }

    fn reach(&mut self, k: &'static str) {
        if !self.reached.contains(&k) {
            self.reached.push(k);
        }
    }

    fn note(&mut self, s: String) {
        self.trace(|| format!("-> {s}"));
        if let Some(h) = self.hist.last_mut() {
            h.push_str(" -> ");
            h.push_str(&s);
        }
    }

    fn vio(&mut self, oracle: &str, detail: String) {
        // cause class: which pool implementation, which oracle, and whether a multishot stream was
        // part of the failing history (the source only selects the op type; it is named in `what`)
        let key = format!(
            "{}:{}:{}",
            driver_name(self.cfg.driver),
            oracle,
            if self.seen_multi { "multishot" } else { "single-shot" }
        );
        let what = format!(
            "{oracle}: {detail}; config {} (pool_size={}, buffer_len={}); history: [{}]",
            self.cfg.label(),
            self.cfg.pool,
            self.cfg.buflen,
            self.hist.join("; ")
        );
        if self.cfg.verbose {
            println!("    !! VIOLATION {key}: {detail}");
        }
        self.vios.push(Vio { key, what, timing: TIMING_ORACLES.contains(&oracle) });
    }

    fn failed(&self) -> bool {
        !self.vios.is_empty()
    }

    fn eff_cap(&self, len: usize) -> usize {
        if len == 0 { self.cfg.buflen } else { len.min(self.cfg.buflen) }
    }

    fn pending_slots(&self) -> usize {
        self.slots.iter().filter(|s| s.is_some()).count()
    }

    fn prune_zombies(&mut self) {
        self.zombies.retain(|p| p.live.get() > 0);
    }

    fn outstanding(&self) -> bool {
        self.pending_slots() > 0 || self.multi.is_some() || self.zombies.iter().any(|p| p.live.get() > 0)
    }

    fn bump_max_held(&mut self) {
        let h = self.held.len();
        let shadow = self.multi.is_some() || self.zombies.iter().any(|p| p.live.get() > 0);
        let pending = self.pending_slots();
        for s in self.slots.iter_mut().flatten() {
            s.max_held = s.max_held.max(h);
            s.max_away = s.max_away.max(h + pending - 1);
            s.shadow |= shadow;
        }
        if let Some(m) = &mut self.multi {
            m.max_held = m.max_held.max(h);
        }
    }

    // ---------------------------------------------------------------------------------------
    // enabled actions
    // ---------------------------------------------------------------------------------------

    fn enabled(&self) -> Vec<Act> {
        let mut v = vec![Act::Stop];
        if self.steps >= self.cfg.depth {
            return v;
        }
        if self.slots.iter().any(|s| s.is_none()) {
            for &l in &self.cfg.lens {
                v.push(Act::Read(l));
            }
        }
        if self.cfg.source != Source::File {
            if self.multi.is_none() {
                v.push(Act::MultiStart);
            } else {
                if !self.multi.as_ref().is_some_and(|m| m.ended) {
                    v.push(Act::MultiNext);
                }
                v.push(Act::MultiDrop);
            }
        }
        if !self.env.closed() {
            v.push(Act::Write(false));
            v.push(Act::Write(true));
        }
        for j in 0..self.held.len() {
            v.push(Act::Release(j));
        }
        for (i, s) in self.slots.iter().enumerate() {
            if s.is_some() {
                v.push(Act::Cancel(i));
            }
        }
        if self.outstanding() {
            v.push(Act::Harvest);
        }
        if !self.held.is_empty() || self.outstanding() {
            // dropping an idle runtime nobody holds anything of is what every teardown does anyway
            v.push(Act::DropRt);
        }
        // zero-length completions (appended last: the choice numbers of the other steps are stable)
        if self.cfg.eof {
            if Env::closable(self.cfg.source) && !self.env.closed() {
                v.push(Act::PeerClose);
            }
            if self.env.at_eof() && self.slots.iter().any(|s| s.is_none()) {
                v.push(Act::EofBurst);
            }
        }
        v
    }

    /// a zero-length result is legitimate exactly at end of file
    fn judge_zero(&mut self, origin: &str, multishot: bool) {
        let legit = match self.cfg.source {
            Source::File => true, // judged by the caller against the read position
            Source::Udp => false,
            _ => self.env.closed(),
        };
        if !legit {
            self.vio(
                "data-mismatch",
                format!("{origin} reported end of data although the peer is open and never wrote an empty message"),
            );
            return;
        }
        let left = self.env.inq();
        if self.cfg.source != Source::File && left > 0 {
            self.vio(
                "data-mismatch",
                format!("{origin} reported end of data although {left} byte(s) the peer wrote before it closed are still unread"),
            );
            return;
        }
        if multishot {
            self.reach("multishot-stream-ended-at-end-of-file");
        } else if self.cfg.source != Source::File {
            self.reach("managed-read-zero-length-completion");
        }
        if self.cfg.driver == DriverType::IoUring && !multishot && zero_selects(self.cfg.source) == Some(true) {
            // the running kernel consumes a ring buffer for this completion (calibrated at start)
            self.reach(ZERO_SELECTED);
            if let Some(k) = zero_selected_by_kind(self.cfg.source) {
                self.reach(k);
            }
        }
    }

    // ---------------------------------------------------------------------------------------
    // oracle pieces
    // ---------------------------------------------------------------------------------------

    /// (i) + (ii): distinct ids, disjoint ranges, unchanged bytes of every held handle
    fn check_held(&mut self, when: &str) {
        let mut bad: Vec<(&'static str, String)> = Vec::new();
        for (j, h) in self.held.iter().enumerate() {
            let now = h.buf.as_init();
            if now != &h.snap[..] {
                bad.push((
                    "held-changed",
                    format!(
                        "handle h{j} (buffer id {}, from {}) changed while held, {when}: received {:02x?}, now {:02x?}",
                        h.id, h.origin, h.snap, now
                    ),
                ));
            } else if now.as_ptr() as usize != h.ptr {
                bad.push(("held-changed", format!("handle h{j} moved to another address {when}")));
            } else {
                match alloc::block_bytes(h.ptr) {
                    None => bad.push((
                        "held-freed",
                        format!("the memory of handle h{j} (buffer id {}) is no longer allocated, {when}", h.id),
                    )),
                    Some(b) if b != h.block => bad.push((
                        "held-changed",
                        format!(
                            "spare part of the buffer of handle h{j} (buffer id {}) was written while held, {when}: {:02x?} -> {:02x?}",
                            h.id, h.block, b
                        ),
                    )),
                    _ => {}
                }
            }
        }
        let bl = self.cfg.buflen;
        for a in 0..self.held.len() {
            for b in a + 1..self.held.len() {
                let (x, y) = (&self.held[a], &self.held[b]);
                if x.id == y.id {
                    bad.push((
                        "alias",
                        format!(
                            "two live handles have buffer id {} (h{a} from {}, h{b} from {}), {when}",
                            x.id, x.origin, y.origin
                        ),
                    ));
                } else if x.ptr < y.ptr + bl && y.ptr < x.ptr + bl {
                    bad.push((
                        "alias",
                        format!("handles h{a} (id {}) and h{b} (id {}) overlap in memory, {when}", x.id, y.id),
                    ));
                }
            }
        }
        if self.held.len() >= 2 && bad.is_empty() {
            self.reach("two-live-handles-distinct");
        }
        if let Some((o, d)) = bad.into_iter().next() {
            self.vio(o, d);
        }
    }

    /// no-loss bookkeeping of byte streams: everything the OS consumed was delivered unless an
    /// operation is still outstanding or was dropped
    fn check_stream_accounting(&mut self, when: &str) {
        if !self.cfg.source.is_stream() || self.failed() {
            return;
        }
        let consumed = self.env.written - self.env.inq();
        let delivered: usize = self.delivered.iter().map(|(_, n)| n).sum();
        if delivered > consumed {
            self.vio(
                "data-mismatch",
                format!("{delivered} bytes delivered but the OS only consumed {consumed}, {when}"),
            );
        } else if delivered < consumed && !self.loss && self.pending_slots() == 0 && self.multi.is_none() {
            self.vio(
                "data-lost",
                format!(
                    "the OS consumed {consumed} bytes, only {delivered} were delivered and no operation is outstanding or was dropped, {when}"
                ),
            );
        }
    }

    /// a buffer handed to the user: validate identity + content, then hold it
    fn receive(&mut self, buf: BufferRef, cap: usize, pos: usize, origin: String) {
        let data = buf.as_init().to_vec();
        let ptr = buf.as_init().as_ptr() as usize;
        let id = buffer_id_of(&buf).unwrap_or_else(|| machinery(format!("cannot find buffer_id in {buf:?}")));
        self.note(format!("buffer id {id} {data:02x?}"));
        let block = alloc::block_bytes(ptr);
        let Some(block) = block else {
            self.vio(
                "foreign-buffer",
                format!("{origin} returned a handle whose memory {ptr:#x} is not a live pool buffer"),
            );
            std::mem::forget(buf);
            return;
        };
        // content against the reference: position-coded bytes
        let n = data.len();
        let mut err = None;
        if n == 0 {
            err = Some("an empty buffer was delivered as data".to_string());
        } else if n > cap {
            err = Some(format!("{n} bytes delivered, more than the requested/possible {cap}"));
        } else {
            let start = data[0] as usize - 1;
            let want_start = match self.env.kind {
                Source::File => Some(pos),
                _ => None,
            };
            if data[0] == 0 || start + n > self.env.written || (0..n).any(|i| data[i] != pat(start + i)) {
                err = Some(format!("bytes {data:02x?} are not a contiguous piece of what the peer wrote"));
            } else if want_start.is_some_and(|w| w != start) {
                err = Some(format!("read at file position {pos} returned the bytes of position {start}"));
            } else if self.delivered.iter().any(|&(s, l)| start < s + l && s < start + n) {
                err = Some(format!("bytes at stream position {start}..{} were delivered twice", start + n));
            } else {
                match self.env.kind {
                    Source::Udp => match self.env.writes.iter().find(|w| w.0 == start) {
                        None => err = Some(format!("datagram data starting in the middle of a datagram (position {start})")),
                        Some(&(_, k)) if n != k.min(cap) => {
                            err = Some(format!("datagram of {k} bytes delivered as {n} bytes (capacity {cap})"))
                        }
                        _ => {}
                    },
                    Source::File => {
                        let want = cap.min(self.env.written - pos);
                        if n != want {
                            err = Some(format!("file read at {pos} returned {n} bytes, the reference says {want}"));
                        }
                    }
                    _ => {
                        let consumed = self.env.written - self.env.inq();
                        if start + n > consumed {
                            err = Some(format!(
                                "delivered stream bytes {start}..{} although the OS has only consumed {consumed}",
                                start + n
                            ));
                        }
                    }
                }
            }
            if err.is_none() {
                if self.env.kind != Source::File {
                    self.delivered.push((start, n));
                }
            }
        }
        if let Some(e) = err {
            self.vio("data-mismatch", format!("{origin}: {e}"));
        }
        if !self.held.is_empty() {
            self.reach("completion-while-handles-held");
        }
        self.held.push(Held { buf, id, ptr, snap: data, block, origin });
        self.bump_max_held();
        self.check_held("right after a buffer was received");
    }

    /// judge an error result of a managed read / stream item
    fn on_error(&mut self, e: io::Error, origin: &str, max_held: usize, max_away: usize, shadow: bool) {
        let own_pending = 0;
        let cls = errclass(&e);
        self.note(format!("Err({cls})"));
        if e.kind() != io::ErrorKind::ResourceBusy {
            self.vio("wrong-error", format!("{origin} failed with {cls} ({e}); only the documented ResourceBusy can happen here"));
            return;
        }
        if self.in_probe {
            self.reach("probe-exhaustion-reported");
        } else if self.cfg.driver == DriverType::Poll {
            self.reach("busy-error-mid-program-fallback");
        } else {
            self.reach("busy-error-mid-program-iour");
        }
        // Is exhaustion plausible?  Upper bound of the buffers that can be away from the pool.
        let fallback = self.cfg.driver == DriverType::Poll;
        let zombies = self.zombies.iter().map(|p| p.live.get()).sum::<usize>();
        let away = if fallback {
            // every created op holds one buffer until its storage is released
            max_held.max(self.held.len())
                + self.pending_slots().saturating_sub(own_pending)
                + self.multi.as_ref().is_some_and(|m| m.waiting) as usize
                + zombies
        } else if shadow || self.multi.is_some() || zombies > 0 {
            usize::MAX // completions queued inside a multishot op / a cancelled op: not observable
        } else {
            // the failing op itself is no longer in a slot here
            (max_held.max(self.held.len()) + self.pending_slots().saturating_sub(own_pending)).max(max_away)
        };
        if away < self.cfg.pool as usize {
            self.vio(
                "spurious-busy",
                format!(
                    "{origin} reported ResourceBusy although at most {away} of {} buffers can be away from the pool",
                    self.cfg.pool
                ),
            );
        }
    }

    // ---------------------------------------------------------------------------------------
    // stepping
    // ---------------------------------------------------------------------------------------

    /// one reap of the driver + executor tick + poll of every woken single-shot read
    fn harvest_round(&mut self, rt: &Runtime) -> bool {
        rt.poll_with(Some(Duration::ZERO));
        rt.run();
        if let Some(m) = &mut self.multi {
            m.harvested = true;
        }
        let mut progressed = false;
        for i in 0..self.slots.len() {
            let woken = self.slots[i].as_ref().is_some_and(|s| s.flag.0.swap(false, Ordering::SeqCst));
            if woken {
                progressed |= self.poll_slot(i, "harvest");
            }
        }
        let before = self.zombies.len();
        self.prune_zombies();
        progressed | (self.zombies.len() != before)
    }

    /// returns true if the read finished
    fn poll_slot(&mut self, i: usize, via: &str) -> bool {
        let mut s = self.slots[i].take().unwrap();
        let mut cx = Context::from_waker(&s.waker);
        match s.fut.as_mut().poll(&mut cx) {
            Poll::Pending => {
                self.slots[i] = Some(s);
                false
            }
            Poll::Ready(r) => {
                let Slot { fut, probe, len, pos, max_held, max_away, shadow, name, .. } = s;
                drop(fut);
                if probe.live.get() > 0 {
                    self.zombies.push(probe);
                }
                let origin = format!("{name} ({via})");
                match r {
                    Ok(Some(buf)) => {
                        let cap = self.eff_cap(len);
                        self.receive(buf, cap, pos, origin);
                        if self.cfg.source == Source::File {
                            self.env.fpos += self.held.last().map(|h| h.snap.len()).unwrap_or(0);
                        }
                    }
                    Ok(None) => {
                        self.note("Ok(None)".into());
                        if self.cfg.source == Source::File && pos >= self.env.written {
                            self.reach("file-eof-zero-length-completion");
                            self.judge_zero(&origin, false);
                        } else if self.cfg.source == Source::File {
                            self.vio(
                                "data-mismatch",
                                format!("{origin} reported end of file at position {pos} of a file of {} bytes", self.env.written),
                            );
                        } else {
                            self.judge_zero(&origin, false);
                        }
                    }
                    Err(e) => self.on_error(e, &origin, max_held, max_away, shadow),
                }
                true
            }
        }
    }

    /// harvest until `done` holds and nothing moved for two rounds; false on expiry of the bound
    fn settle(&mut self, rt: &Runtime, quiet_needed: u32, mut done: impl FnMut(&mut Self) -> bool) -> bool {
        let t0 = Instant::now();
        let mut quiet = 0;
        let mut rounds = 0u32;
        loop {
            let p = self.harvest_round(rt);
            rounds += 1;
            if self.failed() {
                return true;
            }
            if p {
                quiet = 0;
            } else {
                quiet += 1;
            }
            if done(self) {
                if quiet >= quiet_needed {
                    return true;
                }
            } else if t0.elapsed() > self.cfg.settle {
                return false;
            } else if rounds > 4 {
                std::thread::sleep(Duration::from_micros(200));
            }
        }
    }

    fn step(&mut self, rt: &Runtime, a: Act) {
        match a {
            Act::Read(len) => {
                let i = self.slots.iter().position(|s| s.is_none()).unwrap();
                self.start_read(rt, i, len);
                if self.cfg.source == Source::File && self.slots[i].is_some() {
                    // file reads always complete: data (or end of file) is available by construction
                    let ok = self.settle(rt, 0, |w| w.slots[i].is_none());
                    if !ok {
                        self.vio("hang", format!("managed file read still pending after {:?}", self.cfg.settle));
                    }
                }
            }
            Act::MultiStart => {
                let probe = Rc::new(Probe::default());
                let fd = OpFd::new(&self.env.mine, &probe);
                let st = make_multi(rt, self.cfg.source, fd);
                let (flag, waker) = new_flag();
                self.multi = Some(Multi { st, flag, waker, probe, waiting: false, harvested: false, max_held: self.held.len(), ended: false });
                self.seen_multi = true;
                // creating the stream object has no effect of its own: the step includes the first
                // `next()` poll (which creates and queues the first operation)
                self.multi_next(rt);
            }
            Act::MultiNext => self.multi_next(rt),
            Act::MultiDrop => {
                let m = self.multi.take().unwrap();
                let Multi { st, probe, .. } = m;
                drop(st);
                if probe.live.get() > 0 {
                    self.zombies.push(probe);
                    self.reach("stream-dropped-while-operation-in-driver");
                }
                self.loss = true;
                self.bump_max_held();
            }
            Act::Write(big) => {
                let k = if big { self.cfg.buflen + 3 } else { 3 };
                self.env.write(k);
                self.nwrites += 1;
            }
            Act::Release(j) => self.release(j, true),
            Act::Cancel(i) => {
                let s = self.slots[i].take().unwrap();
                let Slot { fut, probe, .. } = s;
                drop(fut);
                if probe.live.get() > 0 {
                    self.zombies.push(probe);
                }
                self.loss = true;
                self.seen_cancel = true;
                self.bump_max_held();
            }
            Act::Harvest => {
                // data available (or end of file) + an operation handed to the OS  =>  it must complete
                let ok = self.settle(rt, 2, |w| !(w.pending_slots() > 0 && (w.env.inq() > 0 || w.env.closed())));
                if !ok {
                    self.vio(
                        if self.held.len() >= self.cfg.pool as usize { "exhaustion-hang" } else { "hang" },
                        format!(
                            "a managed read stays pending for {:?} although {} byte(s) are readable on the source{} ({} handle(s) held)",
                            self.cfg.settle,
                            self.env.inq(),
                            if self.env.closed() { " and the peer is closed" } else { "" },
                            self.held.len()
                        ),
                    );
                }
            }
            Act::PeerClose => {
                self.env.close_peer();
                self.note(format!("{} unread byte(s) left", self.env.inq()));
            }
            Act::EofBurst => {
                for _ in 0..=self.cfg.pool {
                    let i = self.slots.iter().position(|s| s.is_none()).unwrap();
                    self.start_read(rt, i, 0);
                    if self.slots[i].is_some() {
                        // end of file is never consumed: the read completes by construction
                        let ok = self.settle(rt, 0, |w| w.slots[i].is_none());
                        if !ok && !self.failed() {
                            self.vio("hang", format!("managed read at end of file still pending after {:?}", self.cfg.settle));
                        }
                    }
                    if self.failed() {
                        break;
                    }
                }
            }
            Act::Stop | Act::DropRt => unreachable!(),
        }
    }

    fn start_read(&mut self, rt: &Runtime, i: usize, len: usize) {
        let probe = Rc::new(Probe::default());
        let fd = OpFd::new(&self.env.mine, &probe);
        let pos = self.env.fpos;
        let name = format!("read#{}", self.nreads);
        self.nreads += 1;
        let fut = make_read(rt, self.cfg.source, fd, len, pos as u64);
        let (flag, waker) = new_flag();
        let shadow = self.multi.is_some() || self.zombies.iter().any(|p| p.live.get() > 0);
        self.slots[i] = Some(Slot { fut, flag, waker, probe, len, pos, max_held: self.held.len(), max_away: 0, shadow, name });
        // this read and the ones already outstanding now see each other
        self.bump_max_held();
        if !self.poll_slot(i, "first poll") {
            self.note("pending".into());
        }
    }

    fn poll_multi(&mut self) -> Poll<Option<io::Result<BufferRef>>> {
        let m = self.multi.as_mut().unwrap();
        m.flag.0.store(false, Ordering::SeqCst);
        let mut cx = Context::from_waker(&m.waker);
        m.st.as_mut().poll_next(&mut cx)
    }

    fn multi_next(&mut self, rt: &Runtime) {
        let mut r = self.poll_multi();
        if r.is_pending() {
            let m = self.multi.as_ref().unwrap();
            if m.waiting && m.harvested && (self.env.inq() > 0 || self.env.at_eof()) {
                // the stream's operation was handed to the OS by an earlier harvest and data is
                // readable: an item (or the exhaustion error) is due
                let t0 = Instant::now();
                loop {
                    self.harvest_round(rt);
                    if self.failed() {
                        return;
                    }
                    r = self.poll_multi();
                    if r.is_ready() || (self.env.inq() == 0 && !self.env.closed()) {
                        // an item arrived, or another operation took the data meanwhile
                        break;
                    }
                    if t0.elapsed() > self.cfg.settle {
                        self.vio(
                            if self.held.len() >= self.cfg.pool as usize { "exhaustion-hang" } else { "hang" },
                            format!(
                                "the multishot stream stays pending for {:?} although {} byte(s) are readable{} ({} handle(s) held)",
                                self.cfg.settle,
                                self.env.inq(),
                                if self.env.closed() { " and the peer is closed" } else { "" },
                                self.held.len()
                            ),
                        );
                        return;
                    }
                    std::thread::sleep(Duration::from_micros(200));
                }
            }
        }
        let max_held = self.multi.as_ref().unwrap().max_held;
        match r {
            Poll::Pending => {
                let m = self.multi.as_mut().unwrap();
                m.waiting = true;
                m.harvested = false;
                self.note("pending".into());
            }
            Poll::Ready(item) => {
                {
                    let m = self.multi.as_mut().unwrap();
                    m.waiting = false;
                    m.max_held = self.held.len();
                }
                match item {
                    Some(Ok(buf)) => {
                        self.reach("multishot-item");
                        let cap = self.cfg.buflen;
                        self.receive(buf, cap, 0, "multishot stream".into());
                    }
                    Some(Err(e)) => {
                        self.on_error(e, "multishot stream", max_held, 0, true);
                    }
                    None => {
                        self.note("end of stream".into());
                        self.multi.as_mut().unwrap().ended = true;
                        self.judge_zero("the multishot stream", true);
                    }
                }
            }
        }
    }

    fn release(&mut self, j: usize, pool_alive: bool) {
        let h = self.held.remove(j);
        let (_, d0, _) = alloc::counts();
        let Held { buf, ptr, id, .. } = h;
        drop(buf);
        let (_, d1, _) = alloc::counts();
        if pool_alive {
            if d1 != d0 || !alloc::is_live(ptr) {
                self.vio(
                    "freed-while-pool-alive",
                    format!("dropping the handle of buffer id {id} deallocated memory although the pool is alive"),
                );
            }
        } else if d1 != d0 + 1 || alloc::is_live(ptr) {
            self.vio(
                "outlive-free",
                format!(
                    "dropping the handle of buffer id {id} after the runtime was dropped performed {} deallocation(s), its block is {}",
                    d1 - d0,
                    if alloc::is_live(ptr) { "still allocated" } else { "gone" }
                ),
            );
        }
    }

    // ---------------------------------------------------------------------------------------
    // endings
    // ---------------------------------------------------------------------------------------

    /// (iii) conservation probe
    fn probe(&mut self, rt: &Runtime) {
        // let go of everything
        for i in 0..self.slots.len() {
            if let Some(s) = self.slots[i].take() {
                let Slot { fut, probe, .. } = s;
                drop(fut);
                if probe.live.get() > 0 {
                    self.zombies.push(probe);
                }
                self.loss = true;
            }
        }
        if let Some(m) = self.multi.take() {
            let Multi { st, probe, .. } = m;
            drop(st);
            if probe.live.get() > 0 {
                self.zombies.push(probe);
            }
            self.loss = true;
        }
        while !self.held.is_empty() {
            self.release(0, true);
            self.check_held("while releasing everything before the probe");
            if self.failed() {
                return;
            }
        }
        let ok = self.settle(rt, 1, |w| {
            w.prune_zombies();
            w.zombies.is_empty()
        });
        if self.failed() {
            return;
        }
        if !ok {
            self.vio(
                "op-never-released",
                format!(
                    "{} cancelled operation(s) still own their storage {:?} after the cancellation",
                    self.zombies.len(),
                    self.cfg.settle
                ),
            );
            return;
        }
        // make data available for pool_size + 1 reads
        if self.env.closed() {
            // the peer of the program's source is gone: the probe reads from a fresh source of the
            // same kind (same runtime, same pool)
            self.loss |= self.env.inq() > 0;
            self.env.renew();
        }
        self.in_probe = true;
        let p = self.cfg.pool as usize;
        match self.cfg.source {
            Source::Udp => {
                for _ in 0..=p {
                    self.env.write(self.cfg.buflen);
                }
            }
            _ => self.env.write((p + 1) * self.cfg.buflen),
        }
        if self.cfg.source == Source::File {
            self.env.fpos = self.env.written - (p + 1) * self.cfg.buflen;
        }
        self.hist.push(format!("Probe: {} managed reads with data available, all results held", p + 1));
        let mut got = 0usize;
        let mut last: Option<String> = None;
        for k in 0..=p {
            let before = self.held.len();
            self.start_read(rt, 0, 0);
            if self.slots[0].is_some() {
                let ok = self.settle(rt, 0, |w| w.slots[0].is_none());
                if self.failed() {
                    self.rephrase_probe_busy(k, p, got);
                    return;
                }
                if !ok {
                    // exhaustion must be an error, not a hang
                    let s = self.slots[0].take();
                    drop(s);
                    self.vio(
                        if k >= p { "exhaustion-hang" } else { "hang" },
                        format!(
                            "probe read {} of {} still pending after {:?} with data available and {got} of {p} buffer(s) held{}",
                            k + 1,
                            p + 1,
                            self.cfg.settle,
                            if k >= p { ": exhaustion is not reported as an error" } else { "" }
                        ),
                    );
                    return;
                }
            }
            if self.failed() {
                self.rephrase_probe_busy(k, p, got);
                return;
            }
            if self.held.len() == before + 1 {
                got += 1;
                last = None;
            } else {
                last = Some("ResourceBusy".into());
                if k < p {
                    // Busy that `on_error` judged plausible cannot be plausible here: nothing is away
                    self.vio(
                        "conservation-short",
                        format!(
                            "after releasing everything only {got} of {p} buffers can be obtained (probe read {} reports ResourceBusy)",
                            k + 1
                        ),
                    );
                    return;
                }
            }
        }
        if got > p {
            self.vio(
                "conservation-excess",
                format!("the probe obtained {got} live buffers from a pool of {p}"),
            );
            return;
        }
        debug_assert!(last.is_some());
        self.reach("probe-exact");
        self.check_held("at the end of the probe");
    }

    /// a ResourceBusy among the first pool_size probe reads is the conservation verdict
    fn rephrase_probe_busy(&mut self, k: usize, p: usize, got: usize) {
        if k < p && self.vios.last().is_some_and(|v| v.key.contains(":spurious-busy:")) {
            self.vios.pop();
            self.vio(
                "conservation-short",
                format!(
                    "after releasing everything and settling only {got} of {p} buffers can be obtained (probe read {} reports ResourceBusy): the pool has silently shrunk",
                    k + 1
                ),
            );
        }
    }

    /// DropRuntimeKeepingHandles: (v)
    fn drop_runtime(&mut self, rt: Runtime) {
        for s in self.slots.iter_mut() {
            if let Some(s) = s.take() {
                drop(s);
            }
        }
        if let Some(m) = self.multi.take() {
            drop(m);
        }
        self.zombies.clear();
        if !self.held.is_empty() {
            self.reach("runtime-dropped-with-handles-held");
        }
        if let Some((o, d)) = drop_rt_watched(rt).into_iter().next() {
            self.vio(o, format!("while the runtime was dropped: {d}"));
            return;
        }
        let live = alloc::live_ptrs();
        let mine: Vec<usize> = self.held.iter().map(|h| h.ptr).collect();
        if let Some(h) = self.held.iter().find(|h| !live.contains(&h.ptr)) {
            self.vio(
                "held-freed",
                format!("dropping the runtime freed the memory of the held handle of buffer id {}", h.id),
            );
            // the handle would free it again
            for h in self.held.drain(..) {
                std::mem::forget(h.buf);
            }
            return;
        }
        let extra = live.iter().filter(|p| !mine.contains(p)).count();
        if extra > 0 {
            self.vio(
                "pool-not-freed",
                format!(
                    "{extra} pool buffer(s) that no handle owns are still allocated after the runtime was dropped ({} handle(s) held)",
                    self.held.len()
                ),
            );
            return;
        }
        self.check_held("after the runtime was dropped");
        while !self.held.is_empty() && !self.failed() {
            self.release(0, false);
            self.check_held("after the runtime was dropped");
        }
    }
}

/// drop the runtime inside a heap quarantine window (see galloc.rs)
fn drop_rt_watched(rt: Runtime) -> Vec<(&'static str, String)> {
    galloc::open();
    drop(rt);
    galloc::close()
}

/// number of alternatives at the first choice point (static: nothing held, nothing outstanding)
pub fn initial_branching(cfg: &Cfg) -> usize {
    if cfg.depth == 0 {
        return 1;
    }
    1 + cfg.lens.len()
        + (cfg.source != Source::File) as usize
        + 2
        + (cfg.eof && Env::closable(cfg.source)) as usize
        + (cfg.eof && cfg.source == Source::File) as usize
}

pub fn build_rt(cfg: &Cfg) -> Runtime {
    let mut pb = ProactorBuilder::new();
    pb.driver_type(cfg.driver)
        .capacity(16)
        .buffer_pool_size(NonZero::new(cfg.pool).unwrap())
        .buffer_pool_buffer_len(cfg.buflen)
        .buffer_pool_allocator::<Tracking>();
    POOL.with(|p| {
        pb.reuse_thread_pool(p.clone());
    });
    RuntimeBuilder::new()
        .with_proactor(pb)
        .build()
        .unwrap_or_else(|e| machinery(format!("cannot build runtime on {:?}: {e}", cfg.driver)))
}

/// Runs one execution; all choices come from `ch`.
pub fn execute(cfg: &Cfg, ch: &mut Chooser) -> Exec {
    alloc::reset();
    let _ = galloc::close(); // a window left open by a panic of the previous execution
    LAST_HISTORY.with(|h| h.borrow_mut().clear());
    let mut rt = Some(build_rt(cfg));
    if rt.as_ref().unwrap().driver_type() != cfg.driver {
        machinery(format!("asked for {:?}, got {:?}", cfg.driver, rt.as_ref().unwrap().driver_type()));
    }
    let mut w = World::new(cfg);
    let mut stopped = false;
    loop {
        let acts = w.enabled();
        let a = if acts.len() == 1 { acts[0] } else { acts[ch.pick(acts.len())] };
        w.hist.push(a.name());
        LAST_HISTORY.with(|h| h.borrow_mut().push(a.name()));
        w.trace(|| format!("step {}: {}", w.steps, a.name()));
        let before = w.hist.last().map(|s| s.len()).unwrap_or(0);
        match a {
            Act::Stop => {
                stopped = true;
                let r = rt.as_ref().unwrap();
                r.enter(|| w.probe(r));
                break;
            }
            Act::DropRt => {
                w.steps += 1;
                w.obs.push("droprt".into());
                w.drop_runtime(rt.take().unwrap());
                break;
            }
            _ => {
                let r = rt.as_ref().unwrap();
                r.enter(|| w.step(r, a));
                w.steps += 1;
            }
        }
        w.bump_max_held();
        if !w.failed() {
            w.check_held("after a later step");
        }
        w.check_stream_accounting("after the step");
        // observation class of the step: action kind + what it reported
        let h = w.hist.last().unwrap();
        let tail = &h[before.min(h.len())..];
        let cls = if tail.contains("Err(") {
            "err"
        } else if tail.contains("buffer id") {
            "buf"
        } else if tail.contains("pending") {
            "pend"
        } else if tail.contains("Ok(None)") || tail.contains("end of stream") {
            "eof"
        } else {
            "-"
        };
        let cls = if a == Act::EofBurst && cls == "pend" { "eof" } else { cls };
        w.obs.push(format!("{}>{}", a.kind(), cls));
        if w.failed() {
            break;
        }
    }
    let _ = stopped;
    // teardown: operations, handles, runtime, then the allocator's books
    let had_vio = w.failed();
    for s in w.slots.iter_mut() {
        *s = None;
    }
    w.multi = None;
    let pool_alive = rt.is_some();
    while !w.held.is_empty() {
        if had_vio {
            drop(w.held.remove(0));
        } else {
            w.release(0, pool_alive);
        }
    }
    let heap_faults = match rt.take() {
        Some(rt) => drop_rt_watched(rt),
        None => Vec::new(),
    };
    let (allocs, deallocs, live, faults) = alloc::finish();
    if !had_vio {
        if let Some((o, d)) = heap_faults.into_iter().next() {
            w.vio(o, format!("while the runtime was dropped: {d}"));
        } else if let Some((o, d)) = faults.into_iter().next() {
            w.vio(o, d);
        } else if allocs != deallocs || live != 0 {
            w.vio(
                "alloc-imbalance",
                format!(
                    "{allocs} pool buffers were allocated, {deallocs} deallocated ({live} still allocated) after the runtime and every handle were dropped"
                ),
            );
        } else if allocs != 0 && allocs != cfg.pool as u64 {
            w.vio("alloc-imbalance", format!("{allocs} buffers allocated for a pool of {}", cfg.pool));
        }
    }
    let mut sig: Vec<String> = w.obs.clone();
    sig.sort();
    sig.dedup();
    Exec { vios: w.vios, sig: sig.join(" "), steps: w.steps as u64 + 1, reached: w.reached, history: w.hist }
}

// ---------------------------------------------------------------------------------------------
// calibration of the running kernel: does a 0-byte completion consume a ring buffer?
// ---------------------------------------------------------------------------------------------

/// must-reach counter of the zero-length dimension
pub const ZERO_SELECTED: &str = "managed_read_completed_with_zero_bytes_and_a_selected_buffer";

/// the same, per operation type
pub fn zero_selected_by_kind(kind: Source) -> Option<&'static str> {
    match kind {
        Source::Pipe => Some("managed_read_completed_with_zero_bytes_and_a_selected_buffer:pipe-ReadManaged"),
        Source::File => Some("managed_read_completed_with_zero_bytes_and_a_selected_buffer:file-ReadManagedAt"),
        Source::Unix | Source::Tcp => Some("managed_read_completed_with_zero_bytes_and_a_selected_buffer:socket-RecvManaged"),
        Source::Udp => None,
    }
}

static ZERO_SELECTS: std::sync::OnceLock<Vec<(Source, Option<bool>)>> = std::sync::OnceLock::new();

/// Some(true): on the io_uring driver a single-shot managed read of this source that completes with
/// 0 bytes has consumed a buffer of the ring (observed at start, see `calibrate`)
pub fn zero_selects(kind: Source) -> Option<bool> {
    ZERO_SELECTS.get().and_then(|v| v.iter().find(|(k, _)| *k == kind).and_then(|(_, b)| *b))
}

fn drive<F: Future>(rt: &Runtime, fut: F, bound: Duration) -> Option<F::Output> {
    let mut fut = std::pin::pin!(fut);
    let (_flag, waker) = new_flag();
    let mut cx = Context::from_waker(&waker);
    let t0 = Instant::now();
    loop {
        if let Poll::Ready(r) = fut.as_mut().poll(&mut cx) {
            return Some(r);
        }
        if t0.elapsed() > bound {
            return None;
        }
        rt.poll_with(Some(Duration::ZERO));
        rt.run();
        std::thread::sleep(Duration::from_micros(200));
    }
}

/// Independent of compio's own bookkeeping: with a ring of ONE buffer, a first managed read at end
/// of file is completed and its operation value is kept alive; a second one then either fails with
/// "no buffer" (the kernel consumed the only buffer for the first 0-byte result, whoever owns it
/// now) or completes with 0 bytes as well (the kernel did not consume one).
fn calibrate_kind(kind: Source) -> Option<bool> {
    if kind == Source::Udp {
        return None;
    }
    alloc::reset();
    let cfg = Cfg {
        driver: DriverType::IoUring,
        pool: 1,
        buflen: 8,
        source: kind,
        depth: 0,
        lens: vec![0],
        slots: 1,
        settle: Duration::from_secs(1),
        verbose: false,
        eof: true,
    };
    let rt = build_rt(&cfg);
    let mut env = Env::new(kind);
    if Env::closable(kind) {
        env.close_peer();
    }
    let probe = Rc::new(Probe::default());
    let bound = Duration::from_secs(1);
    fn verdict<O>(r1: &io::Result<usize>, second: &Option<BufResult<usize, O>>) -> Option<bool> {
        if !matches!(r1, Ok(0)) {
            return None;
        }
        match second {
            Some(BufResult(Ok(0), _)) => Some(false),
            Some(BufResult(Err(e), _))
                if e.kind() == io::ErrorKind::ResourceBusy || e.raw_os_error() == Some(libc::ENOBUFS) =>
            {
                Some(true)
            }
            _ => None,
        }
    }
    macro_rules! two {
        ($mk:expr) => {{
            (|| {
                let BufResult(r1, op1) = drive(&rt, rt.submit($mk.ok()?), bound)?;
                let second = drive(&rt, rt.submit($mk.ok()?), bound);
                let v = verdict(&r1, &second);
                drop(second);
                drop(op1);
                v
            })()
        }};
    }
    let v = rt.enter(|| {
        let pool = rt.buffer_pool().ok()?;
        match kind {
            Source::Pipe => two!(ReadManaged::new(OpFd::new(&env.mine, &probe), &pool, 0)),
            Source::Unix | Source::Tcp => {
                two!(RecvManaged::new(OpFd::new(&env.mine, &probe), &pool, 0, RecvFlags::empty()))
            }
            Source::File => two!(ReadManagedAt::new(OpFd::new(&env.mine, &probe), 0, &pool, 0)),
            Source::Udp => None,
        }
    });
    // let the driver release the operations before the runtime goes away
    for _ in 0..50 {
        if probe.live.get() == 0 {
            break;
        }
        rt.poll_with(Some(Duration::ZERO));
        rt.run();
        std::thread::sleep(Duration::from_micros(200));
    }
    drop(rt);
    let _ = alloc::finish();
    alloc::reset();
    v
}

/// run once, on the main thread, before any execution
pub fn calibrate() -> &'static [(Source, Option<bool>)] {
    ZERO_SELECTS.get_or_init(|| Source::ALL.iter().map(|&k| (k, calibrate_kind(k))).collect())
}
