//! Global allocator with a per-thread "quarantine window".
//!
//! While a window is open on the current thread (the harness opens one around every drop of a
//! runtime), a released heap block is not handed back to the system allocator: it is filled with a
//! canary and parked.  Closing the window re-checks the canaries and reports
//! * a block released twice inside the window (double free), and
//! * a block whose canary changed (somebody - compio or the OS - wrote into freed memory),
//! deterministically and without corrupting the process heap.  Outside windows the allocator is
//! the system allocator plus one thread-local read.

use std::{
    alloc::{GlobalAlloc, Layout, System},
    cell::Cell,
    ptr::null_mut,
};

const CANARY: u8 = 0xFD;
const CAP: usize = 4096;

#[repr(C)]
struct Entry {
    ptr: *mut u8,
    size: usize,
    align: usize,
}

struct Window {
    n: usize,
    double_frees: usize,
    double_free_size: usize,
    entries: [Entry; CAP],
}

thread_local! {
    static WINDOW: Cell<*mut Window> = const { Cell::new(null_mut()) };
}

pub struct Quarantine;

unsafe impl GlobalAlloc for Quarantine {
    unsafe fn alloc(&self, layout: Layout) -> *mut u8 {
        unsafe { System.alloc(layout) }
    }

    unsafe fn alloc_zeroed(&self, layout: Layout) -> *mut u8 {
        unsafe { System.alloc_zeroed(layout) }
    }

    unsafe fn dealloc(&self, ptr: *mut u8, layout: Layout) {
        let w = WINDOW.try_with(|w| w.get()).unwrap_or(null_mut());
        if w.is_null() {
            unsafe { System.dealloc(ptr, layout) };
            return;
        }
        let w = unsafe { &mut *w };
        for e in &w.entries[..w.n] {
            if e.ptr == ptr {
                w.double_frees += 1;
                w.double_free_size = e.size;
                return;
            }
        }
        if w.n == CAP {
            unsafe { System.dealloc(ptr, layout) };
            return;
        }
        unsafe { std::ptr::write_bytes(ptr, CANARY, layout.size()) };
        w.entries[w.n] = Entry { ptr, size: layout.size(), align: layout.align() };
        w.n += 1;
    }

    unsafe fn realloc(&self, ptr: *mut u8, layout: Layout, new_size: usize) -> *mut u8 {
        let w = WINDOW.try_with(|w| w.get()).unwrap_or(null_mut());
        if w.is_null() {
            return unsafe { System.realloc(ptr, layout, new_size) };
        }
        // inside a window: allocate + copy + (quarantined) release
        let new_layout = unsafe { Layout::from_size_align_unchecked(new_size, layout.align()) };
        let p = unsafe { System.alloc(new_layout) };
        if !p.is_null() {
            unsafe {
                std::ptr::copy_nonoverlapping(ptr, p, layout.size().min(new_size));
                self.dealloc(ptr, layout);
            }
        }
        p
    }
}

/// open a quarantine window on this thread (no nesting)
pub fn open() {
    let cur = WINDOW.with(|w| w.get());
    if !cur.is_null() {
        return;
    }
    let layout = Layout::new::<Window>();
    let p = unsafe { System.alloc(layout) } as *mut Window;
    assert!(!p.is_null());
    unsafe {
        (&raw mut (*p).n).write(0);
        (&raw mut (*p).double_frees).write(0);
        (&raw mut (*p).double_free_size).write(0);
    }
    WINDOW.with(|w| w.set(p));
}

/// close the window; returns (oracle, description) of what went wrong inside it
pub fn close() -> Vec<(&'static str, String)> {
    let p = WINDOW.with(|w| w.replace(null_mut()));
    if p.is_null() {
        return Vec::new();
    }
    let w = unsafe { &mut *p };
    let mut out = Vec::new();
    if w.double_frees > 0 {
        out.push((
            "heap-double-free",
            format!("{} release(s) of an already released heap block ({} bytes)", w.double_frees, w.double_free_size),
        ));
    }
    for e in &w.entries[..w.n] {
        let s = unsafe { std::slice::from_raw_parts(e.ptr, e.size) };
        if let Some(off) = s.iter().position(|&b| b != CANARY) {
            let end = s.iter().rposition(|&b| b != CANARY).unwrap() + 1;
            out.push((
                "heap-write-after-free",
                format!(
                    "a released heap block of {} bytes was written afterwards (bytes {off}..{end} changed)",
                    e.size
                ),
            ));
        }
    }
    for e in &w.entries[..w.n] {
        unsafe { System.dealloc(e.ptr, Layout::from_size_align_unchecked(e.size, e.align)) };
    }
    unsafe { System.dealloc(p as *mut u8, Layout::new::<Window>()) };
    out.truncate(1);
    out
}
