//! Configuration A on stream transports: one compio stream (TCP loopback / Unix) against a raw
//! non-blocking peer socket operated by the harness.
use std::{io, rc::Rc, time::Duration};

use compio_buf::BufResult;
use compio_driver::DriverType;
use compio_net::{TcpStream, UnixStream};
use compio_runtime::Runtime;
use socket2::Socket;

use crate::{
    bufs::{self, CBuf, GBuf, Shape, check_filled_vec, code, shape_class, stream_bytes},
    peer::{self, Transport},
    rt::{self, Task, drv_name, harvest, settle_until},
    sops::{MultiShared, SH, ZcOut},
    Found,
};

pub const SHAPES: [Shape; 4] = [(0, 4), (2, 4), (4, 4), (0, 0)];

pub fn layouts() -> Vec<Vec<Shape>> {
    vec![
        vec![(0, 4)],
        vec![(0, 0), (0, 4)],
        vec![(0, 2), (0, 2)],
        vec![(0, 1), (0, 0), (0, 3)],
        vec![(2, 2), (1, 2)],
    ]
}

/// managed / multishot `len` arguments (0 = whole pool buffer)
pub const MLENS: [usize; 2] = [0, 2];

#[derive(Clone, Copy, Debug, PartialEq, Eq)]
pub enum SendKind {
    Write,
    WriteV,
    Zc,
    ZcV,
    Anc,
    AncV,
}

#[derive(Clone, Copy, Debug, PartialEq, Eq)]
pub enum RecvKind {
    Read,
    ReadV,
    Managed,
    Multi,
    RAnc,
    RAncV,
}

#[derive(Clone, Debug, PartialEq, Eq)]
pub enum Step {
    /// `lay`: how a vectored payload is cut into members (index into `cut`)
    Send { kind: SendKind, size: usize, lay: usize },
    /// `par`: index into SHAPES (Read, Anc) / layouts() (ReadV, AncV) / MLENS (Managed, Multi)
    Recv { kind: RecvKind, par: usize },
    PeerSend(usize),
    PeerRecvAll,
    PeerShutdown,
    Shutdown,
    /// true = into_split (owned halves), false = split (borrowed halves)
    Split(bool),
}

impl Step {
    pub fn name(&self) -> String {
        match self {
            Step::Send { kind, size, lay } => match kind {
                SendKind::WriteV | SendKind::ZcV | SendKind::AncV => format!("Send({kind:?},{size},cut{lay})"),
                _ => format!("Send({kind:?},{size})"),
            },
            Step::Recv { kind, par } => match kind {
                RecvKind::Read | RecvKind::RAnc => format!("Recv({kind:?},{:?})", SHAPES[*par]),
                RecvKind::ReadV | RecvKind::RAncV => format!("Recv({kind:?},{:?})", layouts()[*par]),
                RecvKind::Managed | RecvKind::Multi => format!("Recv({kind:?},len={})", MLENS[*par]),
            },
            Step::PeerSend(k) => format!("PeerSend({k})"),
            Step::PeerRecvAll => "PeerRecvAll".into(),
            Step::PeerShutdown => "PeerShutdown".into(),
            Step::Shutdown => "Shutdown".into(),
            Step::Split(o) => if *o { "Split(into_split)".into() } else { "Split(split)".into() },
        }
    }
}

/// cut `data` into vectored members
pub fn cut(data: &[u8], lay: usize) -> Vec<Vec<u8>> {
    let n = data.len();
    match lay {
        0 => vec![data.to_vec()],
        1 => vec![vec![], data.to_vec()],
        2 => vec![data[..n / 2].to_vec(), data[n / 2..].to_vec()],
        _ => {
            let a = n.min(1);
            vec![data[..a].to_vec(), vec![], data[a..].to_vec()]
        }
    }
}

#[derive(Clone, Copy, Debug)]
pub struct Cfg {
    pub drv: DriverType,
    pub tr: Transport,
}

impl Cfg {
    pub fn name(&self) -> String {
        format!("{}/{}", self.tr.name(), drv_name(self.drv))
    }
}

enum SendOut {
    Plain(io::Result<usize>, Result<(), String>),
    Zc(io::Result<usize>, Task<Result<(), String>>),
}

struct RecvDone {
    /// Ok(Some(bytes)) data, Ok(None) end of stream, Err
    res: io::Result<Option<Vec<u8>>>,
    /// buffer-level complaint
    buf_err: Option<String>,
    zero_cap: bool,
    ctl: Option<(usize, Vec<u8>, u32)>,
}

struct InRecv {
    kind: RecvKind,
    class: String,
    task: Option<Task<RecvDone>>,
}

struct Multi {
    task: Task<()>,
    sh: Rc<MultiShared>,
    len: usize,
}

pub struct World<'a> {
    cfg: Cfg,
    rt: &'a Runtime,
    cs: SH,
    rd: SH,
    wr: SH,
    /// borrowed halves in use
    half: bool,
    split_done: bool,
    peer: Socket,
    big: usize,
    // ---- compio -> peer
    snd_total: u64,
    snd_shutdown: bool,
    in_send: Option<(Task<SendOut>, String, Vec<u8>)>,
    peer_rcvd: u64,
    peer_eof: bool,
    fds_expected: u32,
    fds_got: u32,
    zc_back: Vec<(Task<Result<(), String>>, String)>,
    // ---- peer -> compio
    peer_sent: u64,
    peer_shutdown: bool,
    rcv_total: u64,
    in_recv: Option<InRecv>,
    multi: Option<Multi>,
    eof_seen: bool,
    pub trace: Vec<String>,
    pub found: Vec<Found>,
    pub sig: Vec<String>,
    pub fatal: bool,
    t0: std::time::Instant,
}

fn errclass(e: &io::Error) -> String {
    match e.raw_os_error() {
        Some(n) => format!("errno{n}"),
        None => format!("{:?}", e.kind()),
    }
}

thread_local! {
    /// one raw listener per worker and transport (fresh sockets per sequence, not fresh listeners)
    static LISTENERS: std::cell::RefCell<Vec<(Transport, Socket, socket2::SockAddr)>> = const { std::cell::RefCell::new(Vec::new()) };
}

fn with_listener<T>(tr: Transport, f: impl FnOnce(&Socket, &socket2::SockAddr) -> T) -> T {
    LISTENERS.with(|l| {
        let mut l = l.borrow_mut();
        if !l.iter().any(|(t, ..)| *t == tr) {
            let (s, a) = peer::raw_listener(tr);
            s.set_nonblocking(true).ok();
            l.push((tr, s, a));
        }
        let e = l.iter().find(|(t, ..)| *t == tr).unwrap();
        f(&e.1, &e.2)
    })
}

/// Accept on the worker's listener until the connection whose peer is `client` comes out
/// (a connection left behind by an execution that died half way must not be mistaken for it).
fn accept_matching(tr: Transport, client: &socket2::SockAddr) -> Result<Socket, String> {
    let start = std::time::Instant::now();
    loop {
        let got = with_listener(tr, |lis, _| lis.accept().ok());
        match got {
            Some((p, a)) => {
                // Unix clients are unnamed: nothing to compare, the queue is FIFO and was drained
                if tr == Transport::Unix || peer::addr_eq(&a, client) {
                    return Ok(p);
                }
            }
            None => {
                if start.elapsed() > Duration::from_secs(5) {
                    return Err("raw accept failed".into());
                }
                std::thread::sleep(Duration::from_micros(50));
            }
        }
    }
}

/// two connected raw TCP sockets (through the worker's listener)
pub fn raw_tcp_pair() -> Result<(Socket, Socket), String> {
    let tr = Transport::Tcp;
    let a = with_listener(tr, |_, a| a.clone());
    let c = peer::raw_connect(tr, &a, false).map_err(|e| format!("raw connect: {e}"))?;
    c.set_nonblocking(false).ok();
    let p = accept_matching(tr, &c.local_addr().map_err(|e| e.to_string())?)?;
    p.set_nonblocking(false).ok();
    peer::set_linger0(std::os::fd::AsRawFd::as_raw_fd(&p));
    Ok((c, p))
}

/// How the compio stream comes into being: wrapped around a connected std socket (`from_std`,
/// no asynchronous operation involved) or connected by compio itself.
#[derive(Clone, Copy, Debug, PartialEq, Eq)]
pub enum Origin {
    FromStd,
    Connect,
}

pub fn connect_pair(rt: &Runtime, tr: Transport, origin: Origin) -> Result<(SH, Socket), String> {
    let cs = match (tr, origin) {
        (Transport::Tcp, Origin::Connect) => {
            let a = with_listener(tr, |_, a| a.as_socket().unwrap());
            let s = rt::drive(rt, async move { TcpStream::connect(a).await }).ok_or("connect hung")?.map_err(|e| format!("connect: {e}"))?;
            SH::Tcp(Rc::new(s))
        }
        (Transport::Unix, Origin::Connect) => {
            let a = with_listener(tr, |_, a| a.clone());
            let s = rt::drive(rt, async move { UnixStream::connect_addr(&a).await }).ok_or("connect hung")?.map_err(|e| format!("connect: {e}"))?;
            SH::Unix(Rc::new(s))
        }
        (Transport::Tcp, Origin::FromStd) => {
            let a = with_listener(tr, |_, a| a.clone());
            let c = peer::raw_connect(tr, &a, false).map_err(|e| format!("raw connect: {e}"))?;
            c.set_nonblocking(false).ok();
            let s = TcpStream::from_std(c.into()).map_err(|e| format!("from_std: {e}"))?;
            SH::Tcp(Rc::new(s))
        }
        (Transport::Unix, Origin::FromStd) => {
            let a = with_listener(tr, |_, a| a.clone());
            let c = peer::raw_connect(tr, &a, false).map_err(|e| format!("raw connect: {e}"))?;
            c.set_nonblocking(false).ok();
            let s = UnixStream::from_std(c.into()).map_err(|e| format!("from_std: {e}"))?;
            SH::Unix(Rc::new(s))
        }
        _ => return Err("no such stream transport".into()),
    };
    let local = match &cs {
        SH::Tcp(s) => socket2::SockAddr::from(s.local_addr().map_err(|e| e.to_string())?),
        SH::Unix(s) => s.local_addr().map_err(|e| e.to_string())?,
    };
    let p = accept_matching(tr, &local)?;
    p.set_nonblocking(true).map_err(|e| e.to_string())?;
    if tr == Transport::Tcp {
        let pfd = std::os::fd::AsRawFd::as_raw_fd(&p);
        peer::set_linger0(pfd);
        let _ = p.set_tcp_nodelay(true);
        // the peer's window never closes within one sequence, acknowledgements are immediate
        peer::set_rcvbuf(pfd, 4 << 20);
        peer::set_quickack(pfd);
        peer::set_quickack(cs.raw_fd());
        // no Nagle delays on the compio end either (a small write behind an unacknowledged one
        // would wait for real time)
        if let SH::Tcp(s) = &cs {
            let _ = s.set_nodelay(true);
        }
    }
    Ok((cs, p))
}

impl<'a> World<'a> {
    pub fn new(rt: &'a Runtime, cfg: Cfg, big: usize, origin: Origin) -> Result<Self, String> {
        let (cs, p) = connect_pair(rt, cfg.tr, origin)?;
        let fd = cs.raw_fd();
        struct Fd(i32);
        impl std::os::fd::AsRawFd for Fd {
            fn as_raw_fd(&self) -> i32 {
                self.0
            }
        }
        peer::minimise_buffers(&Fd(fd));
        peer::minimise_buffers(&p);
        if cfg.tr == Transport::Unix {
            // every message received by the compio end carries SCM_CREDENTIALS
            let one: libc::c_int = 1;
            unsafe { libc::setsockopt(fd, libc::SOL_SOCKET, libc::SO_PASSCRED, &one as *const _ as *const _, 4) };
        }
        Ok(Self {
            cfg,
            rt,
            rd: cs.clone(),
            wr: cs.clone(),
            cs,
            half: false,
            split_done: false,
            peer: p,
            big,
            snd_total: 0,
            snd_shutdown: false,
            in_send: None,
            peer_rcvd: 0,
            peer_eof: false,
            fds_expected: 0,
            fds_got: 0,
            zc_back: Vec::new(),
            peer_sent: 0,
            peer_shutdown: false,
            rcv_total: 0,
            in_recv: None,
            multi: None,
            eof_seen: false,
            trace: Vec::new(),
            found: Vec::new(),
            sig: Vec::new(),
            fatal: false,
            t0: std::time::Instant::now(),
        })
    }

    fn viol(&mut self, oracle: &str, class: &str, what: String) {
        let key = format!("stream-A:{oracle}:{class}:{}", self.cfg.name());
        self.trace.push(format!("!! {oracle}: {what}"));
        self.found.push(Found { key, what });
        self.fatal = true;
    }

    fn avail(&self) -> u64 {
        self.peer_sent - self.rcv_total
    }

    /// TCP only.  Acknowledgements and window updates are real-time behaviour of the kernel that
    /// the harness cannot schedule (delayed-ACK timer, 40 ms).  To start every step from the same
    /// kernel state the peer reads eagerly until the compio socket's send queue is acknowledged
    /// (a read with TCP_QUICKACK forces the ACK out), and data sent by the peer is awaited in the
    /// compio socket's receive accounting.  Consequence: on TCP a send is never left pending
    /// across steps; back-pressure across steps is explored on the Unix transport.
    fn barrier(&mut self) {
        if self.cfg.tr != Transport::Tcp || self.fatal {
            return;
        }
        let cfd = self.cs.raw_fd();
        let pfd = std::os::fd::AsRawFd::as_raw_fd(&self.peer);
        let start = std::time::Instant::now();
        let _p = Prof("barrier", start);
        let mut n = 0u32;
        while (peer::outq(cfd) != 0 || self.in_send.is_some()) && !self.fatal {
            peer::set_quickack(pfd);
            self.peer_read_some();
            if self.in_send.is_some() {
                harvest(self.rt);
                if let Some((t, _, _)) = self.in_send.as_mut() {
                    if t.poll_if_woken() {
                        self.finish_send();
                    }
                }
            }
            n += 1;
            if start.elapsed() > rt::settle_limit() {
                self.trace.push("   (tcp barrier expired)".into());
                self.sig.push("tcp-barrier-expired".into());
                break;
            }
            if n > 20 {
                std::thread::sleep(Duration::from_micros(50));
            }
        }
        let want = self.peer_sent;
        if peer::wait_for(rt::settle_limit(), || (peer::tcp_bytes_received(cfd) >= want).then_some(())).is_none() {
            self.trace.push("   (tcp delivery barrier expired)".into());
            self.sig.push("tcp-barrier-expired".into());
        }
    }

    pub fn enabled(&self, s: &Step) -> bool {
        if self.fatal {
            return false;
        }
        match s {
            Step::Send { kind, .. } => {
                let _ = kind;
                !self.snd_shutdown && self.in_send.is_none()
            }
            Step::Recv { kind, .. } => {
                !self.eof_seen && self.in_recv.is_none() && (self.multi.is_none() || *kind == RecvKind::Multi)
            }
            Step::PeerSend(_) => !self.peer_shutdown,
            Step::PeerRecvAll => self.snd_total > self.peer_rcvd || self.in_send.is_some(),
            Step::PeerShutdown => !self.peer_shutdown,
            Step::Shutdown => !self.snd_shutdown && self.in_send.is_none(),
            Step::Split(_) => !self.split_done,
        }
    }

    /// TCP: acknowledgements must not wait for the delayed-ACK timer (real time nobody owns)
    fn arm_quickack(&self) {
        if self.cfg.tr == Transport::Tcp {
            peer::set_quickack(self.cs.raw_fd());
            peer::set_quickack(std::os::fd::AsRawFd::as_raw_fd(&self.peer));
        }
    }

    pub fn apply(&mut self, s: &Step) {
        self.arm_quickack();
        self.trace.push(format!("{} @{}us", s.name(), self.t0.elapsed().as_micros()));
        match s {
            Step::Send { kind, size, lay } => self.do_send(*kind, *size, *lay),
            Step::Recv { kind, par } => self.do_recv(*kind, *par),
            Step::PeerSend(k) => self.do_peer_send(*k),
            Step::PeerRecvAll => self.do_peer_recv_all(),
            Step::PeerShutdown => {
                if let Err(e) = self.peer.shutdown(std::net::Shutdown::Write) {
                    vcore::machinery_error(&format!("peer shutdown: {e}"));
                }
                self.peer_shutdown = true;
                self.settle();
            }
            Step::Shutdown => self.do_shutdown(),
            Step::Split(owned) => {
                self.split_done = true;
                if *owned {
                    let (r, w) = self.cs.into_split();
                    self.rd = r;
                    self.wr = w;
                } else {
                    self.half = true;
                }
            }
        }
    }

    // ------------------------------------------------------------------------------------
    // compio sends
    // ------------------------------------------------------------------------------------

    fn do_send(&mut self, kind: SendKind, size: usize, lay: usize) {
        let _p = Prof("do_send", std::time::Instant::now());
        let data = stream_bytes(self.snd_total, size);
        let class = format!(
            "send={kind:?}[{}]{}",
            if size == 0 { "empty" } else if size >= self.big { "big" } else { "small" },
            if self.split_done { if self.half { "+split" } else { "+into_split" } } else { "" }
        );
        let wr = self.wr.clone();
        let half = self.half;
        let d2 = data.clone();
        let parts = cut(&data, lay);
        let mkv = move || -> Vec<GBuf> { parts.iter().map(|p| GBuf::send(p, 2)).collect() };
        let chkv = |bufs: &[GBuf], parts: &[Vec<u8>]| -> Result<(), String> {
            if bufs.len() != parts.len() {
                return Err("vectored send buffer came back with a different member count".into());
            }
            for (b, p) in bufs.iter().zip(parts) {
                b.check_unchanged(p)?;
            }
            Ok(())
        };
        let parts2 = cut(&data, lay);
        let ctl_bytes = match self.cfg.tr {
            // SOL_SOCKET / SO_TIMESTAMPING with no flags: accepted by TCP sendmsg, no effect
            Transport::Tcp => bufs::cmsg_u32(libc::SOL_SOCKET, libc::SO_TIMESTAMPING, 0),
            // pass a descriptor (our own stderr); the peer must receive exactly one descriptor
            _ => bufs::cmsg_u32(libc::SOL_SOCKET, libc::SCM_RIGHTS, 2),
        };
        let fut: crate::sops::LocalFut<SendOut> = match kind {
            SendKind::Write => {
                let f = wr.write(half, GBuf::send(&data, 3));
                Box::pin(async move {
                    let BufResult(r, b) = f.await;
                    SendOut::Plain(r, b.check_unchanged(&d2))
                })
            }
            SendKind::WriteV => {
                let f = wr.writev(half, mkv());
                Box::pin(async move {
                    let BufResult(r, b) = f.await;
                    SendOut::Plain(r, chkv(&b, &parts2))
                })
            }
            SendKind::Zc => {
                let f = wr.zc(GBuf::send(&data, 3));
                Box::pin(async move {
                    let ZcOut { res, back } = f.await;
                    SendOut::Zc(res, Task::new(async move { back.await.check_unchanged(&d2) }))
                })
            }
            SendKind::ZcV => {
                let f = wr.zcv(mkv());
                Box::pin(async move {
                    let ZcOut { res, back } = f.await;
                    SendOut::Zc(res, Task::new(async move { chkv(&back.await, &parts2) }))
                })
            }
            SendKind::Anc => {
                let f = wr.wanc(GBuf::send(&data, 3), CBuf::filled(&ctl_bytes));
                Box::pin(async move {
                    let BufResult(r, (b, _c)) = f.await;
                    SendOut::Plain(r, b.check_unchanged(&d2))
                })
            }
            SendKind::AncV => {
                let f = wr.wancv(mkv(), CBuf::filled(&ctl_bytes));
                Box::pin(async move {
                    let BufResult(r, (b, _c)) = f.await;
                    SendOut::Plain(r, chkv(&b, &parts2))
                })
            }
        };
        rt::prof("do_send:build", _p.1);
        let mut task = Task::new(fut);
        let anc_fd = matches!(kind, SendKind::Anc | SendKind::AncV) && self.cfg.tr == Transport::Unix;
        let class = if anc_fd { format!("{class}+fd") } else { class };
        let tp = std::time::Instant::now();
        task.poll_now();
        rt::prof("do_send:first-poll", tp);
        // A send may stay pending only while the socket has no send space: as long as the kernel
        // reports POLLOUT the completion is something the harness may wait for (bounded).
        let start = std::time::Instant::now();
        let fd = self.cs.raw_fd();
        let mut rounds = 0u32;
        while !task.is_done() {
            harvest(self.rt);
            task.poll_if_woken();
            rounds += 1;
            if task.is_done() || (rounds >= 2 && !peer::writable(fd)) || start.elapsed() > rt::settle_limit() {
                break;
            }
            if rounds > 8 {
                std::thread::sleep(Duration::from_micros(50));
            }
        }
        self.in_send = Some((task, class, data));
        self.finish_send();
        self.barrier();
        self.settle();
    }

    /// book a finished in-flight send
    fn finish_send(&mut self) {
        let Some((task, _, _)) = self.in_send.as_mut() else { return };
        if !task.is_done() {
            let class = self.in_send.as_ref().unwrap().1.clone();
            self.sig.push(format!("{class}=pending"));
            self.trace.push("   -> pending".into());
            return;
        }
        let (mut task, class, data) = self.in_send.take().unwrap();
        let (res, bufchk) = match task.take().unwrap() {
            SendOut::Plain(r, c) => (r, Some(c)),
            SendOut::Zc(r, back) => {
                self.zc_back.push((back, class.clone()));
                (r, None)
            }
        };
        if let Some(Err(e)) = bufchk {
            self.viol("send-buffer", &class, e);
            return;
        }
        match res {
            Ok(n) => {
                self.trace.push(format!("   -> Ok({n})"));
                if n > data.len() {
                    self.viol("send-count", &class, format!("send of {} bytes reported {n}", data.len()));
                    return;
                }
                if n == 0 && !data.is_empty() {
                    self.viol("send-count", &class, format!("send of {} bytes reported Ok(0)", data.len()));
                    return;
                }
                self.sig.push(format!("{class}={}", if n == data.len() { "full" } else { "partial" }));
                self.snd_total += n as u64;
                if class.ends_with("+fd") && n > 0 {
                    self.fds_expected += 1;
                }
            }
            Err(e) => {
                self.trace.push(format!("   -> Err({e})"));
                self.sig.push(format!("{class}={}", errclass(&e)));
            }
        }
    }

    fn do_shutdown(&mut self) {
        let fut = self.wr.shutdown(self.half);
        let mut t = Task::new(fut);
        let ok = settle_until(self.rt, || t.poll_if_woken());
        let class = format!("shutdown{}", if self.split_done { if self.half { "+split" } else { "+into_split" } } else { "" });
        if !ok {
            self.viol("hang", &class, "shutdown() did not complete".into());
            return;
        }
        match t.take().unwrap() {
            Ok(()) => {
                self.snd_shutdown = true;
                self.sig.push(format!("{class}=ok"));
            }
            Err(e) => {
                self.viol("shutdown-error", &class, format!("shutdown() failed on a connected stream: {e}"));
            }
        }
        self.settle();
    }

    // ------------------------------------------------------------------------------------
    // peer side
    // ------------------------------------------------------------------------------------

    /// read whatever the peer socket holds; checks content and order
    fn peer_read_some(&mut self) -> bool {
        let _p = Prof("peer_read_some", std::time::Instant::now());
        let mut progress = false;
        loop {
            match peer::recvmsg_nb(&self.peer, 65536, false) {
                Ok(None) => return progress,
                Ok(Some(d)) => {
                    // descriptors passed with SCM_RIGHTS
                    if let Some((lvl, ty, v)) = bufs::parse_cmsg(&d.control) {
                        if lvl == libc::SOL_SOCKET && ty == libc::SCM_RIGHTS {
                            self.fds_got += 1;
                            unsafe { libc::close(v as i32) };
                        }
                    }
                    if d.data.is_empty() {
                        if !self.peer_eof {
                            self.peer_eof = true;
                            progress = true;
                        }
                        return progress;
                    }
                    if let Some(i) = bufs::stream_mismatch(self.peer_rcvd, &d.data) {
                        let pos = self.peer_rcvd + i as u64;
                        let b = d.data[i];
                        let class = "peer-stream".to_string();
                        self.viol(
                            "sent-content",
                            &class,
                            format!(
                                "the peer read byte {b:#04x} at stream position {pos}, expected {:#04x} (chunk {:02x?}…)",
                                code(pos),
                                &d.data[..d.data.len().min(16)]
                            ),
                        );
                        return true;
                    }
                    self.peer_rcvd += d.data.len() as u64;
                    progress = true;
                }
                Err(e) => {
                    self.viol("peer-error", "peer-recv", format!("peer recv failed: {e}"));
                    return progress;
                }
            }
        }
    }

    fn do_peer_recv_all(&mut self) {
        let start = std::time::Instant::now();
        let mut idle = 0u32;
        loop {
            let progress = self.peer_read_some();
            if self.fatal {
                return;
            }
            if self.in_send.is_some() {
                harvest(self.rt);
                if let Some((t, _, _)) = self.in_send.as_mut() {
                    if t.poll_if_woken() {
                        self.finish_send();
                    }
                }
            }
            if self.in_send.is_none() && self.peer_rcvd >= self.snd_total {
                break;
            }
            if !progress {
                idle += 1;
                if start.elapsed() > rt::settle_limit() {
                    if self.in_send.is_some() {
                        let class = self.in_send.as_ref().unwrap().1.clone();
                        self.viol("hang", &class, "a pending send did not complete although the peer read everything".into());
                    } else {
                        self.viol(
                            "sent-lost",
                            "peer-stream",
                            format!("the sender was told {} bytes were sent, the peer can read only {}", self.snd_total, self.peer_rcvd),
                        );
                    }
                    return;
                }
                if idle > 3 {
                    std::thread::sleep(Duration::from_micros(100));
                }
            } else {
                idle = 0;
            }
        }
        if self.peer_rcvd > self.snd_total {
            self.viol(
                "sent-extra",
                "peer-stream",
                format!("the peer read {} bytes, the sender was told only {} were sent", self.peer_rcvd, self.snd_total),
            );
        }
        self.settle();
    }

    fn do_peer_send(&mut self, k: usize) {
        let data = stream_bytes(self.peer_sent, k);
        match peer::send_nb(&self.peer, &data) {
            Ok(n) => {
                self.peer_sent += n as u64;
                if n != k {
                    self.trace.push(format!("   (peer sent only {n})"));
                }
            }
            Err(e) if peer::would_block(&e) => self.trace.push("   (peer send would block)".into()),
            Err(e) => vcore::machinery_error(&format!("peer send: {e}")),
        }
        self.barrier();
        self.settle();
    }

    // ------------------------------------------------------------------------------------
    // compio receives
    // ------------------------------------------------------------------------------------

    fn do_recv(&mut self, kind: RecvKind, par: usize) {
        let rd = self.rd.clone();
        let half = self.half;
        let splitc = if self.split_done { if self.half { "+split" } else { "+into_split" } } else { "" };
        let unix = self.cfg.tr == Transport::Unix;
        match kind {
            RecvKind::Read => {
                let shape = SHAPES[par];
                let f = rd.read(half, GBuf::recv(shape));
                let t = Task::new(async move {
                    let BufResult(r, b) = f.await;
                    one_buf_done(r, b, shape)
                });
                self.start_recv(kind, format!("recv=Read[{}]{splitc}", shape_class(&[shape])), t);
            }
            RecvKind::ReadV => {
                let lay = layouts()[par].clone();
                let f = rd.readv(half, lay.iter().map(|s| GBuf::recv(*s)).collect());
                let l2 = lay.clone();
                let t = Task::new(async move {
                    let BufResult(r, b) = f.await;
                    vec_buf_done(r, b, &l2)
                });
                self.start_recv(kind, format!("recv=ReadV[{}x{}]{splitc}", lay.len(), shape_class(&lay)), t);
            }
            RecvKind::Managed => {
                let len = MLENS[par];
                let f = rd.managed(len);
                let t = Task::new(async move {
                    let r = f.await;
                    managed_done(r, len)
                });
                self.start_recv(kind, format!("recv=Managed[len{len}]{splitc}"), t);
            }
            RecvKind::RAnc => {
                let shape = SHAPES[par];
                let f = rd.ranc(GBuf::recv(shape), CBuf::empty(64));
                let t = Task::new(async move {
                    let BufResult(r, (b, c)) = f.await;
                    match r {
                        Ok((n, cl, fl)) => {
                            let mut d = one_buf_done(Ok(n), b, shape);
                            d.ctl = Some((cl, c.bytes().to_vec(), fl));
                            d
                        }
                        Err(e) => one_buf_done(Err(e), b, shape),
                    }
                });
                let _ = unix;
                self.start_recv(kind, format!("recv=Anc[{}]{splitc}", shape_class(&[shape])), t);
            }
            RecvKind::RAncV => {
                let lay = layouts()[par].clone();
                let f = rd.rancv(lay.iter().map(|s| GBuf::recv(*s)).collect(), CBuf::empty(64));
                let l2 = lay.clone();
                let t = Task::new(async move {
                    let BufResult(r, (b, c)) = f.await;
                    match r {
                        Ok((n, cl, fl)) => {
                            let mut d = vec_buf_done(Ok(n), b, &l2);
                            d.ctl = Some((cl, c.bytes().to_vec(), fl));
                            d
                        }
                        Err(e) => vec_buf_done(Err(e), b, &l2),
                    }
                });
                self.start_recv(kind, format!("recv=AncV[{}x{}]{splitc}", lay.len(), shape_class(&lay)), t);
            }
            RecvKind::Multi => {
                if self.multi.is_none() {
                    let len = MLENS[par];
                    let sh = Rc::new(MultiShared::default());
                    let task = Task::new(rd.multi(len, sh.clone()));
                    self.multi = Some(Multi { task, sh, len });
                }
                let m = self.multi.as_mut().unwrap();
                m.sh.want.set(m.sh.want.get() + 1);
                m.task.poll_now();
                let len = m.len;
                self.in_recv = Some(InRecv { kind, class: format!("recv=Multi[len{len}]{splitc}"), task: None });
                self.after_recv_issue();
            }
        }
    }

    fn start_recv(&mut self, kind: RecvKind, class: String, mut t: Task<RecvDone>) {
        t.poll_now();
        self.in_recv = Some(InRecv { kind, class, task: Some(t) });
        self.after_recv_issue();
    }

    fn after_recv_issue(&mut self) {
        self.settle();
        if self.in_recv.is_some() && !self.fatal {
            let class = self.in_recv.as_ref().unwrap().class.clone();
            self.sig.push(format!("{class}=pending"));
            self.trace.push("   -> pending".into());
        }
    }

    /// poll the in-flight receive if it was woken; returns its result when finished
    fn poll_recv(&mut self) -> Option<RecvDone> {
        let ir = self.in_recv.as_mut()?;
        if ir.kind == RecvKind::Multi {
            let m = self.multi.as_mut()?;
            m.task.poll_if_woken();
            let item = m.sh.results.borrow_mut().pop_front()?;
            let len = m.len;
            Some(match item {
                Ok(Some(d)) => {
                    let lim = if len == 0 { rt::POOL_BUF_LEN } else { len.min(rt::POOL_BUF_LEN) };
                    let buf_err = if d.len() > lim {
                        Some(format!("multishot buffer of {} bytes for len={len} (pool buffers hold {})", d.len(), rt::POOL_BUF_LEN))
                    } else if d.is_empty() {
                        Some("multishot stream yielded an empty buffer".into())
                    } else {
                        None
                    };
                    RecvDone { res: Ok(Some(d)), buf_err, zero_cap: false, ctl: None }
                }
                Ok(None) => RecvDone { res: Ok(None), buf_err: None, zero_cap: false, ctl: None },
                Err(e) => RecvDone { res: Err(e), buf_err: None, zero_cap: false, ctl: None },
            })
        } else {
            let t = ir.task.as_mut()?;
            if t.poll_if_woken() { t.take() } else { None }
        }
    }

    /// the receive that was in flight has finished: judge it
    fn on_recv_done(&mut self, d: RecvDone) {
        let ir = self.in_recv.take().unwrap();
        let class = ir.class;
        if let Some(e) = d.buf_err {
            self.viol("recv-buffer", &class, e);
            return;
        }
        match d.res {
            Err(e) => {
                self.trace.push(format!("   -> Err({e})"));
                self.sig.push(format!("{class}={}", errclass(&e)));
                if ir.kind == RecvKind::Multi && e.raw_os_error() != Some(libc::ENOBUFS) {
                    // the stream is still usable after an error item only for ENOBUFS
                }
            }
            Ok(Some(data)) if !data.is_empty() => {
                self.trace.push(format!("   -> {} bytes", data.len()));
                if data.len() as u64 > self.avail() {
                    self.viol(
                        "recv-content",
                        &class,
                        format!("received {} bytes ({:02x?}…) although only {} sent bytes were outstanding", data.len(), &data[..data.len().min(8)], self.avail()),
                    );
                    return;
                }
                for (i, &b) in data.iter().enumerate() {
                    let pos = self.rcv_total + i as u64;
                    if b != code(pos) {
                        self.viol(
                            "recv-content",
                            &class,
                            format!("received byte {b:#04x} at stream position {pos}, expected {:#04x} (data {:02x?}…)", code(pos), &data[..data.len().min(16)]),
                        );
                        return;
                    }
                }
                self.rcv_total += data.len() as u64;
                self.sig.push(format!("{class}=data"));
                if let Some((cl, cb, fl)) = d.ctl {
                    self.check_ctl(&class, cl, &cb, fl);
                }
            }
            Ok(other) => {
                // zero bytes: Ok(0) / Ok(None) / stream end
                let zero_cap = d.zero_cap && other.is_some();
                if zero_cap {
                    self.trace.push("   -> Ok(0) (zero capacity)".into());
                    self.sig.push(format!("{class}=zero"));
                } else if self.peer_shutdown && self.avail() == 0 {
                    self.trace.push("   -> end of stream".into());
                    self.sig.push(format!("{class}=eof"));
                    self.eof_seen = true;
                    if ir.kind == RecvKind::Multi {
                        self.multi = None;
                    }
                } else {
                    let why = if self.peer_shutdown {
                        format!("{} sent bytes were not delivered yet", self.avail())
                    } else {
                        "the peer has not shut down".to_string()
                    };
                    self.viol("early-eof", &class, format!("end of stream reported although {why}"));
                }
            }
        }
    }

    fn check_ctl(&mut self, class: &str, cl: usize, cb: &[u8], fl: u32) {
        if fl & (libc::MSG_TRUNC as u32 | libc::MSG_CTRUNC as u32) != 0 {
            self.viol("recv-flags", class, format!("stream receive flagged truncated (flags {fl:#x})"));
            return;
        }
        match self.cfg.tr {
            Transport::Tcp => {
                if cl != 0 {
                    self.viol("recv-control", class, format!("control length {cl} on a TCP stream without any option enabled"));
                }
            }
            _ => {
                // One SCM_CREDENTIALS message.  The pid inside is whatever the kernel translated
                // (an io_uring receive that was armed before the data arrived reports pid 0 on
                // this kernel; that is not compio's doing), so only the framing is checked.
                let want = unsafe { libc::CMSG_SPACE(12) } as usize;
                let parsed = bufs::parse_cmsg(cb);
                let ok = cl == want && cb.len() == want && matches!(parsed, Some((libc::SOL_SOCKET, libc::SCM_CREDENTIALS, _)));
                if let Some((_, _, pid)) = parsed {
                    self.sig.push(format!("{class}:cred-pid={}", if pid == std::process::id() { "own" } else if pid == 0 { "0" } else { "other" }));
                }
                if !ok {
                    self.viol(
                        "recv-control",
                        class,
                        format!("expected one SCM_CREDENTIALS message of {want} bytes, got control length {cl}, bytes {cb:02x?}"),
                    );
                }
            }
        }
    }

    /// reap completions; an in-flight receive must finish when data (or the peer's FIN) is there
    fn settle(&mut self) {
        if self.fatal {
            return;
        }
        let _p = Prof("settle", std::time::Instant::now());
        if self.in_send.is_none() && self.in_recv.is_none() && self.multi.is_none() && self.zc_back.is_empty() {
            return;
        }
        harvest(self.rt);
        if let Some((t, _, _)) = self.in_send.as_mut() {
            if t.poll_if_woken() {
                self.finish_send();
            }
        }
        if self.in_recv.is_some() {
            let expected = self.avail() > 0 || self.peer_shutdown;
            let mut got = self.poll_recv();
            if got.is_none() && expected {
                let start = std::time::Instant::now();
                let mut n = 0u32;
                while got.is_none() && start.elapsed() < rt::settle_limit() {
                    harvest(self.rt);
                    got = self.poll_recv();
                    n += 1;
                    if got.is_none() && n > 3 {
                        std::thread::sleep(Duration::from_micros(if n < 40 { 50 } else { 1000 }));
                    }
                }
                if got.is_none() {
                    let class = self.in_recv.as_ref().unwrap().class.clone();
                    let why = if self.avail() > 0 { format!("{} bytes are available", self.avail()) } else { "the peer has shut down".into() };
                    self.viol("hang", &class, format!("a receive stays pending although {why}"));
                    return;
                }
            }
            if let Some(d) = got {
                self.on_recv_done(d);
            }
        }
    }

    // ------------------------------------------------------------------------------------
    // end of a sequence
    // ------------------------------------------------------------------------------------

    pub fn finish(&mut self) {
        if self.fatal {
            return;
        }
        self.arm_quickack();
        self.trace.push(format!("-- final @{}us", self.t0.elapsed().as_micros()));
        // everything the sender was told was sent must arrive, nothing else
        if self.snd_total > self.peer_rcvd || self.in_send.is_some() {
            self.do_peer_recv_all();
        }
        if self.fatal {
            return;
        }
        if self.snd_shutdown {
            let ok = peer::wait_for(rt::settle_limit(), || {
                self.peer_read_some();
                (self.peer_eof || self.fatal).then_some(())
            });
            if self.fatal {
                return;
            }
            if ok.is_none() {
                let class = format!("shutdown{}", if self.split_done { if self.half { "+split" } else { "+into_split" } } else { "" });
                self.viol("no-eof-at-peer", &class, "shutdown() reported success but the peer does not see end of stream".into());
                return;
            }
        } else {
            self.peer_read_some();
            if self.fatal {
                return;
            }
            if self.peer_eof {
                self.viol("early-eof-at-peer", "peer-stream", "the peer sees end of stream although the sender never shut down".into());
                return;
            }
        }
        if self.peer_rcvd != self.snd_total {
            self.viol(
                "sent-extra",
                "peer-stream",
                format!("the peer read {} bytes, the sender was told {} were sent", self.peer_rcvd, self.snd_total),
            );
            return;
        }
        if self.fds_got != self.fds_expected {
            self.viol(
                "sent-control",
                "send=Anc+fd",
                format!("{} descriptors were passed with SCM_RIGHTS, the peer received {}", self.fds_expected, self.fds_got),
            );
            return;
        }
        // zero-copy buffers come back
        let mut backs = std::mem::take(&mut self.zc_back);
        for (t, class) in backs.iter_mut() {
            let ok = settle_until(self.rt, || t.poll_if_woken());
            if !ok {
                self.viol("hang", class, "the buffer of a zero-copy send never came back".into());
                return;
            }
            if let Some(Err(e)) = t.take() {
                self.viol("send-buffer", class, e);
                return;
            }
        }
        // drain the other direction
        let mut guard = 0;
        while self.avail() > 0 && !self.fatal {
            guard += 1;
            if guard > 200 {
                self.viol("recv-lost", "drain", format!("{} bytes sent by the peer could not be received", self.avail()));
                return;
            }
            if self.in_recv.is_none() {
                self.drain_recv();
            } else {
                self.settle();
            }
        }
        if self.fatal {
            return;
        }
        // end of stream exactly when the peer has shut down
        if !self.eof_seen {
            if self.in_recv.is_none() {
                self.drain_recv();
            }
            if self.fatal {
                return;
            }
            if self.peer_shutdown {
                if !self.eof_seen {
                    // a zero-capacity receive is not an end-of-stream probe
                    if self.in_recv.is_none() {
                        self.drain_recv();
                    }
                    if !self.eof_seen && !self.fatal {
                        self.viol("no-eof", "drain", "the peer has shut down and everything was received, but no end of stream is reported".into());
                    }
                }
            } else if self.in_recv.is_none() && !self.fatal {
                // (an early end of stream was already reported by on_recv_done)
            }
        }
    }

    fn drain_recv(&mut self) {
        self.trace.push("(drain)".into());
        if self.multi.is_some() {
            self.do_recv(RecvKind::Multi, 0);
        } else {
            let rd = self.rd.clone();
            let shape = (0usize, 64usize);
            let f = rd.read(self.half, GBuf::recv(shape));
            let t = Task::new(async move {
                let BufResult(r, b) = f.await;
                one_buf_done(r, b, shape)
            });
            self.start_recv(RecvKind::Read, "recv=Read[drain]".into(), t);
        }
    }

    pub fn teardown(mut self) {
        // drop order: tasks (cancel), streams, peer
        self.in_recv = None;
        self.in_send = None;
        self.multi = None;
        self.zc_back.clear();
        let rt = self.rt;
        drop(self);
        // cancellations of whatever was still in flight complete here
        for _ in 0..3 {
            harvest(rt);
        }
    }
}

struct Prof(&'static str, std::time::Instant);
impl Drop for Prof {
    fn drop(&mut self) {
        rt::prof(self.0, self.1);
    }
}

fn one_buf_done(r: io::Result<usize>, b: GBuf, shape: Shape) -> RecvDone {
    match r {
        Ok(n) => match b.check_filled(n) {
            Ok(d) => RecvDone { res: Ok(Some(d)), buf_err: None, zero_cap: shape.1 == 0, ctl: None },
            Err(e) => RecvDone { res: Ok(None), buf_err: Some(e), zero_cap: false, ctl: None },
        },
        Err(e) => {
            let buf_err = b.check_filled(0).err().map(|x| format!("after an error: {x}"));
            RecvDone { res: Err(e), buf_err, zero_cap: false, ctl: None }
        }
    }
}

fn vec_buf_done(r: io::Result<usize>, b: Vec<GBuf>, lay: &[Shape]) -> RecvDone {
    let total: usize = lay.iter().map(|s| s.1).sum();
    if b.len() != lay.len() {
        return RecvDone { res: Ok(None), buf_err: Some("vectored buffer came back with a different member count".into()), zero_cap: false, ctl: None };
    }
    match r {
        Ok(n) => match check_filled_vec(&b, n) {
            Ok(d) => RecvDone { res: Ok(Some(d)), buf_err: None, zero_cap: total == 0, ctl: None },
            Err(e) => RecvDone { res: Ok(None), buf_err: Some(e), zero_cap: false, ctl: None },
        },
        Err(e) => {
            let buf_err = check_filled_vec(&b, 0).err().map(|x| format!("after an error: {x}"));
            RecvDone { res: Err(e), buf_err, zero_cap: false, ctl: None }
        }
    }
}

fn managed_done(r: io::Result<Option<Vec<u8>>>, len: usize) -> RecvDone {
    match r {
        Ok(Some(d)) => {
            let lim = if len == 0 { rt::POOL_BUF_LEN } else { len.min(rt::POOL_BUF_LEN) };
            let buf_err = if d.len() > lim {
                Some(format!("managed buffer of {} bytes for len={len} (pool buffers hold {})", d.len(), rt::POOL_BUF_LEN))
            } else if d.is_empty() {
                Some("read_managed returned Some(empty buffer)".into())
            } else {
                None
            };
            RecvDone { res: Ok(Some(d)), buf_err, zero_cap: false, ctl: None }
        }
        Ok(None) => RecvDone { res: Ok(None), buf_err: None, zero_cap: false, ctl: None },
        Err(e) => RecvDone { res: Err(e), buf_err: None, zero_cap: false, ctl: None },
    }
}

/// One execution: choices pick the next enabled step (choice 0 = stop here).
pub fn run_one(rt: &Runtime, ch: &mut crate::Pk, cfg: Cfg, alphabet: &[Step], depth: usize, big: usize, origin: Origin) -> crate::ExecOut {
    let out = rt.enter(|| {
        let tt = std::time::Instant::now();
        let mut w = match World::new(rt, cfg, big, origin) {
            Ok(w) => w,
            Err(e) => vcore::machinery_error(&format!("stream set-up failed ({}): {e}", cfg.name())),
        };
        let t_setup = tt.elapsed().as_micros() as u64;
        let mut steps = 0usize;
        let mut names = Vec::new();
        let mut skipped = false;
        while steps < depth {
            let en: Vec<&Step> = alphabet.iter().filter(|s| w.enabled(s)).collect();
            if en.is_empty() {
                break;
            }
            // choice 0 = stop (not offered before the first step).  The second pick ranges over
            // the whole alphabet (statically known size, used for work splitting); a disabled
            // symbol there is not a sequence.
            let s = if steps == 1 {
                let Some(c) = ch.pick(alphabet.len() + 1) else { break };
                if c == 0 {
                    break;
                }
                let s = &alphabet[c - 1];
                if !w.enabled(s) {
                    skipped = true;
                    break;
                }
                s.clone()
            } else {
                let off = if steps == 0 { 0 } else { 1 };
                let Some(c) = ch.pick(en.len() + off) else { break };
                if off == 1 && c == 0 {
                    break;
                }
                en[c - off].clone()
            };
            names.push(s.name());
            w.apply(&s);
            steps += 1;
            if w.fatal {
                break;
            }
        }
        if skipped {
            w.teardown();
            return crate::ExecOut { skipped: true, ..Default::default() };
        }
        let t_steps = tt.elapsed().as_micros() as u64;
        w.finish();
        let t_fin = tt.elapsed().as_micros() as u64;
        let mut o = crate::ExecOut {
            steps: names,
            trace: std::mem::take(&mut w.trace),
            found: std::mem::take(&mut w.found),
            sig: std::mem::take(&mut w.sig),
            skipped: false,
            timing: vec![],
        };
        w.teardown();
        let t_td = tt.elapsed().as_micros() as u64;
        o.timing = vec![("setup", t_setup), ("steps", t_steps - t_setup), ("finish", t_fin - t_steps), ("teardown", t_td - t_fin)];
        o
    });
    out
}

/// probe: how many bytes does one non-blocking send accept on a fresh minimised pair?
pub fn probe_accept(tr: Transport) -> usize {
    let (lis, addr) = peer::raw_listener(tr);
    let a = peer::raw_connect(tr, &addr, false).expect("probe connect");
    let (b, _) = lis.accept().expect("probe accept");
    peer::minimise_buffers(&a);
    peer::minimise_buffers(&b);
    let data = vec![1u8; 4 << 20];
    let n = peer::send_nb(&a, &data).unwrap_or(0);
    if tr == Transport::Tcp {
        peer::set_linger0(std::os::fd::AsRawFd::as_raw_fd(&a));
    }
    n
}

