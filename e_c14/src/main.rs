//! C14 — socket transports deliver exactly what was sent.
//!
//! Real-kernel operation-sequence explorer over the compio-net API on both drivers.
//! See `report.rule(..)` / `bounds` in the evidence for what is enumerated.
//!
//! Process structure: the parent computes the list of work units (family, layer, configuration,
//! first choices) and hands them to single-threaded worker processes over pipes (io_uring set-up
//! and tear-down in many threads of ONE process serialise on the shared address space; separate
//! processes scale).  Every worker answers one JSON line per unit.
mod accept;
mod bufs;
mod dgram;
mod duplex;
mod peer;
mod rt;
mod sops;
mod stream;

use std::{
    collections::{BTreeMap, BTreeSet},
    io::{BufRead, BufReader, Write},
    path::PathBuf,
    sync::{
        Mutex,
        atomic::{AtomicUsize, Ordering},
    },
    time::{Instant, SystemTime, UNIX_EPOCH},
};

use compio_driver::DriverType;
use peer::Transport;
use stream::{RecvKind, SendKind, Step};
use vcore::{Chooser, Report, Tier, Value, Violation, json};

/// a violation found inside one execution
pub struct Found {
    pub key: String,
    pub what: String,
}

#[derive(Default)]
pub struct ExecOut {
    pub skipped: bool,
    pub steps: Vec<String>,
    pub trace: Vec<String>,
    pub found: Vec<Found>,
    pub sig: Vec<String>,
    pub timing: Vec<(&'static str, u64)>,
}

/// one unit of parallel work: a family/layer/configuration plus a first-choice prefix
#[derive(Clone, Debug)]
pub struct Unit {
    pub family: &'static str,
    pub layer: String,
    pub drv: DriverType,
    pub tr: Transport,
    pub depth: usize,
    pub prefix: Vec<u32>,
}

impl Unit {
    fn cfg_name(&self) -> String {
        format!("{}/{}", self.tr.name(), rt::drv_name(self.drv))
    }
}

/// what one worker found in one unit (merged by the parent)
#[derive(Default)]
struct Agg {
    execs: u64,
    transitions: u64,
    outcomes: BTreeSet<String>,
    counters: BTreeMap<String, u64>,
    /// key -> (history length, what, replay, occurrences)
    vio: BTreeMap<String, (usize, String, Value, u64)>,
    samples: Vec<Value>,
    flaky: Vec<Value>,
    capped: bool,
    nondet: bool,
}

impl Agg {
    fn count(&mut self, k: &str, n: u64) {
        *self.counters.entry(k.to_string()).or_insert(0) += n;
    }

    fn to_json(&self) -> Value {
        json!({
            "execs": self.execs, "transitions": self.transitions,
            "outcomes": self.outcomes, "counters": self.counters,
            "vio": self.vio.iter().map(|(k, (l, w, r, n))| json!({"key": k, "len": l, "what": w, "replay": r, "n": n})).collect::<Vec<_>>(),
            "samples": self.samples, "flaky": self.flaky, "capped": self.capped, "nondet": self.nondet,
        })
    }

    fn merge_json(&mut self, v: &Value) {
        self.execs += v["execs"].as_u64().unwrap_or(0);
        self.transitions += v["transitions"].as_u64().unwrap_or(0);
        for o in v["outcomes"].as_array().into_iter().flatten() {
            self.outcomes.insert(o.as_str().unwrap_or("").to_string());
        }
        for (k, n) in v["counters"].as_object().into_iter().flatten() {
            self.count(k, n.as_u64().unwrap_or(0));
        }
        for e in v["vio"].as_array().into_iter().flatten() {
            let key = e["key"].as_str().unwrap_or("").to_string();
            let len = e["len"].as_u64().unwrap_or(0) as usize;
            let n = e["n"].as_u64().unwrap_or(1);
            self.add_vio(key, len, e["what"].as_str().unwrap_or("").to_string(), e["replay"].clone(), n);
        }
        for smp in v["samples"].as_array().into_iter().flatten() {
            if self.samples.len() < 8 {
                self.samples.push(smp.clone());
            }
        }
        for f in v["flaky"].as_array().into_iter().flatten() {
            if self.flaky.len() < 12 {
                self.flaky.push(f.clone());
            }
        }
        self.capped |= v["capped"].as_bool().unwrap_or(false);
        self.nondet |= v["nondet"].as_bool().unwrap_or(false);
    }

    fn add_vio(&mut self, key: String, len: usize, what: String, replay: Value, n: u64) {
        match self.vio.get_mut(&key) {
            Some(e) => {
                e.3 += n;
                if len < e.0 {
                    e.0 = len;
                    e.1 = what;
                    e.2 = replay;
                }
            }
            None => {
                self.vio.insert(key, (len, what, replay, n));
            }
        }
    }

    fn record(&mut self, unit: &Unit, choices: Vec<u32>, out: ExecOut, trace: bool) {
        if out.skipped {
            return;
        }
        self.execs += 1;
        self.transitions += out.steps.len() as u64 + 1;
        self.count(&format!("executions:{}:{}", unit.family, unit.layer), 1);
        for (k, us) in &out.timing {
            self.count(&format!("phase-us:{}:{}:{k}", unit.family, rt::drv_name(unit.drv)), *us);
        }
        for s in &out.sig {
            self.outcomes.insert(format!("{}:{}:{}", unit.family, unit.cfg_name(), s));
        }
        if trace {
            println!("--- {} {} {} choices={:?}", unit.family, unit.layer, unit.cfg_name(), choices);
            for l in &out.trace {
                println!("    {l}");
            }
        }
        if self.samples.len() < 2 && out.steps.len() >= 2 {
            self.samples.push(json!({"family": unit.family, "layer": unit.layer, "config": unit.cfg_name(),
                   "steps": out.steps, "observed": out.sig}));
        }
        for f in out.found {
            let what = format!("[{} {} {}] history: {} — {}", unit.family, unit.layer, unit.cfg_name(), out.steps.join(", "), f.what);
            let replay = json!({
                "family": unit.family, "layer": unit.layer, "transport": unit.tr.name(),
                "driver": rt::drv_name(unit.drv), "depth": unit.depth, "choices": choices,
                "steps": out.steps, "trace": out.trace,
                "how": "e_c14 C14 <tier> --replay <this file>  (E_C14_TRACE=1 prints the step trace)",
            });
            self.add_vio(f.key, out.steps.len(), what, replay, 1);
        }
    }
}

/// A chooser that tolerates a prefix which names an alternative that no longer exists (the set
/// of enabled steps must be a function of the choices; if the kernel ever makes it differ between
/// two runs this is counted and reported instead of killing the run).
pub struct Pk {
    pub ch: Chooser,
    prefix: Vec<u32>,
    pub diverged: bool,
}

impl Pk {
    pub fn new(prefix: Vec<u32>) -> Self {
        Self { ch: Chooser::new(prefix.clone(), 0), prefix, diverged: false }
    }

    pub fn pick(&mut self, n: usize) -> Option<usize> {
        let pos = self.ch.trace.len();
        if self.diverged || (pos < self.prefix.len() && self.prefix[pos] as usize >= n) {
            self.diverged = true;
            return None;
        }
        Some(self.ch.pick(n))
    }

    pub fn choices(&self) -> Vec<u32> {
        self.ch.choices()
    }
}

/// parameters every process must agree on
#[derive(Clone)]
pub struct Params {
    pub tier: Tier,
    pub big_tcp: usize,
    pub big_unix: usize,
    /// unix time (ms) after which no new execution is started
    pub deadline_ms: u128,
}

impl Params {
    pub fn big(&self, tr: Transport) -> usize {
        match tr {
            Transport::Tcp => self.big_tcp,
            _ => self.big_unix,
        }
    }

    fn expired(&self) -> bool {
        now_ms() > self.deadline_ms
    }
}

fn now_ms() -> u128 {
    SystemTime::now().duration_since(UNIX_EPOCH).map(|d| d.as_millis()).unwrap_or(0)
}

// ---------------------------------------------------------------------------------------------
// alphabets
// ---------------------------------------------------------------------------------------------

fn send(kind: SendKind, size: usize, lay: usize) -> Step {
    Step::Send { kind, size, lay }
}

fn recv(kind: RecvKind, par: usize) -> Step {
    Step::Recv { kind, par }
}

pub const BIGR: usize = 40;

pub fn stream_alphabet(layer: &str, big: usize) -> Vec<Step> {
    use RecvKind::*;
    use SendKind::*;
    match layer {
        // every send kind mixed on one connection, partial sends, shutdown, split halves
        "send-deep" => vec![
            send(Write, 3, 0),
            send(WriteV, 3, 3),
            send(Zc, 3, 0),
            send(Anc, 3, 0),
            send(Write, big, 0),
            Step::PeerRecvAll,
            Step::Shutdown,
            Step::Split(false),
            Step::Split(true),
        ],
        // every receive kind mixed on one connection, data before / after the receive is issued
        "recv-deep" => vec![
            recv(Read, 0),
            recv(ReadV, 3),
            recv(Managed, 0),
            recv(Multi, 0),
            recv(RAnc, 0),
            Step::PeerSend(3),
            Step::PeerSend(BIGR),
            Step::PeerShutdown,
            Step::Split(false),
            Step::Split(true),
        ],
        // all send kinds x sizes x vectored cuts
        "send-cross" => {
            let mut v = Vec::new();
            for size in [0usize, 1, 3, big] {
                for k in [Write, Zc, Anc] {
                    v.push(send(k, size, 0));
                }
                for k in [WriteV, ZcV, AncV] {
                    for lay in 0..4 {
                        if size <= 1 && lay == 2 {
                            continue;
                        }
                        v.push(send(k, size, lay));
                    }
                }
            }
            v.push(Step::PeerRecvAll);
            v.push(Step::Shutdown);
            v
        }
        // all receive kinds x buffer shapes / vectored layouts / managed lengths
        "recv-cross" => {
            let mut v = Vec::new();
            for p in 0..stream::SHAPES.len() {
                v.push(recv(Read, p));
                v.push(recv(RAnc, p));
            }
            for p in 0..stream::layouts().len() {
                v.push(recv(ReadV, p));
                v.push(recv(RAncV, p));
            }
            for p in 0..stream::MLENS.len() {
                v.push(recv(Managed, p));
                v.push(recv(Multi, p));
            }
            v.push(Step::PeerSend(1));
            v.push(Step::PeerSend(3));
            v.push(Step::PeerSend(BIGR));
            v.push(Step::PeerShutdown);
            v
        }
        // both directions on one connection
        "duplex" => vec![
            send(Write, 3, 0),
            send(ZcV, 3, 3),
            send(Write, big, 0),
            recv(Read, 1),
            recv(Multi, 1),
            Step::PeerSend(3),
            Step::PeerRecvAll,
            Step::Shutdown,
            Step::PeerShutdown,
            Step::Split(true),
        ],
        _ => unreachable!(),
    }
}


// ---------------------------------------------------------------------------------------------
// units
// ---------------------------------------------------------------------------------------------

/// executions served by one io_uring runtime (see rt::RtCache)
const RT_REUSE: u32 = 40;

const DRIVERS: [DriverType; 2] = [DriverType::IoUring, DriverType::Poll];

fn stream_layers(tier: Tier) -> Vec<(&'static str, usize)> {
    match tier {
        Tier::Quick => vec![("send-deep", 5), ("recv-deep", 5), ("send-cross", 2), ("recv-cross", 3), ("duplex", 4)],
        Tier::Thorough => vec![("send-deep", 6), ("recv-deep", 6), ("send-cross", 3), ("recv-cross", 4), ("duplex", 5)],
    }
}

fn dgram_layers(tier: Tier) -> Vec<(&'static str, usize)> {
    match tier {
        Tier::Quick => vec![("recv-deep", 4), ("recv-cross", 2), ("send", 2), ("connected", 3)],
        Tier::Thorough => vec![("recv-deep", 6), ("recv-cross", 3), ("send", 3), ("connected", 4)],
    }
}

/// TCP runs one step shallower than Unix in the layers where that saves most (same compio code
/// path, several times the cost per execution, no back-pressure across steps on TCP)
fn stream_depth(tier: Tier, layer: &str, depth: usize, tr: Transport) -> usize {
    let shallower = match tier {
        Tier::Quick => layer.ends_with("-deep"),
        Tier::Thorough => layer.ends_with("-cross"),
    };
    if tr == Transport::Tcp && shallower { depth - 1 } else { depth }
}

fn make_units(tier: Tier) -> Vec<Unit> {
    let mut units: Vec<Unit> = Vec::new();
    for (layer, depth) in stream_layers(tier) {
        for &drv in &DRIVERS {
            for tr in [Transport::Tcp, Transport::Unix] {
                // quick: the deep layers run one step shallower on TCP (same compio code path as
                // Unix, several times the cost per execution, and no back-pressure across steps)
                let depth = stream_depth(tier, layer, depth, tr);
                let alpha = stream_alphabet(layer, 1 << 20);
                let n_init = alpha.iter().filter(|s| !matches!(s, Step::PeerRecvAll)).count();
                for c0 in 0..n_init as u32 {
                    for c1 in 0..(alpha.len() as u32 + 1) {
                        units.push(Unit { family: "stream-A", layer: layer.to_string(), drv, tr, depth, prefix: vec![c0, c1] });
                    }
                }
            }
        }
    }
    for (layer, depth) in dgram_layers(tier) {
        for &drv in &DRIVERS {
            for c0 in 0..dgram::alphabet(layer).len() as u32 {
                units.push(Unit { family: "dgram-A", layer: layer.to_string(), drv, tr: Transport::Udp, depth, prefix: vec![c0] });
            }
        }
    }
    for &drv in &DRIVERS {
        for tr in [Transport::Tcp, Transport::Unix] {
            for c0 in 0..accept::ALPHABET.len() as u32 {
                units.push(Unit { family: "accept", layer: "all".into(), drv, tr, depth: tier.pick(5, 8), prefix: vec![c0] });
            }
        }
    }
    let nprog = duplex::writer_programs(0).len() * duplex::READERS.len();
    for &drv in &DRIVERS {
        for tr in [Transport::Tcp, Transport::Unix] {
            for prog in 0..nprog {
                // the big writer is paired with three of the readers, and runs on Unix only
                // (a TCP sender with a minimised send buffer waits for delayed ACKs, i.e. real time)
                let (wi, ri) = (prog / duplex::READERS.len(), prog % duplex::READERS.len());
                if wi == 2 && (tr == Transport::Tcp || !matches!(duplex::READERS[ri], "read" | "readv" | "mixed")) {
                    continue;
                }
                for c0 in 0..3u32 {
                    units.push(Unit { family: "duplex-B", layer: format!("p{prog}"), drv, tr, depth: tier.pick(5, 8), prefix: vec![c0] });
                }
            }
        }
    }
    // debugging aid: E_C14_ONLY=<substring of "family layer transport/driver">
    if let Ok(f) = std::env::var("E_C14_ONLY") {
        units.retain(|u| format!("{} {} {}", u.family, u.layer, u.cfg_name()).contains(&f));
    }
    units
}

/// runs one execution; returns the outcome and whether the runtime had been used before
fn exec_one(par: &Params, unit: &Unit, ch: &mut Pk, cache: &mut rt::RtCache) -> (ExecOut, bool) {
    let pool = match unit.family {
        "dgram-A" => (dgram::DPOOL_LEN, dgram::DPOOL_BUFS),
        _ => (rt::POOL_BUF_LEN, rt::POOL_BUFS),
    };
    let (rt, reused) = cache.get(unit.drv, pool);
    let out = match unit.family {
        "accept" => accept::run_one(rt, ch, unit.drv, unit.tr, unit.depth),
        "duplex-B" => {
            let prog: usize = unit.layer.trim_start_matches('p').parse().unwrap_or(0);
            duplex::run_one(rt, ch, unit.drv, unit.tr, prog, unit.depth, par.big(Transport::Unix))
        }
        "dgram-A" => {
            let alphabet = dgram::alphabet(&unit.layer);
            dgram::run_one(rt, ch, unit.drv, unit.layer == "connected", &alphabet, unit.depth)
        }
        "stream-A" => {
            let big = par.big(unit.tr);
            let alphabet = stream_alphabet(&unit.layer, big);
            let cfg = stream::Cfg { drv: unit.drv, tr: unit.tr };
            let origin = if unit.layer == "duplex" { stream::Origin::Connect } else { stream::Origin::FromStd };
            stream::run_one(rt, ch, cfg, &alphabet, unit.depth, big, origin)
        }
        other => vcore::machinery_error(&format!("unknown family {other}")),
    };
    (out, reused)
}

/// one execution with panic containment; a finding made on a re-used runtime is repeated on a
/// fresh one and marked if it does not reproduce there
fn exec_checked(par: &Params, unit: &Unit, ch: &mut Pk, cache: &mut rt::RtCache, agg: &mut Agg) -> ExecOut {
    let run = |ch: &mut Pk, cache: &mut rt::RtCache| -> (ExecOut, bool) {
        match vcore::catch(std::panic::AssertUnwindSafe(|| exec_one(par, unit, &mut *ch, &mut *cache))) {
            Ok(o) => o,
            Err(p) => {
                cache.retire(unit.drv);
                (
                    ExecOut {
                        steps: vec![format!("choices {:?}", ch.choices())],
                        found: vec![Found { key: format!("{}:panic:{}:{}", unit.family, unit.layer, unit.cfg_name()), what: format!("panic: {p}") }],
                        ..Default::default()
                    },
                    false,
                )
            }
        }
    };
    let (mut out, reused) = run(ch, cache);
    if !out.found.is_empty() {
        // confirmation run: same choices, fresh runtime, three times the hang limit
        cache.retire(unit.drv);
        let mut ch2 = Pk::new(ch.choices());
        rt::set_limit_scale(3);
        let (out2, _) = run(&mut ch2, cache);
        rt::set_limit_scale(1);
        cache.retire(unit.drv);
        agg.count("findings-confirmation-runs", 1);
        let keys2: BTreeSet<String> = out2.found.iter().map(|f| f.key.clone()).collect();
        // a finding that the confirmation run does not reproduce is recorded as a flaky
        // observation (evidence: `flaky_observations`), not as a violation
        let (kept, flaky): (Vec<Found>, Vec<Found>) = std::mem::take(&mut out.found).into_iter().partition(|f| keys2.contains(&f.key));
        for f in flaky {
            agg.count("findings-not-reproduced", 1);
            agg.count(&format!("flaky:{}{}", f.key, if reused { ":first-seen-on-reused-runtime" } else { "" }), 1);
            if agg.flaky.len() < 4 {
                agg.flaky.push(json!({"key": f.key, "what": f.what, "steps": out.steps, "choices": ch.choices()}));
            }
        }
        out.found = kept;
    }
    out
}

/// DFS below the unit's prefix
fn explore_unit(par: &Params, unit: &Unit, agg: &mut Agg, cur: &mut Option<std::fs::File>, cache: &mut rt::RtCache) {
    let plen = unit.prefix.len();
    let mut prefix = unit.prefix.clone();
    let t_unit = Instant::now();
    loop {
        if par.expired() {
            agg.capped = true;
            break;
        }
        if let Some(f) = cur.as_mut() {
            use std::os::unix::fs::FileExt;
            let mut rec = format!("{} {} {} {:?}", unit.family, unit.layer, unit.cfg_name(), prefix).into_bytes();
            rec.resize(256, b' ');
            let _ = f.write_all_at(&rec, 0);
        }
        let mut ch = Pk::new(prefix.clone());
        let out = exec_checked(par, unit, &mut ch, cache, agg);
        let trace = ch.ch.trace.clone();
        if ch.diverged {
            if trace.len() < plen {
                // the unit's own prefix names a branch that does not exist: nothing to do here
                break;
            }
            agg.count("nondeterministic-enabledness", 1);
            agg.count(&format!("nondeterministic-enabledness:{}:{}:{}", unit.family, unit.layer, unit.cfg_name()), 1);
            if agg.flaky.len() < 4 {
                agg.flaky.push(json!({"key": "nondeterministic-enabledness", "unit": format!("{} {} {}", unit.family, unit.layer, unit.cfg_name()),
                    "prefix": prefix, "reached": ch.choices(), "steps_before_divergence": out.steps, "trace": out.trace}));
            }
            agg.nondet = true;
        } else {
            agg.record(unit, ch.choices(), out, false);
        }
        // next prefix, never changing the unit's own prefix
        let mut i = trace.len();
        let mut next = None;
        while i > plen {
            i -= 1;
            let p = trace[i];
            if p.chosen + 1 < p.n {
                let mut v: Vec<u32> = trace[..i].iter().map(|p| p.chosen).collect();
                v.push(p.chosen + 1);
                next = Some(v);
                break;
            }
        }
        match next {
            Some(p) => prefix = p,
            None => break,
        }
    }
    agg.count(&format!("busy-ms:{}:{}:{}", unit.family, unit.layer, unit.cfg_name()), t_unit.elapsed().as_millis() as u64);
}

// ---------------------------------------------------------------------------------------------
// worker process
// ---------------------------------------------------------------------------------------------

fn worker_main(par: Params, k: usize, tmp: PathBuf) -> ! {
    let units = make_units(par.tier);
    let mut cur = std::fs::OpenOptions::new().create(true).write(true).truncate(true).open(tmp.join(format!("cur-{k}"))).ok();
    let stdin = std::io::stdin();
    let stdout = std::io::stdout();
    let mut cache = rt::RtCache::new(RT_REUSE);
    let mut created = 0;
    for line in stdin.lock().lines() {
        let Ok(line) = line else { break };
        let Ok(i) = line.trim().parse::<usize>() else { break };
        let mut agg = Agg::default();
        if i < units.len() {
            explore_unit(&par, &units[i], &mut agg, &mut cur, &mut cache);
        }
        if std::env::var_os("E_C14_DEBUG").is_some() && i < units.len() {
            eprintln!("worker {k} unit {i} {:?} {} {} execs={} busy={:?}", units[i].prefix, units[i].layer, units[i].cfg_name(), agg.execs, agg.counters.iter().find(|(k, _)| k.starts_with("busy-ms")).map(|x| *x.1));
        }
        rt::PROF.with(|p| {
            for (k, (n, us)) in std::mem::take(&mut *p.borrow_mut()) {
                agg.count(&format!("prof:{k}:calls"), n);
                agg.count(&format!("prof:{k}:us"), us);
            }
        });
        agg.count("runtimes-created", cache.created - created);
        created = cache.created;
        let mut o = stdout.lock();
        let _ = writeln!(o, "{}", agg.to_json());
        let _ = o.flush();
    }
    std::process::exit(0)
}

// ---------------------------------------------------------------------------------------------
// parent
// ---------------------------------------------------------------------------------------------

fn spawn_worker(par: &Params, k: usize, tmp: &PathBuf) -> std::process::Child {
    let exe = std::env::current_exe().unwrap_or_else(|e| vcore::machinery_error(&format!("current_exe: {e}")));
    std::process::Command::new(exe)
        .arg("C14")
        .arg(par.tier.name())
        .arg("--worker")
        .arg(k.to_string())
        .arg(tmp)
        .arg(par.deadline_ms.to_string())
        .arg(par.big_tcp.to_string())
        .arg(par.big_unix.to_string())
        .stdin(std::process::Stdio::piped())
        .stdout(std::process::Stdio::piped())
        .spawn()
        .unwrap_or_else(|e| vcore::machinery_error(&format!("cannot start a worker: {e}")))
}

fn run_parallel(par: &Params, units: &[Unit], tmp: &PathBuf) -> Agg {
    let next = AtomicUsize::new(0);
    let total = Mutex::new(Agg::default());
    let nworkers = vcore::threads().max(1).min(units.len().max(1));
    std::thread::scope(|sc| {
        for k in 0..nworkers {
            let (next, total) = (&next, &total);
            sc.spawn(move || {
                let mut respawns = 0;
                let mut child = spawn_worker(par, k, tmp);
                let mut cin = child.stdin.take().unwrap();
                let mut cout = BufReader::new(child.stdout.take().unwrap());
                loop {
                    let i = next.fetch_add(1, Ordering::SeqCst);
                    if i >= units.len() {
                        break;
                    }
                    let mut line = String::new();
                    let ok = writeln!(cin, "{i}").is_ok() && cin.flush().is_ok() && cout.read_line(&mut line).map(|n| n > 0).unwrap_or(false);
                    let parsed = if ok { vcore::serde_json::from_str::<Value>(&line).ok() } else { None };
                    match parsed {
                        Some(v) => total.lock().unwrap().merge_json(&v),
                        None => {
                            // the worker died inside this unit
                            let status = child.wait().ok();
                            let at = std::fs::read_to_string(tmp.join(format!("cur-{k}"))).unwrap_or_default();
                            let u = &units[i];
                            let machinery = status.and_then(|s| s.code()) == Some(2);
                            if machinery {
                                // its own machinery error (message on stderr), e.g. a set-up step that
                                // failed on a starved machine: tolerated a few times, then fatal
                                let mut t = total.lock().unwrap();
                                t.count("worker-machinery-errors", 1);
                                t.capped = true;
                                let n = t.counters.get("worker-machinery-errors").copied().unwrap_or(0);
                                drop(t);
                                if n > 3 {
                                    vcore::machinery_error(&format!("worker processes keep failing in set-up (last at {})", at.trim()));
                                }
                            } else {
                                total.lock().unwrap().add_vio(
                                    format!("{}:crash:{}:{}", u.family, u.layer, u.cfg_name()),
                                    0,
                                    format!("a worker process died ({status:?}) while running {}", at.trim()),
                                    json!({"family": u.family, "layer": u.layer, "transport": u.tr.name(), "driver": rt::drv_name(u.drv), "depth": u.depth, "at": at.trim()}),
                                    1,
                                );
                            }
                            respawns += 1;
                            if respawns > 8 {
                                total.lock().unwrap().capped = true;
                                return;
                            }
                            child = spawn_worker(par, k, tmp);
                            cin = child.stdin.take().unwrap();
                            cout = BufReader::new(child.stdout.take().unwrap());
                        }
                    }
                }
                drop(cin);
                let _ = child.wait();
            });
        }
    });
    total.into_inner().unwrap()
}

fn parse_unit(r: &Value) -> Unit {
    let family = match r["family"].as_str().unwrap_or("") {
        "stream-A" => "stream-A",
        "dgram-A" => "dgram-A",
        "accept" => "accept",
        "duplex-B" => "duplex-B",
        other => vcore::machinery_error(&format!("unknown family {other:?} in the replay file")),
    };
    Unit {
        family,
        layer: r["layer"].as_str().unwrap_or("").to_string(),
        drv: if r["driver"] == "uring" { DriverType::IoUring } else { DriverType::Poll },
        tr: match r["transport"].as_str().unwrap_or("") {
            "tcp" => Transport::Tcp,
            "udp" => Transport::Udp,
            _ => Transport::Unix,
        },
        depth: r["depth"].as_u64().unwrap_or(5) as usize,
        prefix: r["choices"].as_array().map(|a| a.iter().map(|x| x.as_u64().unwrap_or(0) as u32).collect()).unwrap_or_default(),
    }
}

fn main() {
    // The harness allocates and frees 32 KiB..64 KiB payload buffers all the time; glibc would
    // grow and trim the heap with brk() for each of them, and address-space changes are very
    // expensive in this kind of VM (about 1 ms per call measured).  Keep the heap.
    unsafe {
        libc::mallopt(libc::M_TRIM_THRESHOLD, 1 << 30);
        libc::mallopt(libc::M_TOP_PAD, 32 << 20);
        libc::mallopt(libc::M_MMAP_THRESHOLD, 1 << 30);
    }
    let args = vcore::parse_args();
    if args.property != "C14" {
        vcore::machinery_error("e_c14 serves property C14 only");
    }
    vcore::quiet_panics();
    let tier = args.tier;

    // ---- worker mode
    if args.rest.first().map(|s| s.as_str()) == Some("--worker") {
        let r = &args.rest;
        let num = |i: usize| -> u128 { r.get(i).and_then(|s| s.parse().ok()).unwrap_or_else(|| vcore::machinery_error("bad worker arguments")) };
        let par = Params { tier, deadline_ms: num(3), big_tcp: num(4) as usize, big_unix: num(5) as usize };
        worker_main(par, num(1) as usize, PathBuf::from(&r[2]));
    }

    let report = Report::new("C14", tier);
    let trace = std::env::var_os("E_C14_TRACE").is_some();

    // "socket send buffer + 1": a size one non-blocking send cannot take at once
    let acc_tcp = stream::probe_accept(Transport::Tcp);
    let acc_unix = stream::probe_accept(Transport::Unix);
    let wall_cap = std::env::var("E_C14_WALL").ok().and_then(|s| s.parse().ok()).unwrap_or(tier.pick(38.0, 560.0));
    let par = Params {
        tier,
        big_tcp: (acc_tcp + 1).next_multiple_of(4096) + 1,
        big_unix: (acc_unix + 1).next_multiple_of(4096) + 1,
        deadline_ms: now_ms() + (wall_cap * 1000.0) as u128,
    };

    // ---- replay of one execution
    let single = if let Some(path) = &args.replay {
        let b = std::fs::read(path).unwrap_or_else(|e| vcore::machinery_error(&format!("cannot read {path:?}: {e}")));
        let body: Value = vcore::serde_json::from_slice(&b).unwrap_or_else(|e| vcore::machinery_error(&format!("cannot parse {path:?}: {e}")));
        Some(parse_unit(&body["replay"]))
    } else if let Ok(one) = std::env::var("E_C14_ONE") {
        // debugging aid: E_C14_ONE=family,layer,driver,transport,depth,c0,c1,...
        let p: Vec<&str> = one.split(',').collect();
        Some(parse_unit(&json!({"family": p[0], "layer": p[1], "driver": p[2], "transport": p[3],
            "depth": p[4].parse::<u64>().unwrap_or(5), "choices": p[5..].iter().map(|x| x.parse::<u64>().unwrap_or(0)).collect::<Vec<_>>()})))
    } else {
        None
    };
    if let Some(unit) = single {
        let mut agg = Agg::default();
        let mut ch = Pk::new(unit.prefix.clone());
        let mut cache = rt::RtCache::new(1);
        let t0 = Instant::now();
        let (out, _) = exec_one(&par, &unit, &mut ch, &mut cache);
        println!("one execution: {:?}", t0.elapsed());
        agg.record(&unit, ch.choices(), out, true);
        finish(report, agg, false);
    }

    // ---- exploration
    let units = make_units(tier);
    let layers = stream_layers(tier);
    let bounds = json!({
        "drivers": ["io_uring", "polling"],
        "stream-A": {
            "transports": ["tcp-loopback", "unix-stream"],
            "note": "on TCP the -deep layers (quick) / the -cross layers (thorough) run with depth - 1",
            "layers": layers.iter().map(|(l, d)| json!({"layer": l, "depth": d, "alphabet": stream_alphabet(l, 99999).iter().map(|s| s.name()).collect::<Vec<_>>() })).collect::<Vec<_>>(),
        },
        "dgram-A": {
            "transport": "udp-loopback, two raw peers", "datagram_sizes": dgram::SIZES,
            "layers": dgram_layers(tier).iter().map(|(l, d)| json!({"layer": l, "depth": d, "alphabet": dgram::alphabet(l).iter().map(|s| s.name()).collect::<Vec<_>>() })).collect::<Vec<_>>(),
            "managed_pool": {"buffers": dgram::DPOOL_BUFS, "buffer_len": dgram::DPOOL_LEN},
        },
        "accept": {"transports": ["tcp-loopback", "unix-stream"], "alphabet": ["PeerConnect", "Accept", "IncomingNext", "Harvest"], "depth": tier.pick(5, 8), "max_connections": 4},
        "duplex-B": {
            "transports": ["tcp-loopback", "unix-stream"], "schedule_alphabet": ["PollWriter", "PollReader", "Harvest"], "schedule_depth": tier.pick(5, 8),
            "writers": duplex::writer_programs(par.big_unix).iter().map(|(n, p, s)| json!({"name": n, "ops": format!("{p:?}"), "through_into_split_write_half": s})).collect::<Vec<_>>(),
            "readers": duplex::READERS,
        },
        "big_send": {"tcp": par.big_tcp, "unix": par.big_unix, "accepted_by_one_send_with_minimised_SO_SNDBUF": {"tcp": acc_tcp, "unix": acc_unix}},
        "managed_pool": {"buffers": rt::POOL_BUFS, "buffer_len": rt::POOL_BUF_LEN},
        "wall_cap_s": wall_cap,
        "work_units": units.len(),
    });
    report.extra("bounds", bounds);

    let tmp = std::env::temp_dir().join(format!("e_c14-{}", std::process::id()));
    let _ = std::fs::create_dir_all(&tmp);
    let agg = run_parallel(&par, &units, &tmp);
    let _ = std::fs::remove_dir_all(&tmp);
    let _ = trace;
    finish(report, agg, true);
}

fn finish(report: Report, agg: Agg, full: bool) -> ! {
    report.evaluations.fetch_add(agg.execs, Ordering::Relaxed);
    report.traces_validated.fetch_add(agg.execs, Ordering::Relaxed);
    report.transitions.fetch_add(agg.transitions, Ordering::Relaxed);
    for o in &agg.outcomes {
        report.outcome(o.clone());
    }
    report.extra("outcome_list", json!(agg.outcomes));
    report.extra("flaky_observations", json!(agg.flaky));
    if full {
        // branches the exploration is supposed to reach (otherwise the run is vacuous)
        let reach: [(&str, &[&str]); 16] = [
            ("stream: partial send on TCP", &["stream-A:tcp/", "[big]", "=partial"]),
            ("stream: partial send on Unix", &["stream-A:unix/", "[big]", "=partial"]),
            ("stream: send left pending by a full buffer (Unix)", &["stream-A:unix/", "send=", "=pending"]),
            ("stream: receive issued before the data", &["stream-A:", "recv=", "=pending"]),
            ("stream: end of stream after the peer's shutdown", &["stream-A:", "recv=", "=eof"]),
            ("stream: multishot receive out of pool buffers (io_uring)", &["stream-A:", "/uring", "recv=Multi", "ResourceBusy"]),
            ("stream: zero-copy send", &["stream-A:tcp/uring", "send=Zc", "=full"]),
            ("stream: shutdown through a borrowed write half", &["shutdown+split=ok"]),
            ("stream: receive through owned halves", &["recv=", "+into_split=data"]),
            ("datagram: cut to the capacity", &["dgram-A:", "+cut=ok"]),
            ("datagram: zero-length datagram", &["dgram-A:", "+empty="]),
            ("datagram: receive issued before the datagram", &["dgram-A:", "=pending"]),
            ("datagram: zero-copy send", &["dgram-A:", "send=ToZc", "=ok"]),
            ("accept: call issued before the connection", &["accept:", "=pending"]),
            ("accept: multishot incoming() yields", &["accept:", "incoming=yield"]),
            ("duplex: reader and writer both finish", &["duplex-B:", "=ok"]),
        ];
        for (name, pats) in reach {
            report.must_reach(name);
            let n = agg.outcomes.iter().filter(|o| pats.iter().all(|p| o.contains(p))).count();
            report.count(name, n as u64);
        }
    }
    for (k, n) in &agg.counters {
        report.count(k, *n);
    }
    for s in agg.samples.iter().take(6) {
        let s = s.clone();
        report.sample(6, move || s);
    }
    if agg.capped {
        report.cap_hit("wall-clock cap reached, or a worker process failed in set-up (counter worker-machinery-errors: the rest of its work unit was not run), before the enumeration finished");
    }
    if agg.nondet {
        report.cap_hit("the set of enabled steps differed between two runs of the same choice prefix (counter nondeterministic-enabledness); the siblings of those points were skipped");
    }
    for (key, (_, what, replay, n)) in agg.vio {
        report.count(&format!("violation-occurrences:{key}"), n);
        report.violation(Violation { key, what, replay });
    }
    for a in [
        "kernel: Linux loopback TCP / Unix / UDP sockets deliver in order and lose nothing while the receive buffers have room (the harness keeps every sequence far below them); the peer ends are raw non-blocking sockets operated by the harness thread",
        "a runtime serves up to 40 consecutive executions of one worker process (creating and closing io_uring instances is serialised machine-wide at a few hundred per second, which would cap the whole run at ~10^4 executions); every execution gets fresh sockets, everything in flight is dropped and reaped at its end, and every finding is confirmed by re-running its choice list on a fresh runtime with three times the hang limit (unconfirmed ones are listed under flaky_observations and are not violations)",
        "harvest = mark the runtime notified, poll_with(Some(ZERO)), run(): the notification makes the zero-timeout poll non-sleeping (io_uring_enter with min_complete 0); a completion the harness itself enabled is awaited with bounded retries (1.5 s), expiry is reported as a hang only if the confirmation run reproduces it",
        "TCP: acknowledgements and window updates are real-time kernel behaviour (delayed-ACK timer), so the raw peer reads eagerly after every compio send and TCP_NODELAY/TCP_QUICKACK are set on both ends; hence no send stays pending across steps on TCP, back-pressure across steps is explored on the Unix transport only",
        "stream-A streams are made with from_std() around a connected std socket, except the 'duplex' layer (TcpStream::connect / UnixStream::connect_addr); SO_SNDBUF of the compio end is minimised, receive buffers keep their defaults; Unix compio ends have SO_PASSCRED set (every ancillary read sees one SCM_CREDENTIALS message)",
        "buffers handed to compio are a harness type implementing IoBuf/IoBufMut/SetLen over a guarded heap block (pattern in every byte, guard bytes after the capacity, set_len recorded); Vec<u8>-specific code paths of compio-buf are not exercised here (C10/C11 do that)",
        "built with both driver features (io-uring + polling, compio's 'fusion' configuration); the polling driver is selected at run time with ProactorBuilder::driver_type",
    ] {
        report.assume(a);
    }
    report.rule("every sequence of enabled harness steps up to the stated depth over the stated alphabet, for each (driver, transport, layer), each run on a fresh runtime and fresh sockets; distinct_nontrivial = distinct (configuration, operation class, result class) observations");
    report.finish()
}
