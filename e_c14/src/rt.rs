//! A real compio runtime stepped by hand: futures are polled with a flag waker, completions are
//! reaped only with zero-timeout polls.  Nothing here ever blocks in the kernel.
use std::{
    future::Future,
    num::NonZero,
    pin::Pin,
    sync::{
        Arc,
        atomic::{AtomicBool, AtomicU32, Ordering},
    },
    task::{Context, Poll, Wake, Waker},
    time::{Duration, Instant},
};

use compio_driver::{DriverType, ProactorBuilder};
use compio_runtime::Runtime;

/// size of one managed (buffer pool) buffer and number of buffers: tiny on purpose, so that
/// managed / multishot receives are cut, span several buffers and exhaust the pool
pub const POOL_BUF_LEN: usize = 16;
pub const POOL_BUFS: u16 = 2;

pub fn drv_name(t: DriverType) -> &'static str {
    match t {
        DriverType::IoUring => "uring",
        DriverType::Poll => "poll",
        _ => "other",
    }
}

pub fn new_runtime(t: DriverType, pool: (usize, u16)) -> Runtime {
    let mut pb = ProactorBuilder::new();
    pb.driver_type(t).capacity(32);
    pb.buffer_pool_size(NonZero::new(pool.1).unwrap());
    pb.buffer_pool_buffer_len(pool.0);
    let rt = match Runtime::builder().with_proactor(pb).build() {
        Ok(rt) => rt,
        Err(e) => vcore::machinery_error(&format!("cannot create a compio runtime on {t:?}: {e}")),
    };
    if rt.driver_type() != t {
        vcore::machinery_error(&format!("asked for driver {t:?}, got {:?}", rt.driver_type()));
    }
    rt
}

pub struct Flag {
    woken: AtomicBool,
    wakes: AtomicU32,
}

impl Wake for Flag {
    fn wake(self: Arc<Self>) {
        self.wake_by_ref()
    }

    fn wake_by_ref(self: &Arc<Self>) {
        self.woken.store(true, Ordering::SeqCst);
        self.wakes.fetch_add(1, Ordering::SeqCst);
    }
}

/// A hand-polled future.
pub struct Task<T> {
    fut: Option<Pin<Box<dyn Future<Output = T>>>>,
    flag: Arc<Flag>,
    waker: Waker,
    pub polls: u32,
    pub out: Option<T>,
}

impl<T> Task<T> {
    /// must be called inside `rt.enter`
    pub fn new(fut: impl Future<Output = T> + 'static) -> Self {
        let flag = Arc::new(Flag { woken: AtomicBool::new(true), wakes: AtomicU32::new(0) });
        let waker = Waker::from(flag.clone());
        Self { fut: Some(Box::pin(fut)), flag, waker, polls: 0, out: None }
    }

    pub fn is_done(&self) -> bool {
        self.out.is_some()
    }

    pub fn woken(&self) -> bool {
        self.flag.woken.load(Ordering::SeqCst)
    }

    /// poll unconditionally (a spurious poll is legal); returns true when finished
    pub fn poll_now(&mut self) -> bool {
        if self.out.is_some() {
            return true;
        }
        let Some(fut) = self.fut.as_mut() else { return true };
        self.flag.woken.store(false, Ordering::SeqCst);
        self.polls += 1;
        let mut cx = Context::from_waker(&self.waker);
        match fut.as_mut().poll(&mut cx) {
            Poll::Ready(v) => {
                self.out = Some(v);
                self.fut = None;
                true
            }
            Poll::Pending => false,
        }
    }

    /// poll only if the waker fired since the last poll
    pub fn poll_if_woken(&mut self) -> bool {
        if self.out.is_some() {
            return true;
        }
        if self.woken() { self.poll_now() } else { false }
    }

    pub fn take(&mut self) -> Option<T> {
        self.out.take()
    }
}

/// Reap completions without blocking, then tick the executor.  The runtime is marked notified
/// first: a zero-timeout poll of an un-notified io_uring driver still asks the kernel to wait for
/// one completion (`io_uring_enter(min_complete = 1, timeout = 0)`), which is a trip through the
/// scheduler every time nothing is ready; notified, it submits and reaps with `min_complete = 0`.
pub fn harvest(rt: &Runtime) {
    let t = Instant::now();
    rt.waker().wake_by_ref();
    rt.poll_with(Some(Duration::ZERO));
    rt.run();
    prof("harvest", t);
}

thread_local! {
    pub static PROF: std::cell::RefCell<std::collections::BTreeMap<&'static str, (u64, u64)>> = const { std::cell::RefCell::new(std::collections::BTreeMap::new()) };
}

/// accumulate wall time per harness activity (reported as counters)
pub fn prof(name: &'static str, since: Instant) {
    let us = since.elapsed().as_micros() as u64;
    PROF.with(|p| {
        let mut p = p.borrow_mut();
        let e = p.entry(name).or_insert((0, 0));
        e.0 += 1;
        e.1 += us;
    });
}

thread_local! {
    static LIMIT_SCALE: std::cell::Cell<u32> = const { std::cell::Cell::new(1) };
}

/// how long the harness waits for a completion it has itself enabled before it calls it a hang;
/// the confirmation run of a finding uses three times the limit
pub fn settle_limit() -> Duration {
    Duration::from_millis(1500) * LIMIT_SCALE.with(|s| s.get())
}

pub fn set_limit_scale(n: u32) {
    LIMIT_SCALE.with(|s| s.set(n));
}

/// Harvest until `done()` holds; the condition must be something the harness itself enabled.
/// Returns false on expiry (liveness candidate).
pub fn settle_until(rt: &Runtime, mut done: impl FnMut() -> bool) -> bool {
    let start = Instant::now();
    let mut rounds = 0u32;
    loop {
        if done() {
            return true;
        }
        harvest(rt);
        if done() {
            return true;
        }
        rounds += 1;
        if rounds > 3 {
            if start.elapsed() > settle_limit() {
                return false;
            }
            // a bounded wait for a completion the harness itself enabled
            rt.poll_with(Some(Duration::from_micros(if rounds < 40 { 100 } else { 1000 })));
            rt.run();
        }
    }
}

/// drive one future to completion (used for set-up only: bind / connect / accept)
pub fn drive<T: 'static>(rt: &Runtime, fut: impl Future<Output = T> + 'static) -> Option<T> {
    let mut t = Task::new(fut);
    // set-up is not what is being judged: be generous (the polling driver sends socket(), bind(),
    // listen() through its thread pool, whose thread may be starved on a busy machine)
    let old = LIMIT_SCALE.with(|s| s.replace(6));
    let ok = settle_until(rt, || t.poll_if_woken());
    LIMIT_SCALE.with(|s| s.set(old));
    if ok { t.take() } else { None }
}

/// Per-worker runtime cache.  Creating and closing an io_uring instance costs milliseconds of
/// machine-wide serialised kernel work (a few hundred instances per second in total when the
/// machine is busy, no matter how many processes ask), and a polling runtime starts a thread for
/// its blocking operations; so a runtime serves up to `reuse` consecutive executions.  Every
/// execution still gets fresh sockets, everything in flight is dropped and reaped at its end, and
/// an execution that found something is repeated on a fresh runtime.
pub struct RtCache {
    slots: Vec<((DriverType, usize), Runtime, u32)>,
    pub reuse: u32,
    pub created: u64,
}

impl RtCache {
    pub fn new(reuse: u32) -> Self {
        Self { slots: Vec::new(), reuse, created: 0 }
    }

    /// returns the runtime and whether it has served an execution before
    pub fn get(&mut self, t: DriverType, pool: (usize, u16)) -> (&Runtime, bool) {
        let reuse = self.reuse;
        let key = (t, pool.0);
        self.slots.retain(|(d, _, n)| !(*d == key && *n >= reuse));
        if !self.slots.iter().any(|(d, ..)| *d == key) {
            self.slots.push((key, new_runtime(t, pool), 0));
            self.created += 1;
        }
        let e = self.slots.iter_mut().find(|(d, ..)| *d == key).unwrap();
        e.2 += 1;
        (&e.1, e.2 > 1)
    }

    pub fn retire(&mut self, t: DriverType) {
        self.slots.retain(|(d, ..)| d.0 != t);
    }
}
