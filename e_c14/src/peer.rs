//! The harness-operated peer: raw non-blocking sockets driven with plain system calls.
use std::{
    io,
    mem::MaybeUninit,
    os::fd::{AsRawFd, RawFd},
    sync::atomic::{AtomicU64, Ordering},
    time::{Duration, Instant},
};

use socket2::{Domain, Protocol, SockAddr, Socket, Type};

#[derive(Clone, Copy, Debug, PartialEq, Eq, Hash)]
pub enum Transport {
    Tcp,
    Unix,
    Udp,
}

impl Transport {
    pub fn name(self) -> &'static str {
        match self {
            Transport::Tcp => "tcp",
            Transport::Unix => "unix",
            Transport::Udp => "udp",
        }
    }
}

static NAME_SEQ: AtomicU64 = AtomicU64::new(0);

/// a fresh abstract-namespace Unix address (no file system object, nothing to clean up)
pub fn fresh_unix_addr() -> SockAddr {
    let n = NAME_SEQ.fetch_add(1, Ordering::Relaxed);
    let name = format!("\0e_c14-{}-{}", std::process::id(), n);
    SockAddr::unix(name).expect("abstract unix address")
}

pub fn loopback0() -> SockAddr {
    SockAddr::from(std::net::SocketAddr::from(([127, 0, 0, 1], 0)))
}

pub fn would_block(e: &io::Error) -> bool {
    e.kind() == io::ErrorKind::WouldBlock
}

fn must<T>(what: &str, r: io::Result<T>) -> T {
    match r {
        Ok(v) => v,
        Err(e) => vcore::machinery_error(&format!("peer set-up failed: {what}: {e}")),
    }
}

/// raw listening socket
pub fn raw_listener(t: Transport) -> (Socket, SockAddr) {
    match t {
        Transport::Tcp => {
            let s = must("socket", Socket::new(Domain::IPV4, Type::STREAM, Some(Protocol::TCP)));
            must("bind", s.bind(&loopback0()));
            must("listen", s.listen(16));
            let a = must("local_addr", s.local_addr());
            (s, a)
        }
        Transport::Unix => {
            let s = must("socket", Socket::new(Domain::UNIX, Type::STREAM, None));
            let a = fresh_unix_addr();
            must("bind", s.bind(&a));
            must("listen", s.listen(16));
            (s, a)
        }
        Transport::Udp => vcore::machinery_error("no listener for UDP"),
    }
}

/// raw client socket connected (blocking connect: completes inside the kernel against the
/// listen backlog, nobody has to accept first)
pub fn raw_connect(t: Transport, to: &SockAddr, bind_unix: bool) -> io::Result<Socket> {
    let s = match t {
        Transport::Tcp => Socket::new(Domain::IPV4, Type::STREAM, Some(Protocol::TCP))?,
        Transport::Udp => return Err(io::Error::other("no stream connect for UDP")),
        Transport::Unix => {
            let s = Socket::new(Domain::UNIX, Type::STREAM, None)?;
            if bind_unix {
                s.bind(&fresh_unix_addr())?;
            }
            s
        }
    };
    s.connect(to)?;
    s.set_nonblocking(true)?;
    Ok(s)
}

/// minimise the send buffer so that partial sends happen (the receive buffers stay at their
/// defaults: a tiny TCP receive window makes the kernel fall back to its persist timer, i.e. to
/// real-time waits nobody owns)
pub fn minimise_buffers(s: &impl AsRawFd) {
    let fd = s.as_raw_fd();
    for opt in [libc::SO_SNDBUF] {
        let v: libc::c_int = 1;
        unsafe {
            libc::setsockopt(fd, libc::SOL_SOCKET, opt, &v as *const _ as *const _, std::mem::size_of::<libc::c_int>() as _);
        }
    }
}

/// abortive close for TCP (no TIME_WAIT pile-up over 10^5 connections)
pub fn set_linger0(fd: RawFd) {
    let l = libc::linger { l_onoff: 1, l_linger: 0 };
    unsafe {
        libc::setsockopt(fd, libc::SOL_SOCKET, libc::SO_LINGER, &l as *const _ as *const _, std::mem::size_of::<libc::linger>() as _);
    }
}

pub fn send_nb(s: &Socket, data: &[u8]) -> io::Result<usize> {
    let r = unsafe { libc::send(s.as_raw_fd(), data.as_ptr().cast(), data.len(), libc::MSG_NOSIGNAL | libc::MSG_DONTWAIT) };
    if r < 0 { Err(io::Error::last_os_error()) } else { Ok(r as usize) }
}

/// non-blocking read of whatever is there, up to `max`; Ok(None) = would block, Ok(Some(empty)) = EOF
pub fn recv_nb(s: &Socket, max: usize) -> io::Result<Option<Vec<u8>>> {
    let mut buf = vec![0u8; max];
    let r = unsafe { libc::recv(s.as_raw_fd(), buf.as_mut_ptr().cast(), max, libc::MSG_DONTWAIT) };
    if r < 0 {
        let e = io::Error::last_os_error();
        if would_block(&e) { Ok(None) } else { Err(e) }
    } else {
        buf.truncate(r as usize);
        Ok(Some(buf))
    }
}

pub struct Dgram {
    pub data: Vec<u8>,
    pub from: Option<SockAddr>,
    pub control: Vec<u8>,
    /// true length (MSG_TRUNC requested)
    pub real_len: usize,
}

/// non-blocking recvmsg of one datagram / chunk with control data
pub fn recvmsg_nb(s: &Socket, max: usize, dgram: bool) -> io::Result<Option<Dgram>> {
    thread_local! { static SCRATCH: std::cell::RefCell<Vec<u8>> = const { std::cell::RefCell::new(Vec::new()) }; }
    let mut buf = SCRATCH.with(|s| std::mem::take(&mut *s.borrow_mut()));
    if buf.len() < max.max(1) {
        buf.resize(max.max(1), 0);
    }
    let mut ctl = [0u64; 16];
    let mut name: MaybeUninit<libc::sockaddr_storage> = MaybeUninit::zeroed();
    let mut iov = libc::iovec { iov_base: buf.as_mut_ptr().cast(), iov_len: max };
    let mut msg: libc::msghdr = unsafe { std::mem::zeroed() };
    msg.msg_name = name.as_mut_ptr().cast();
    msg.msg_namelen = std::mem::size_of::<libc::sockaddr_storage>() as _;
    msg.msg_iov = &mut iov;
    msg.msg_iovlen = 1;
    msg.msg_control = ctl.as_mut_ptr().cast();
    msg.msg_controllen = std::mem::size_of_val(&ctl) as _;
    let r = unsafe { libc::recvmsg(s.as_raw_fd(), &mut msg, libc::MSG_DONTWAIT | if dgram { libc::MSG_TRUNC } else { 0 } | libc::MSG_CMSG_CLOEXEC) };
    if r < 0 {
        let e = io::Error::last_os_error();
        SCRATCH.with(|s| *s.borrow_mut() = buf);
        return if would_block(&e) { Ok(None) } else { Err(e) };
    }
    let real_len = r as usize;
    let data = buf[..real_len.min(max)].to_vec();
    SCRATCH.with(|s| *s.borrow_mut() = buf);
    let buf = data;
    let from = if msg.msg_namelen > 0 {
        Some(unsafe { SockAddr::new(std::mem::transmute_copy(&name.assume_init()), msg.msg_namelen) })
    } else {
        None
    };
    let cl = msg.msg_controllen as usize;
    let control = unsafe { std::slice::from_raw_parts(ctl.as_ptr().cast::<u8>(), cl) }.to_vec();
    Ok(Some(Dgram { data: buf, from, control, real_len }))
}

/// wait (bounded) for a kernel condition the harness itself caused
pub fn wait_for<T>(limit: Duration, mut f: impl FnMut() -> Option<T>) -> Option<T> {
    let start = Instant::now();
    let mut n = 0u32;
    loop {
        if let Some(v) = f() {
            return Some(v);
        }
        n += 1;
        if start.elapsed() > limit {
            return None;
        }
        if n > 3 {
            std::thread::sleep(Duration::from_micros(if n < 40 { 50 } else { 1000 }));
        }
    }
}

pub fn addr_eq(a: &SockAddr, b: &SockAddr) -> bool {
    match (a.as_socket(), b.as_socket()) {
        (Some(x), Some(y)) => x == y,
        _ => a.len() == b.len() && unsafe {
            std::slice::from_raw_parts(a.as_ptr() as *const u8, a.len() as usize)
                == std::slice::from_raw_parts(b.as_ptr() as *const u8, b.len() as usize)
        },
    }
}

pub fn addr_str(a: &SockAddr) -> String {
    if let Some(s) = a.as_socket() {
        return s.to_string();
    }
    if let Some(p) = a.as_abstract_namespace() {
        return format!("@{}", String::from_utf8_lossy(p));
    }
    if a.is_unnamed() { "(unnamed)".into() } else { format!("{a:?}") }
}

pub fn set_quickack(fd: RawFd) {
    let one: libc::c_int = 1;
    unsafe {
        libc::setsockopt(fd, libc::IPPROTO_TCP, libc::TCP_QUICKACK, &one as *const _ as *const _, 4);
    }
}

pub fn set_rcvbuf(fd: RawFd, bytes: i32) {
    let v: libc::c_int = bytes;
    unsafe {
        libc::setsockopt(fd, libc::SOL_SOCKET, libc::SO_RCVBUF, &v as *const _ as *const _, 4);
    }
}

/// bytes in the send queue that the other end has not acknowledged yet (TCP: SIOCOUTQ)
pub fn outq(fd: RawFd) -> i32 {
    let mut v: libc::c_int = 0;
    unsafe { libc::ioctl(fd, libc::TIOCOUTQ, &mut v) };
    v
}

/// TCP_INFO.tcpi_bytes_received: payload bytes that have entered this socket's receive queue so
/// far (whether or not anybody read or acknowledged them yet)
pub fn tcp_bytes_received(fd: RawFd) -> u64 {
    let mut buf = [0u8; 256];
    let mut len: libc::socklen_t = buf.len() as _;
    let r = unsafe { libc::getsockopt(fd, libc::IPPROTO_TCP, libc::TCP_INFO, buf.as_mut_ptr().cast(), &mut len) };
    if r != 0 || (len as usize) < 136 {
        return u64::MAX;
    }
    u64::from_ne_bytes(buf[128..136].try_into().unwrap())
}

/// does the kernel report send space on this socket right now (POLLOUT, zero timeout)?
pub fn writable(fd: RawFd) -> bool {
    let mut p = libc::pollfd { fd, events: libc::POLLOUT, revents: 0 };
    let r = unsafe { libc::poll(&mut p, 1, 0) };
    r > 0 && p.revents & libc::POLLOUT != 0
}
