//! Accept (single shot) and `incoming()` (multishot) against raw peers that connect.
//!
//! Oracle: every PeerConnect is yielded exactly once (identified by the bytes the peer sent on it
//! and by its address), none lost when several connect before one accept or arrive in one
//! completion batch, none duplicated, nothing yielded that nobody connected; the yielded stream
//! carries data in both directions.
use std::{cell::RefCell, collections::VecDeque, io, rc::Rc};

use compio_buf::BufResult;
use compio_driver::DriverType;
use compio_io::{AsyncRead, AsyncWrite};
use compio_net::{TcpListener, TcpStream, UnixListener, UnixStream};
use compio_runtime::Runtime;
use futures_util::StreamExt;
use socket2::{SockAddr, Socket};

use crate::{
    Found,
    bufs::GBuf,
    peer::{self, Transport},
    rt::{self, Task, drv_name, harvest, settle_until},
};

#[derive(Clone, Copy, Debug, PartialEq, Eq)]
pub enum Step {
    PeerConnect,
    Accept,
    IncomingNext,
    Harvest,
}

pub const ALPHABET: [Step; 4] = [Step::PeerConnect, Step::Accept, Step::IncomingNext, Step::Harvest];

enum Lis {
    Tcp(Rc<TcpListener>),
    Unix(Rc<UnixListener>),
}

enum Str {
    Tcp(TcpStream),
    Unix(UnixStream),
}

/// an accepted stream together with the peer address the call reported
struct Yield {
    s: Str,
    addr: Option<SockAddr>,
}

#[derive(Default)]
struct IncSh {
    want: std::cell::Cell<u32>,
    results: RefCell<VecDeque<io::Result<Option<Yield>>>>,
}

struct Conn {
    sock: Socket,
    local: SockAddr,
    yielded: u32,
}

pub struct World<'a> {
    drv: DriverType,
    tr: Transport,
    rt: &'a Runtime,
    lis: Lis,
    laddr: SockAddr,
    conns: Vec<Conn>,
    in_accept: Option<(bool, Option<Task<io::Result<Yield>>>)>,
    incoming: Option<(Task<()>, Rc<IncSh>)>,
    yields: u32,
    pub trace: Vec<String>,
    pub found: Vec<Found>,
    pub sig: Vec<String>,
    pub fatal: bool,
}

impl<'a> World<'a> {
    pub fn new(rt: &'a Runtime, drv: DriverType, tr: Transport) -> Result<Self, String> {
        let (lis, laddr) = match tr {
            Transport::Tcp => {
                let l = rt::drive(rt, async { TcpListener::bind("127.0.0.1:0").await }).ok_or("bind hung")?.map_err(|e| format!("TcpListener::bind: {e}"))?;
                let a = SockAddr::from(l.local_addr().map_err(|e| e.to_string())?);
                (Lis::Tcp(Rc::new(l)), a)
            }
            _ => {
                let a = peer::fresh_unix_addr();
                let a2 = a.clone();
                let l = rt::drive(rt, async move { UnixListener::bind_addr(&a2).await }).ok_or("bind hung")?.map_err(|e| format!("UnixListener::bind_addr: {e}"))?;
                (Lis::Unix(Rc::new(l)), a)
            }
        };
        Ok(Self {
            drv,
            tr,
            rt,
            lis,
            laddr,
            conns: Vec::new(),
            in_accept: None,
            incoming: None,
            yields: 0,
            trace: Vec::new(),
            found: Vec::new(),
            sig: Vec::new(),
            fatal: false,
        })
    }

    fn cfg_name(&self) -> String {
        format!("{}/{}", self.tr.name(), drv_name(self.drv))
    }

    fn viol(&mut self, oracle: &str, class: &str, what: String) {
        let key = format!("accept:{oracle}:{class}:{}", self.cfg_name());
        self.trace.push(format!("!! {oracle}: {what}"));
        self.found.push(Found { key, what });
        self.fatal = true;
    }

    fn waiting(&self) -> usize {
        self.conns.len() - self.yields as usize
    }

    pub fn enabled(&self, s: Step) -> bool {
        if self.fatal {
            return false;
        }
        match s {
            Step::PeerConnect => self.conns.len() < 4,
            Step::Accept => self.in_accept.is_none() && self.incoming.is_none(),
            Step::IncomingNext => self.in_accept.is_none(),
            Step::Harvest => self.in_accept.is_some(),
        }
    }

    pub fn apply(&mut self, s: Step) {
        self.trace.push(format!("{s:?}"));
        match s {
            Step::PeerConnect => {
                let i = self.conns.len() as u8;
                match peer::raw_connect(self.tr, &self.laddr, true) {
                    Ok(sock) => {
                        let local = sock.local_addr().unwrap_or_else(|e| vcore::machinery_error(&format!("local_addr: {e}")));
                        // the connection identifies itself
                        let id = [0x10 + i, 0x20 + i, 0x30 + i];
                        match peer::send_nb(&sock, &id) {
                            Ok(3) => {}
                            other => vcore::machinery_error(&format!("peer id send: {other:?}")),
                        }
                        if self.tr == Transport::Tcp {
                            peer::set_linger0(std::os::fd::AsRawFd::as_raw_fd(&sock));
                        }
                        self.conns.push(Conn { sock, local, yielded: 0 });
                    }
                    Err(e) => vcore::machinery_error(&format!("peer connect: {e}")),
                }
            }
            Step::Accept => {
                let t = match &self.lis {
                    Lis::Tcp(l) => {
                        let l = l.clone();
                        Task::new(async move { l.accept().await.map(|(s, a)| Yield { s: Str::Tcp(s), addr: Some(SockAddr::from(a)) }) })
                    }
                    Lis::Unix(l) => {
                        let l = l.clone();
                        Task::new(async move { l.accept().await.map(|(s, a)| Yield { s: Str::Unix(s), addr: Some(a) }) })
                    }
                };
                let mut t = t;
                t.poll_now();
                self.in_accept = Some((false, Some(t)));
                self.after_issue("accept");
            }
            Step::IncomingNext => {
                if self.incoming.is_none() {
                    let sh = Rc::new(IncSh::default());
                    let sh2 = sh.clone();
                    let task = match &self.lis {
                        Lis::Tcp(l) => {
                            let l = l.clone();
                            Task::new(async move {
                                let mut inc = l.incoming();
                                loop {
                                    wait_want(&sh2).await;
                                    let r = match inc.next().await {
                                        None => Ok(None),
                                        Some(Ok(s)) => Ok(Some(Yield { s: Str::Tcp(s), addr: None })),
                                        Some(Err(e)) => Err(e),
                                    };
                                    sh2.results.borrow_mut().push_back(r);
                                }
                            })
                        }
                        Lis::Unix(l) => {
                            let l = l.clone();
                            Task::new(async move {
                                let mut inc = l.incoming();
                                loop {
                                    wait_want(&sh2).await;
                                    let r = match inc.next().await {
                                        None => Ok(None),
                                        Some(Ok(s)) => Ok(Some(Yield { s: Str::Unix(s), addr: None })),
                                        Some(Err(e)) => Err(e),
                                    };
                                    sh2.results.borrow_mut().push_back(r);
                                }
                            })
                        }
                    };
                    self.incoming = Some((task, sh));
                }
                let (task, sh) = self.incoming.as_mut().unwrap();
                sh.want.set(sh.want.get() + 1);
                task.poll_now();
                self.in_accept = Some((true, None));
                self.after_issue("incoming");
            }
            Step::Harvest => {
                harvest(self.rt);
                self.collect(true);
            }
        }
    }

    fn after_issue(&mut self, what: &str) {
        // a queued connection must be yielded; otherwise the call stays in flight
        self.collect(false);
        if self.in_accept.is_some() && !self.fatal {
            self.sig.push(format!("{what}=pending"));
            self.trace.push("   -> pending".into());
        }
    }

    fn poll_accept(&mut self) -> Option<io::Result<Option<Yield>>> {
        let (multi, task) = self.in_accept.as_mut()?;
        if *multi {
            let (t, sh) = self.incoming.as_mut()?;
            t.poll_if_woken();
            sh.results.borrow_mut().pop_front()
        } else {
            let t = task.as_mut()?;
            if t.poll_if_woken() { t.take().map(|r| r.map(Some)) } else { None }
        }
    }

    /// take the result of the call in flight; it must be there if a connection is waiting
    fn collect(&mut self, harvested: bool) {
        if self.in_accept.is_none() || self.fatal {
            return;
        }
        let mut got = self.poll_accept();
        if got.is_none() && !harvested {
            harvest(self.rt);
            got = self.poll_accept();
        }
        if got.is_none() && self.waiting() > 0 {
            let ok = settle_until(self.rt, || {
                got = self.poll_accept();
                got.is_some()
            });
            if !ok {
                let multi = self.in_accept.as_ref().unwrap().0;
                self.viol(
                    "lost",
                    if multi { "incoming" } else { "accept" },
                    format!("{} connection(s) are established and not yet yielded, but the {} stays pending", self.waiting(), if multi { "incoming().next()" } else { "accept()" }),
                );
                return;
            }
        }
        let Some(r) = got else { return };
        let (multi, _) = self.in_accept.take().unwrap();
        let class = if multi { "incoming" } else { "accept" };
        match r {
            Err(e) => {
                self.viol("error", class, format!("{class} failed: {e}"));
            }
            Ok(None) => {
                self.viol("ended", class, "the incoming() stream ended".into());
            }
            Ok(Some(y)) => self.on_yield(y, class),
        }
    }

    fn on_yield(&mut self, y: Yield, class: &str) {
        if self.waiting() == 0 {
            self.viol("phantom", class, format!("a connection was yielded although all {} established connections had been yielded already", self.conns.len()));
            return;
        }
        self.yields += 1;
        // who is it? read the identification bytes
        let shape = (0usize, 4usize);
        let (id, back, paddr) = {
            let fut = async move {
                let paddr = match &y.s {
                    Str::Tcp(s) => s.peer_addr().ok().map(SockAddr::from),
                    Str::Unix(s) => s.peer_addr().ok(),
                };
                let BufResult(r, b) = match &y.s {
                    Str::Tcp(s) => {
                        let mut s = s;
                        s.read(GBuf::recv(shape)).await
                    }
                    Str::Unix(s) => {
                        let mut s = s;
                        s.read(GBuf::recv(shape)).await
                    }
                };
                let id = r.map(|n| b.check_filled(n));
                let BufResult(w, _) = match &y.s {
                    Str::Tcp(s) => {
                        let mut s = s;
                        s.write(GBuf::send(&[0xA1, 0xA2], 2)).await
                    }
                    Str::Unix(s) => {
                        let mut s = s;
                        s.write(GBuf::send(&[0xA1, 0xA2], 2)).await
                    }
                };
                (id, w, y.addr.or(paddr), y.s)
            };
            match rt::drive(self.rt, fut) {
                Some((id, w, a, s)) => {
                    // keep the stream open until the end of the sequence
                    HELD.with(|h| h.borrow_mut().push(s));
                    (id, w, a)
                }
                None => {
                    self.viol("hang", class, "reading the first bytes of a yielded connection did not complete".into());
                    return;
                }
            }
        };
        let id = match id {
            Ok(Ok(d)) => d,
            Ok(Err(e)) => {
                self.viol("stream-buffer", class, e);
                return;
            }
            Err(e) => {
                self.viol("stream-error", class, format!("read on a yielded connection failed: {e}"));
                return;
            }
        };
        let idx = if id.len() == 3 && id[1] == id[0] + 0x10 && id[2] == id[0] + 0x20 && id[0] >= 0x10 { (id[0] - 0x10) as usize } else { usize::MAX };
        if idx >= self.conns.len() {
            self.viol("stream-content", class, format!("the yielded connection delivered {id:02x?}, which no peer sent"));
            return;
        }
        self.trace.push(format!("   -> connection #{idx}"));
        self.sig.push(format!("{class}=yield"));
        self.conns[idx].yielded += 1;
        if self.conns[idx].yielded > 1 {
            self.viol("duplicate", class, format!("connection #{idx} was yielded twice"));
            return;
        }
        match back {
            Ok(2) => {}
            other => {
                self.viol("stream-error", class, format!("write on a yielded connection: {other:?}"));
                return;
            }
        }
        let want = &self.conns[idx].local;
        let ok = paddr.as_ref().is_some_and(|a| peer::addr_eq(a, want));
        if !ok {
            self.viol(
                "address",
                class,
                format!("peer address {} reported for connection #{idx} whose peer is {}", paddr.as_ref().map(peer::addr_str).unwrap_or_else(|| "none".into()), peer::addr_str(want)),
            );
        }
    }

    pub fn finish(&mut self) {
        if self.fatal {
            return;
        }
        self.trace.push("-- final".into());
        // everything that connected is yielded
        let mut guard = 0;
        while self.waiting() > 0 && !self.fatal {
            guard += 1;
            if guard > 16 {
                self.viol("lost", "drain", format!("{} connection(s) were never yielded", self.waiting()));
                return;
            }
            if self.in_accept.is_none() {
                self.trace.push("(drain)".into());
                self.apply(if self.incoming.is_some() { Step::IncomingNext } else { Step::Accept });
            } else {
                harvest(self.rt);
                self.collect(true);
            }
        }
        if self.fatal {
            return;
        }
        // and nothing else
        if self.in_accept.is_none() {
            self.trace.push("(probe)".into());
            self.apply(if self.incoming.is_some() { Step::IncomingNext } else { Step::Accept });
        } else {
            harvest(self.rt);
            self.collect(true);
        }
        if self.fatal {
            return;
        }
        for (i, c) in self.conns.iter().enumerate() {
            if c.yielded != 1 {
                let n = c.yielded;
                self.viol("lost", "final", format!("connection #{i} was yielded {n} times"));
                return;
            }
        }
        // every peer got the two bytes its accepted stream wrote
        for i in 0..self.conns.len() {
            let got = peer::wait_for(rt::settle_limit(), || peer::recv_nb(&self.conns[i].sock, 16).ok().flatten());
            if got.as_deref() != Some(&[0xA1, 0xA2][..]) {
                self.viol("stream-content", "final", format!("peer #{i} received {got:02x?} from its accepted stream, expected [a1, a2]"));
                return;
            }
        }
    }

    pub fn teardown(mut self) {
        self.in_accept = None;
        self.incoming = None;
        HELD.with(|h| h.borrow_mut().clear());
        let rt = self.rt;
        drop(self);
        for _ in 0..3 {
            harvest(rt);
        }
    }
}

thread_local! {
    /// yielded streams stay open until the sequence ends
    static HELD: RefCell<Vec<Str>> = const { RefCell::new(Vec::new()) };
}

async fn wait_want(sh: &IncSh) {
    std::future::poll_fn(|_| {
        if sh.want.get() > 0 {
            sh.want.set(sh.want.get() - 1);
            std::task::Poll::Ready(())
        } else {
            std::task::Poll::Pending
        }
    })
    .await
}

pub fn run_one(rt: &Runtime, ch: &mut crate::Pk, drv: DriverType, tr: Transport, depth: usize) -> crate::ExecOut {
    rt.enter(|| {
        let mut w = match World::new(rt, drv, tr) {
            Ok(w) => w,
            Err(e) => vcore::machinery_error(&format!("accept set-up failed: {e}")),
        };
        let mut names = Vec::new();
        let mut steps = 0;
        let mut skipped = false;
        while steps < depth {
            let en: Vec<Step> = ALPHABET.iter().copied().filter(|s| w.enabled(*s)).collect();
            if en.is_empty() {
                break;
            }
            let s = if steps == 0 {
                let Some(c) = ch.pick(ALPHABET.len()) else { break };
                if !w.enabled(ALPHABET[c]) {
                    skipped = true;
                    break;
                }
                ALPHABET[c]
            } else {
                let Some(c) = ch.pick(en.len() + 1) else { break };
                if c == 0 {
                    break;
                }
                en[c - 1]
            };
            names.push(format!("{s:?}"));
            w.apply(s);
            steps += 1;
            if w.fatal {
                break;
            }
        }
        if skipped {
            w.teardown();
            return crate::ExecOut { skipped: true, ..Default::default() };
        }
        w.finish();
        let o = crate::ExecOut {
            steps: names,
            trace: std::mem::take(&mut w.trace),
            found: std::mem::take(&mut w.found),
            sig: std::mem::take(&mut w.sig),
            skipped: false,
            timing: vec![],
        };
        w.teardown();
        o
    })
}
