//! Configuration A on UDP: one compio `UdpSocket` against two raw non-blocking peer sockets.
//!
//! Oracle: every datagram the compio socket receives equals the oldest datagram sent to it that
//! it has not received yet (loopback UDP keeps order and loses nothing while the receive buffer
//! has room), cut to the capacity of the buffer, with the sending peer's address, flagged
//! MSG_TRUNC where the call reports flags; every datagram a peer receives equals the one compio
//! was told it sent, from compio's address.
use std::{cell::RefCell, collections::VecDeque, io, net::SocketAddr, rc::Rc, time::Duration};

use compio_buf::{BufResult, IoBuf};
use compio_driver::DriverType;
use compio_net::UdpSocket;
use compio_runtime::Runtime;
use futures_util::StreamExt;
use socket2::{Domain, Protocol, SockAddr, Socket, Type};

use crate::{
    Found,
    bufs::{self, CBuf, GBuf, Shape, check_filled_vec, dgram_bytes, shape_class},
    peer,
    rt::{self, Task, drv_name, harvest, settle_until},
    sops::LocalFut,
    stream::{SHAPES, cut, layouts},
};

/// buffer pool of the datagram runtimes: a multishot recvmsg buffer holds a 16-byte header, the
/// 128-byte name area, the control area and the payload
pub const DPOOL_LEN: usize = 256;
pub const DPOOL_BUFS: u16 = 4;
pub const MLENS: [usize; 2] = [0, 4];
pub const SIZES: [usize; 5] = [0, 1, 3, 6, 300];
const PEER_TOS: [u32; 2] = [0x10, 0x28];
const SEND_TOS: u32 = 0x44;
/// control area asked from recv_msg_multi
const MULTI_CLEN: usize = 32;

#[derive(Clone, Copy, Debug, PartialEq, Eq)]
pub enum SKind {
    Send,
    SendV,
    Zc,
    ZcV,
    To,
    ToV,
    Msg,
    MsgV,
    ToZc,
    ToZcV,
    MsgZc,
    MsgZcV,
}

impl SKind {
    fn needs_connected(self) -> bool {
        matches!(self, SKind::Send | SKind::SendV | SKind::Zc | SKind::ZcV)
    }

    fn has_ctl(self) -> bool {
        matches!(self, SKind::Msg | SKind::MsgV | SKind::MsgZc | SKind::MsgZcV)
    }
}

#[derive(Clone, Copy, Debug, PartialEq, Eq)]
pub enum RKind {
    Recv,
    RecvV,
    Managed,
    Multi,
    From,
    FromV,
    FromManaged,
    FromMulti,
    Msg,
    MsgV,
    MsgManaged,
    MsgMulti,
}

impl RKind {
    fn is_multi(self) -> bool {
        matches!(self, RKind::Multi | RKind::FromMulti | RKind::MsgMulti)
    }

    fn has_addr(self) -> bool {
        !matches!(self, RKind::Recv | RKind::RecvV | RKind::Managed | RKind::Multi)
    }

    fn has_flags(self) -> bool {
        matches!(self, RKind::Msg | RKind::MsgV | RKind::MsgManaged | RKind::MsgMulti)
    }
}

#[derive(Clone, Debug, PartialEq, Eq)]
pub enum Step {
    Send { kind: SKind, size: usize, to: usize, lay: usize },
    /// par: SHAPES index (Recv/From/Msg), layouts() index (RecvV/FromV/MsgV), MLENS index
    /// (managed and recv_multi), unused for FromMulti / MsgMulti
    Recv { kind: RKind, par: usize },
    PeerSend { p: usize, size: usize },
}

impl Step {
    pub fn name(&self) -> String {
        match self {
            Step::Send { kind, size, to, lay } => format!("Send({kind:?},{size},to=P{to},cut{lay})"),
            Step::Recv { kind, par } => match kind {
                RKind::Recv | RKind::From | RKind::Msg => format!("Recv({kind:?},{:?})", SHAPES[*par]),
                RKind::RecvV | RKind::FromV | RKind::MsgV => format!("Recv({kind:?},{:?})", layouts()[*par]),
                RKind::Managed | RKind::Multi | RKind::FromManaged | RKind::MsgManaged => format!("Recv({kind:?},len={})", MLENS[*par]),
                RKind::FromMulti | RKind::MsgMulti => format!("Recv({kind:?})"),
            },
            Step::PeerSend { p, size } => format!("PeerSend(P{p},{size})"),
        }
    }
}

/// what a finished receive delivered
struct Got {
    /// None = the call reported "nothing" (Ok(None) / stream end)
    data: Option<Vec<u8>>,
    /// capacity the datagram was cut to
    cap: usize,
    addr: Option<Option<SockAddr>>,
    flags: Option<u32>,
    ctl: Option<Vec<u8>>,
    buf_err: Option<String>,
    err: Option<io::Error>,
}

impl Got {
    fn err(e: io::Error) -> Self {
        Got { data: None, cap: 0, addr: None, flags: None, ctl: None, buf_err: None, err: Some(e) }
    }
}

#[derive(Default)]
struct MultiSh {
    want: std::cell::Cell<u32>,
    results: RefCell<VecDeque<Got>>,
}

struct InRecv {
    kind: RKind,
    class: String,
    task: Option<Task<Got>>,
}

pub struct World<'a> {
    drv: DriverType,
    connected: bool,
    rt: &'a Runtime,
    cs: Rc<UdpSocket>,
    caddr: SocketAddr,
    peers: Vec<Socket>,
    paddr: Vec<SocketAddr>,
    /// datagrams on their way to compio: (peer, payload)
    queue: VecDeque<(usize, Vec<u8>)>,
    nsent: u64,
    in_recv: Option<InRecv>,
    multi: Option<(RKind, Task<()>, Rc<MultiSh>, usize)>,
    zc_back: Vec<(Task<Result<(), String>>, String)>,
    pub trace: Vec<String>,
    pub found: Vec<Found>,
    pub sig: Vec<String>,
    pub fatal: bool,
}

fn errclass(e: &io::Error) -> String {
    match e.raw_os_error() {
        Some(n) => format!("errno{n}"),
        None => format!("{:?}", e.kind()),
    }
}

fn must<T>(what: &str, r: io::Result<T>) -> T {
    r.unwrap_or_else(|e| vcore::machinery_error(&format!("datagram set-up failed: {what}: {e}")))
}

fn setopt_int(fd: i32, level: i32, name: i32, v: i32) {
    unsafe { libc::setsockopt(fd, level, name, &v as *const _ as *const _, 4) };
}

fn lim_of(len: usize) -> usize {
    if len == 0 { DPOOL_LEN } else { len.min(DPOOL_LEN) }
}

impl<'a> World<'a> {
    pub fn new(rt: &'a Runtime, drv: DriverType, connected: bool) -> Self {
        use std::os::fd::AsRawFd;
        let std_sock = must("bind", std::net::UdpSocket::bind("127.0.0.1:0"));
        let caddr = must("local_addr", std_sock.local_addr());
        let cs = must("from_std", UdpSocket::from_std(std_sock));
        // received datagrams carry their TOS byte as a control message
        setopt_int(cs.as_raw_fd(), libc::IPPROTO_IP, libc::IP_RECVTOS, 1);
        let mut peers = Vec::new();
        let mut paddr = Vec::new();
        for i in 0..2 {
            let s = must("socket", Socket::new(Domain::IPV4, Type::DGRAM, Some(Protocol::UDP)));
            must("bind", s.bind(&peer::loopback0()));
            must("nonblocking", s.set_nonblocking(true));
            setopt_int(s.as_raw_fd(), libc::IPPROTO_IP, libc::IP_TOS, PEER_TOS[i] as i32);
            setopt_int(s.as_raw_fd(), libc::IPPROTO_IP, libc::IP_RECVTOS, 1);
            paddr.push(must("local_addr", s.local_addr()).as_socket().unwrap());
            peers.push(s);
        }
        let cs = Rc::new(cs);
        if connected {
            let c2 = cs.clone();
            let a = paddr[0];
            match rt::drive(rt, async move { c2.connect(a).await }) {
                Some(Ok(())) => {}
                other => vcore::machinery_error(&format!("UdpSocket::connect failed: {other:?}")),
            }
        }
        Self {
            drv,
            connected,
            rt,
            cs,
            caddr,
            peers,
            paddr,
            queue: VecDeque::new(),
            nsent: 0,
            in_recv: None,
            multi: None,
            zc_back: Vec::new(),
            trace: Vec::new(),
            found: Vec::new(),
            sig: Vec::new(),
            fatal: false,
        }
    }

    fn cfg_name(&self) -> String {
        format!("udp{}/{}", if self.connected { "-connected" } else { "" }, drv_name(self.drv))
    }

    fn viol(&mut self, oracle: &str, class: &str, what: String) {
        let key = format!("dgram-A:{oracle}:{class}:{}", self.cfg_name());
        self.trace.push(format!("!! {oracle}: {what}"));
        self.found.push(Found { key, what });
        self.fatal = true;
    }

    pub fn enabled(&self, s: &Step) -> bool {
        if self.fatal {
            return false;
        }
        match s {
            Step::Send { kind, to, .. } => (!kind.needs_connected() || self.connected) && (!self.connected || *to == 0),
            Step::Recv { kind, .. } => self.in_recv.is_none() && self.multi.as_ref().is_none_or(|m| m.0 == *kind),
            Step::PeerSend { p, .. } => !self.connected || *p == 0,
        }
    }

    pub fn apply(&mut self, s: &Step) {
        self.trace.push(s.name());
        match s {
            Step::Send { kind, size, to, lay } => self.do_send(*kind, *size, *to, *lay),
            Step::Recv { kind, par } => self.do_recv(*kind, *par),
            Step::PeerSend { p, size } => self.do_peer_send(*p, *size),
        }
    }

    // ------------------------------------------------------------------------------------
    // compio sends one datagram; the destination peer must receive exactly it
    // ------------------------------------------------------------------------------------

    fn do_send(&mut self, kind: SKind, size: usize, to: usize, lay: usize) {
        let data = dgram_bytes(1000 + self.nsent, size);
        self.nsent += 1;
        let class = format!("send={kind:?}[{}]", if size == 0 { "empty" } else { "data" });
        let cs = self.cs.clone();
        let dest = self.paddr[to];
        let parts = cut(&data, lay);
        let mk1 = || GBuf::send(&data, 3);
        let mkv = || -> Vec<GBuf> { parts.iter().map(|p| GBuf::send(p, 2)).collect() };
        let d2 = data.clone();
        let p2 = parts.clone();
        let chk1 = move |b: &GBuf| b.check_unchanged(&d2);
        let chkv = move |bufs: &[GBuf]| -> Result<(), String> {
            if bufs.len() != p2.len() {
                return Err("vectored send buffer came back with a different member count".into());
            }
            for (b, p) in bufs.iter().zip(&p2) {
                b.check_unchanged(p)?;
            }
            Ok(())
        };
        let ctl = || CBuf::filled(&bufs::cmsg_u32(libc::IPPROTO_IP, libc::IP_TOS, SEND_TOS));
        type Out = (io::Result<usize>, Result<(), String>, Option<Task<Result<(), String>>>);
        let (b1, bv, c) = (mk1(), mkv(), ctl());
        let fut: LocalFut<Out> = match kind {
            SKind::Send => Box::pin(async move {
                let BufResult(r, b) = cs.send(b1).await;
                (r, chk1(&b), None)
            }),
            SKind::SendV => Box::pin(async move {
                let BufResult(r, b) = cs.send_vectored(bv).await;
                (r, chkv(&b), None)
            }),
            SKind::To => Box::pin(async move {
                let BufResult(r, b) = cs.send_to(b1, dest).await;
                (r, chk1(&b), None)
            }),
            SKind::ToV => Box::pin(async move {
                let BufResult(r, b) = cs.send_to_vectored(bv, dest).await;
                (r, chkv(&b), None)
            }),
            SKind::Msg => Box::pin(async move {
                let BufResult(r, (b, _c)) = cs.send_msg(b1, c, dest).await;
                (r, chk1(&b), None)
            }),
            SKind::MsgV => Box::pin(async move {
                let BufResult(r, (b, _c)) = cs.send_msg_vectored(bv, c, dest).await;
                (r, chkv(&b), None)
            }),
            SKind::Zc => Box::pin(async move {
                let BufResult(r, back) = cs.send_zerocopy(b1).await;
                (r, Ok(()), Some(Task::new(async move { chk1(&back.await) })))
            }),
            SKind::ZcV => Box::pin(async move {
                let BufResult(r, back) = cs.send_zerocopy_vectored(bv).await;
                (r, Ok(()), Some(Task::new(async move { chkv(&back.await) })))
            }),
            SKind::ToZc => Box::pin(async move {
                let BufResult(r, back) = cs.send_to_zerocopy(b1, dest).await;
                (r, Ok(()), Some(Task::new(async move { chk1(&back.await) })))
            }),
            SKind::ToZcV => Box::pin(async move {
                let BufResult(r, back) = cs.send_to_zerocopy_vectored(bv, dest).await;
                (r, Ok(()), Some(Task::new(async move { chkv(&back.await) })))
            }),
            SKind::MsgZc => Box::pin(async move {
                let BufResult(r, back) = cs.send_msg_zerocopy(b1, c, dest).await;
                (r, Ok(()), Some(Task::new(async move { chk1(&back.await.0) })))
            }),
            SKind::MsgZcV => Box::pin(async move {
                let BufResult(r, back) = cs.send_msg_zerocopy_vectored(bv, c, dest).await;
                (r, Ok(()), Some(Task::new(async move { chkv(&back.await.0) })))
            }),
        };
        let mut t = Task::new(fut);
        // a datagram send never has to wait for the peer
        if !settle_until(self.rt, || t.poll_if_woken()) {
            self.viol("hang", &class, "a datagram send did not complete".into());
            return;
        }
        let (res, bufchk, back) = t.take().unwrap();
        if let Err(e) = bufchk {
            self.viol("send-buffer", &class, e);
            return;
        }
        if let Some(b) = back {
            self.zc_back.push((b, class.clone()));
        }
        let told = match res {
            Ok(n) => {
                self.trace.push(format!("   -> Ok({n})"));
                if n != size {
                    self.viol("send-count", &class, format!("datagram of {size} bytes, send reported {n}"));
                    return;
                }
                self.sig.push(format!("{class}=ok"));
                true
            }
            Err(e) => {
                self.trace.push(format!("   -> Err({e})"));
                self.sig.push(format!("{class}={}", errclass(&e)));
                false
            }
        };
        // the peer's view
        let got = if told {
            peer::wait_for(rt::settle_limit(), || peer::recvmsg_nb(&self.peers[to], 2048, true).ok().flatten())
        } else {
            peer::recvmsg_nb(&self.peers[to], 2048, true).ok().flatten()
        };
        match (told, got) {
            (true, None) => self.viol("sent-lost", &class, format!("the sender was told the {size}-byte datagram was sent, the peer never receives it")),
            (false, Some(d)) => self.viol("sent-extra", &class, format!("the send failed but the peer received a datagram of {} bytes", d.real_len)),
            (false, None) => {}
            (true, Some(d)) => {
                if d.real_len != size || d.data != data {
                    self.viol(
                        "sent-content",
                        &class,
                        format!("the peer received {} bytes {:02x?}…, sent were {size} bytes {:02x?}…", d.real_len, &d.data[..d.data.len().min(12)], &data[..data.len().min(12)]),
                    );
                    return;
                }
                let from = d.from.as_ref().and_then(|a| a.as_socket());
                if from != Some(self.caddr) {
                    self.viol("sent-source", &class, format!("the peer sees source {from:?}, the compio socket is bound to {}", self.caddr));
                    return;
                }
                // the TOS byte travels as ancillary data of send_msg
                let tos = bufs::parse_cmsg(&d.control).filter(|(l, t, _)| *l == libc::IPPROTO_IP && *t == libc::IP_TOS).map(|x| x.2 & 0xff);
                let want = if kind.has_ctl() { SEND_TOS } else { 0 };
                if tos != Some(want) {
                    self.viol("sent-control", &class, format!("the peer sees TOS {tos:?}, expected {want:#x} (ancillary data of the send)"));
                    return;
                }
                // nothing else arrives
                if let Ok(Some(x)) = peer::recvmsg_nb(&self.peers[to], 2048, true) {
                    self.viol("sent-extra", &class, format!("a second datagram ({} bytes) arrived for one send", x.real_len));
                }
            }
        }
        self.settle();
    }

    fn do_peer_send(&mut self, p: usize, size: usize) {
        let data = dgram_bytes(self.nsent, size);
        self.nsent += 1;
        let to = SockAddr::from(self.caddr);
        match self.peers[p].send_to(&data, &to) {
            Ok(n) if n == size => self.queue.push_back((p, data)),
            other => vcore::machinery_error(&format!("peer send_to: {other:?}")),
        }
        self.settle();
    }

    // ------------------------------------------------------------------------------------
    // compio receives
    // ------------------------------------------------------------------------------------

    fn do_recv(&mut self, kind: RKind, par: usize) {
        let cs = self.cs.clone();
        let one = |r: io::Result<usize>, b: GBuf, shape: Shape| -> Got {
            match r {
                Ok(n) => match b.check_filled(n) {
                    Ok(d) => Got { data: Some(d), cap: shape.1, addr: None, flags: None, ctl: None, buf_err: None, err: None },
                    Err(e) => Got { data: None, cap: shape.1, addr: None, flags: None, ctl: None, buf_err: Some(e), err: None },
                },
                Err(e) => Got { buf_err: b.check_filled(0).err().map(|x| format!("after an error: {x}")), ..Got::err(e) },
            }
        };
        let vecd = |r: io::Result<usize>, b: Vec<GBuf>, lay: &[Shape]| -> Got {
            let cap: usize = lay.iter().map(|s| s.1).sum();
            match r {
                Ok(n) => match check_filled_vec(&b, n) {
                    Ok(d) => Got { data: Some(d), cap, addr: None, flags: None, ctl: None, buf_err: None, err: None },
                    Err(e) => Got { data: None, cap, addr: None, flags: None, ctl: None, buf_err: Some(e), err: None },
                },
                Err(e) => Got { buf_err: check_filled_vec(&b, 0).err().map(|x| format!("after an error: {x}")), ..Got::err(e) },
            }
        };
        let mkv = |lay: &[Shape]| -> Vec<GBuf> { lay.iter().map(|s| GBuf::recv(*s)).collect() };
        let (class, task): (String, Option<Task<Got>>) = match kind {
            RKind::Recv => {
                let shape = SHAPES[par];
                let t = Task::new(async move {
                    let BufResult(r, b) = cs.recv(GBuf::recv(shape)).await;
                    one(r, b, shape)
                });
                (format!("recv=Recv[{}]", shape_class(&[shape])), Some(t))
            }
            RKind::RecvV => {
                let lay = layouts()[par].clone();
                let c = format!("recv=RecvV[{}x{}]", lay.len(), shape_class(&lay));
                let t = Task::new(async move {
                    let BufResult(r, b) = cs.recv_vectored(mkv(&lay)).await;
                    vecd(r, b, &lay)
                });
                (c, Some(t))
            }
            RKind::Managed => {
                let len = MLENS[par];
                let t = Task::new(async move {
                    match cs.recv_managed(len).await {
                        Ok(Some(b)) => Got { data: Some(b.as_init().to_vec()), cap: lim_of(len), addr: None, flags: None, ctl: None, buf_err: None, err: None },
                        Ok(None) => Got { data: None, cap: lim_of(len), addr: None, flags: None, ctl: None, buf_err: None, err: None },
                        Err(e) => Got::err(e),
                    }
                });
                (format!("recv=Managed[len{len}]"), Some(t))
            }
            RKind::From => {
                let shape = SHAPES[par];
                let t = Task::new(async move {
                    let BufResult(r, b) = cs.recv_from(GBuf::recv(shape)).await;
                    match r {
                        Ok((n, a)) => Got { addr: Some(Some(SockAddr::from(a))), ..one(Ok(n), b, shape) },
                        Err(e) => one(Err(e), b, shape),
                    }
                });
                (format!("recv=From[{}]", shape_class(&[shape])), Some(t))
            }
            RKind::FromV => {
                let lay = layouts()[par].clone();
                let c = format!("recv=FromV[{}x{}]", lay.len(), shape_class(&lay));
                let t = Task::new(async move {
                    let BufResult(r, b) = cs.recv_from_vectored(mkv(&lay)).await;
                    match r {
                        Ok((n, a)) => Got { addr: Some(Some(SockAddr::from(a))), ..vecd(Ok(n), b, &lay) },
                        Err(e) => vecd(Err(e), b, &lay),
                    }
                });
                (c, Some(t))
            }
            RKind::FromManaged => {
                let len = MLENS[par];
                let t = Task::new(async move {
                    match cs.recv_from_managed(len).await {
                        Ok(Some((b, a))) => Got { data: Some(b.as_init().to_vec()), cap: lim_of(len), addr: Some(Some(SockAddr::from(a))), flags: None, ctl: None, buf_err: None, err: None },
                        Ok(None) => Got { data: None, cap: lim_of(len), addr: Some(None), flags: None, ctl: None, buf_err: None, err: None },
                        Err(e) => Got::err(e),
                    }
                });
                (format!("recv=FromManaged[len{len}]"), Some(t))
            }
            RKind::Msg => {
                let shape = SHAPES[par];
                let t = Task::new(async move {
                    let BufResult(r, (b, c)) = cs.recv_msg(GBuf::recv(shape), CBuf::empty(64)).await;
                    match r {
                        Ok((n, cl, a, f)) => {
                            let mut g = one(Ok(n), b, shape);
                            g.addr = Some(Some(SockAddr::from(a)));
                            g.flags = Some(f.bits());
                            g.ctl = Some(c.bytes().to_vec());
                            if cl != c.bytes().len() {
                                g.buf_err = Some(format!("control length {cl} reported, control buffer length is {}", c.bytes().len()));
                            }
                            g
                        }
                        Err(e) => one(Err(e), b, shape),
                    }
                });
                (format!("recv=Msg[{}]", shape_class(&[shape])), Some(t))
            }
            RKind::MsgV => {
                let lay = layouts()[par].clone();
                let c = format!("recv=MsgV[{}x{}]", lay.len(), shape_class(&lay));
                let t = Task::new(async move {
                    let BufResult(r, (b, c)) = cs.recv_msg_vectored(mkv(&lay), CBuf::empty(64)).await;
                    match r {
                        Ok((n, cl, a, f)) => {
                            let mut g = vecd(Ok(n), b, &lay);
                            g.addr = Some(Some(SockAddr::from(a)));
                            g.flags = Some(f.bits());
                            g.ctl = Some(c.bytes().to_vec());
                            if cl != c.bytes().len() {
                                g.buf_err = Some(format!("control length {cl} reported, control buffer length is {}", c.bytes().len()));
                            }
                            g
                        }
                        Err(e) => vecd(Err(e), b, &lay),
                    }
                });
                (c, Some(t))
            }
            RKind::MsgManaged => {
                let len = MLENS[par];
                let t = Task::new(async move {
                    match cs.recv_msg_managed(len, CBuf::empty(64)).await {
                        Ok(Some((b, c, a, f))) => Got {
                            data: Some(b.as_init().to_vec()),
                            cap: lim_of(len),
                            addr: Some(Some(SockAddr::from(a))),
                            flags: Some(f.bits()),
                            ctl: Some(c.bytes().to_vec()),
                            buf_err: None,
                            err: None,
                        },
                        Ok(None) => Got { data: None, cap: lim_of(len), addr: Some(None), flags: None, ctl: None, buf_err: None, err: None },
                        Err(e) => Got::err(e),
                    }
                });
                (format!("recv=MsgManaged[len{len}]"), Some(t))
            }
            RKind::Multi | RKind::FromMulti | RKind::MsgMulti => {
                if self.multi.is_none() {
                    let sh = Rc::new(MultiSh::default());
                    let len = if kind == RKind::Multi { MLENS[par] } else { 0 };
                    let task = Task::new(multi_task(cs, kind, len, sh.clone()));
                    self.multi = Some((kind, task, sh, len));
                }
                let m = self.multi.as_mut().unwrap();
                m.2.want.set(m.2.want.get() + 1);
                m.1.poll_now();
                (format!("recv={kind:?}{}", if kind == RKind::Multi { format!("[len{}]", m.3) } else { String::new() }), None)
            }
        };
        let mut task = task;
        if let Some(t) = task.as_mut() {
            t.poll_now();
        }
        self.in_recv = Some(InRecv { kind, class, task });
        self.settle();
        if self.in_recv.is_some() && !self.fatal {
            let class = self.in_recv.as_ref().unwrap().class.clone();
            self.sig.push(format!("{class}=pending"));
            self.trace.push("   -> pending".into());
        }
    }

    fn poll_recv(&mut self) -> Option<Got> {
        let ir = self.in_recv.as_mut()?;
        if ir.kind.is_multi() {
            let m = self.multi.as_mut()?;
            m.1.poll_if_woken();
            m.2.results.borrow_mut().pop_front()
        } else {
            let t = ir.task.as_mut()?;
            if t.poll_if_woken() { t.take() } else { None }
        }
    }

    fn settle(&mut self) {
        if self.fatal || self.in_recv.is_none() {
            return;
        }
        harvest(self.rt);
        let expected = !self.queue.is_empty();
        let mut got = self.poll_recv();
        if got.is_none() && expected {
            let start = std::time::Instant::now();
            let mut n = 0u32;
            while got.is_none() && start.elapsed() < rt::settle_limit() {
                harvest(self.rt);
                got = self.poll_recv();
                n += 1;
                if got.is_none() && n > 3 {
                    std::thread::sleep(Duration::from_micros(if n < 40 { 50 } else { 1000 }));
                }
            }
            if got.is_none() {
                let class = self.in_recv.as_ref().unwrap().class.clone();
                self.viol("hang", &class, format!("a receive stays pending although {} datagram(s) are queued", self.queue.len()));
                return;
            }
        }
        if let Some(g) = got {
            self.on_recv_done(g);
        }
    }

    fn on_recv_done(&mut self, g: Got) {
        let ir = self.in_recv.take().unwrap();
        let class = ir.class;
        let kind = ir.kind;
        if let Some(e) = g.buf_err {
            self.viol("recv-buffer", &class, e);
            return;
        }
        if let Some(e) = g.err {
            self.trace.push(format!("   -> Err({e})"));
            self.sig.push(format!("{class}={}", errclass(&e)));
            return;
        }
        let Some((p, sent)) = self.queue.pop_front() else {
            self.viol("recv-phantom", &class, format!("a receive completed ({:?} bytes) although no datagram was outstanding", g.data.as_ref().map(|d| d.len())));
            return;
        };
        let want_n = sent.len().min(g.cap);
        let trunc = sent.len() > g.cap;
        let tclass = format!("{class}{}", if trunc { "+cut" } else if sent.is_empty() { "+empty" } else { "" });
        match &g.data {
            None => {
                // Ok(None) / stream end: the documented answer to "the kernel returned 0"
                if want_n != 0 {
                    self.viol("recv-content", &tclass, format!("nothing was delivered for a datagram of {} bytes (capacity {})", sent.len(), g.cap));
                    return;
                }
                self.trace.push("   -> nothing (zero-length datagram)".into());
                self.sig.push(format!("{tclass}=none"));
                if kind.has_addr() {
                    self.viol(
                        "zero-length-datagram-without-source",
                        &class,
                        format!("a zero-length datagram from P{p} was consumed and reported as Ok(None): its source address is lost"),
                    );
                }
                return;
            }
            Some(d) => {
                self.trace.push(format!("   -> {} bytes", d.len()));
                if d.len() != want_n || d[..] != sent[..want_n] {
                    self.viol(
                        "recv-content",
                        &tclass,
                        format!("received {} bytes {:02x?}…, expected the first {want_n} of the {}-byte datagram {:02x?}… (capacity {})", d.len(), &d[..d.len().min(12)], sent.len(), &sent[..sent.len().min(12)], g.cap),
                    );
                    return;
                }
            }
        }
        if kind.has_addr() {
            let a = g.addr.clone().flatten().and_then(|a| a.as_socket());
            if a != Some(self.paddr[p]) {
                self.viol("recv-source", &tclass, format!("source address {a:?} reported, the datagram came from P{p} = {}", self.paddr[p]));
                return;
            }
        }
        if kind.has_flags() {
            let f = g.flags.unwrap_or(0);
            let flagged = f & libc::MSG_TRUNC as u32 != 0;
            if flagged != trunc {
                self.viol(
                    "recv-flags",
                    &tclass,
                    format!("flags {f:#x}: MSG_TRUNC {} although the {}-byte datagram {} the capacity {}", if flagged { "set" } else { "not set" }, sent.len(), if trunc { "exceeds" } else { "fits" }, g.cap),
                );
                return;
            }
            let tos = g.ctl.as_deref().and_then(bufs::parse_cmsg).filter(|(l, t, _)| *l == libc::IPPROTO_IP && *t == libc::IP_TOS).map(|x| x.2 & 0xff);
            if tos != Some(PEER_TOS[p]) {
                self.viol("recv-control", &tclass, format!("control data {:02x?}: TOS {tos:?}, the peer sent with TOS {:#x}", g.ctl, PEER_TOS[p]));
                return;
            }
        }
        self.sig.push(format!("{tclass}=ok"));
    }

    pub fn finish(&mut self) {
        if self.fatal {
            return;
        }
        self.trace.push("-- final".into());
        // zero-copy buffers come back
        let mut backs = std::mem::take(&mut self.zc_back);
        for (t, class) in backs.iter_mut() {
            if !settle_until(self.rt, || t.poll_if_woken()) {
                self.viol("hang", class, "the buffer of a zero-copy send never came back".into());
                return;
            }
            if let Some(Err(e)) = t.take() {
                self.viol("send-buffer", class, e);
                return;
            }
        }
        // every queued datagram is received exactly once, then nothing
        let mut guard = 0;
        while !self.queue.is_empty() && !self.fatal {
            guard += 1;
            if guard > 64 {
                self.viol("recv-lost", "drain", format!("{} datagram(s) could not be received", self.queue.len()));
                return;
            }
            if self.in_recv.is_none() {
                self.drain_recv();
            } else {
                self.settle();
            }
        }
        if self.fatal {
            return;
        }
        if self.in_recv.is_none() {
            self.drain_recv();
        }
        // (a completion without an outstanding datagram is reported by on_recv_done)
    }

    fn drain_recv(&mut self) {
        self.trace.push("(drain)".into());
        match self.multi.as_ref().map(|m| m.0) {
            Some(k) => self.do_recv(k, 0),
            None => {
                let cs = self.cs.clone();
                let shape = (0usize, 512usize);
                let t = Task::new(async move {
                    let BufResult(r, b) = cs.recv_from(GBuf::recv(shape)).await;
                    match r {
                        Ok((n, a)) => match b.check_filled(n) {
                            Ok(d) => Got { data: Some(d), cap: 512, addr: Some(Some(SockAddr::from(a))), flags: None, ctl: None, buf_err: None, err: None },
                            Err(e) => Got { data: None, cap: 512, addr: None, flags: None, ctl: None, buf_err: Some(e), err: None },
                        },
                        Err(e) => Got::err(e),
                    }
                });
                let mut t = t;
                t.poll_now();
                self.in_recv = Some(InRecv { kind: RKind::From, class: "recv=From[drain]".into(), task: Some(t) });
                self.settle();
            }
        }
    }

    pub fn teardown(mut self) {
        self.in_recv = None;
        self.multi = None;
        self.zc_back.clear();
        let rt = self.rt;
        drop(self);
        for _ in 0..3 {
            harvest(rt);
        }
    }
}

async fn multi_task(cs: Rc<UdpSocket>, kind: RKind, len: usize, sh: Rc<MultiSh>) {
    let wait = || {
        std::future::poll_fn(|_| {
            if sh.want.get() > 0 {
                sh.want.set(sh.want.get() - 1);
                std::task::Poll::Ready(())
            } else {
                std::task::Poll::Pending
            }
        })
    };
    match kind {
        RKind::Multi => {
            let mut st = std::pin::pin!(cs.recv_multi(len));
            loop {
                wait().await;
                let g = match st.next().await {
                    None => Got { data: None, cap: lim_of(len), addr: None, flags: None, ctl: None, buf_err: None, err: None },
                    Some(Ok(b)) => Got { data: Some(b.as_init().to_vec()), cap: lim_of(len), addr: None, flags: None, ctl: None, buf_err: None, err: None },
                    Some(Err(e)) => Got::err(e),
                };
                sh.results.borrow_mut().push_back(g);
            }
        }
        RKind::FromMulti => {
            let mut st = std::pin::pin!(cs.recv_from_multi());
            loop {
                wait().await;
                let g = match st.next().await {
                    None => Got { data: None, cap: payload_cap(0, cs_is_uring()), addr: Some(None), flags: None, ctl: None, buf_err: None, err: None },
                    Some(Ok(r)) => Got { data: Some(r.data().to_vec()), cap: payload_cap(0, cs_is_uring()), addr: Some(r.addr()), flags: None, ctl: None, buf_err: None, err: None },
                    Some(Err(e)) => Got::err(e),
                };
                sh.results.borrow_mut().push_back(g);
            }
        }
        _ => {
            let mut st = std::pin::pin!(cs.recv_msg_multi(MULTI_CLEN));
            loop {
                wait().await;
                let g = match st.next().await {
                    None => Got { data: None, cap: payload_cap(MULTI_CLEN, cs_is_uring()), addr: Some(None), flags: None, ctl: None, buf_err: None, err: None },
                    Some(Ok(r)) => Got {
                        data: Some(r.data().to_vec()),
                        cap: payload_cap(MULTI_CLEN, cs_is_uring()),
                        addr: Some(r.addr()),
                        flags: Some(r.flags().bits()),
                        ctl: Some(r.ancillary().to_vec()),
                        buf_err: None,
                        err: None,
                    },
                    Some(Err(e)) => Got::err(e),
                };
                sh.results.borrow_mut().push_back(g);
            }
        }
    }
}

fn cs_is_uring() -> bool {
    Runtime::with_current(|r| r.driver_type() == DriverType::IoUring)
}

/// payload capacity of one multishot recvmsg buffer: on io_uring the pool buffer also holds the
/// kernel's header, the name area and the control area; the polling driver receives into a whole
/// pool buffer (and a second one for the control data)
fn payload_cap(clen: usize, uring: bool) -> usize {
    if uring { DPOOL_LEN - 16 - std::mem::size_of::<libc::sockaddr_storage>() - clen } else { DPOOL_LEN }
}

/// One execution.
pub fn run_one(rt: &Runtime, ch: &mut crate::Pk, drv: DriverType, connected: bool, alphabet: &[Step], depth: usize) -> crate::ExecOut {
    rt.enter(|| {
        let mut w = World::new(rt, drv, connected);
        let mut steps = 0usize;
        let mut names = Vec::new();
        let mut skipped = false;
        while steps < depth {
            let en: Vec<&Step> = alphabet.iter().filter(|s| w.enabled(s)).collect();
            if en.is_empty() {
                break;
            }
            // first pick: whole alphabet (static size, used for work splitting); later: enabled
            // steps, choice 0 = stop
            let s = if steps == 0 {
                let Some(c) = ch.pick(alphabet.len()) else { break };
                let s = &alphabet[c];
                if !w.enabled(s) {
                    skipped = true;
                    break;
                }
                s.clone()
            } else {
                let Some(c) = ch.pick(en.len() + 1) else { break };
                if c == 0 {
                    break;
                }
                en[c - 1].clone()
            };
            names.push(s.name());
            w.apply(&s);
            steps += 1;
            if w.fatal {
                break;
            }
        }
        if skipped {
            w.teardown();
            return crate::ExecOut { skipped: true, ..Default::default() };
        }
        w.finish();
        let o = crate::ExecOut {
            steps: names,
            trace: std::mem::take(&mut w.trace),
            found: std::mem::take(&mut w.found),
            sig: std::mem::take(&mut w.sig),
            skipped: false,
            timing: vec![],
        };
        w.teardown();
        o
    })
}

pub fn alphabet(layer: &str) -> Vec<Step> {
    use RKind::*;
    let r = |kind: RKind, par: usize| Step::Recv { kind, par };
    let ps = |p: usize, size: usize| Step::PeerSend { p, size };
    let sd = |kind: SKind, size: usize, to: usize, lay: usize| Step::Send { kind, size, to, lay };
    match layer {
        // every receive flavour mixed on one socket; datagrams that fit, are cut, come from two peers
        "recv-deep" => vec![
            r(Recv, 0),
            r(RecvV, 3),
            r(Managed, 0),
            r(Multi, 0),
            r(From, 0),
            r(FromV, 2),
            r(FromManaged, 1),
            r(FromMulti, 0),
            r(Msg, 0),
            r(MsgV, 3),
            r(MsgManaged, 1),
            r(MsgMulti, 0),
            ps(0, 3),
            ps(1, 6),
        ],
        // every receive flavour x every buffer shape x every datagram size
        "recv-cross" => {
            let mut v = Vec::new();
            for p in 0..SHAPES.len() {
                v.push(r(Recv, p));
                v.push(r(From, p));
                v.push(r(Msg, p));
            }
            for p in 0..layouts().len() {
                v.push(r(RecvV, p));
                v.push(r(FromV, p));
                v.push(r(MsgV, p));
            }
            for p in 0..MLENS.len() {
                v.push(r(Managed, p));
                v.push(r(Multi, p));
                v.push(r(FromManaged, p));
                v.push(r(MsgManaged, p));
            }
            v.push(r(FromMulti, 0));
            v.push(r(MsgMulti, 0));
            for s in SIZES {
                v.push(ps(0, s));
            }
            v.push(ps(1, 3));
            v
        }
        // every send flavour that takes an address x sizes x vectored cuts, to both peers
        "send" => {
            let mut v = Vec::new();
            for size in [0usize, 1, 3, 6] {
                for k in [SKind::To, SKind::Msg, SKind::ToZc, SKind::MsgZc] {
                    v.push(sd(k, size, 0, 0));
                }
                for k in [SKind::ToV, SKind::MsgV, SKind::ToZcV, SKind::MsgZcV] {
                    v.push(sd(k, size, 0, if size <= 1 { 1 } else { 3 }));
                }
            }
            for k in [SKind::To, SKind::MsgV, SKind::ToZc, SKind::MsgZcV] {
                v.push(sd(k, 3, 1, 2));
            }
            v
        }
        // connected socket: send / recv without addresses, mixed with the addressed flavours
        "connected" => {
            let mut v = Vec::new();
            for size in [0usize, 3] {
                for k in [SKind::Send, SKind::Zc] {
                    v.push(sd(k, size, 0, 0));
                }
                for k in [SKind::SendV, SKind::ZcV] {
                    v.push(sd(k, size, 0, if size <= 1 { 1 } else { 3 }));
                }
            }
            v.push(sd(SKind::To, 3, 0, 0));
            v.push(sd(SKind::Msg, 3, 0, 0));
            v.push(r(Recv, 0));
            v.push(r(From, 1));
            v.push(r(Msg, 0));
            v.push(r(Multi, 0));
            v.push(ps(0, 3));
            v.push(ps(0, 6));
            v
        }
        _ => unreachable!(),
    }
}
