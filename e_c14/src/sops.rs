//! compio-net stream operations as 'static futures over a shared stream handle, for both stream
//! types.  `half == true` routes read / read_vectored / write / write_vectored / shutdown through
//! the borrowed halves of `split()`.
use std::{cell::RefCell, collections::VecDeque, future::Future, io, pin::Pin, rc::Rc};

use compio_buf::{BufResult, IoBuf};
use compio_io::{
    AsyncRead, AsyncReadManaged, AsyncReadMulti, AsyncWrite, AsyncWriteZerocopy,
    ancillary::{AsyncReadAncillary, AsyncWriteAncillary},
};
use compio_net::{TcpStream, UnixStream};
use futures_util::StreamExt;

use crate::bufs::{CBuf, GBuf};

pub type LocalFut<T> = Pin<Box<dyn Future<Output = T>>>;

/// commands / results of a long-lived multishot receive stream
#[derive(Default)]
pub struct MultiShared {
    /// number of `next()` calls requested and not yet started
    pub want: std::cell::Cell<u32>,
    /// results of finished `next()` calls: Some(bytes) / None = stream ended
    pub results: RefCell<VecDeque<io::Result<Option<Vec<u8>>>>>,
}

pub struct ZcOut<B> {
    pub res: io::Result<usize>,
    pub back: LocalFut<B>,
}

macro_rules! stream_ops {
    ($m:ident, $S:ty) => {
        pub mod $m {
            use super::*;

            pub async fn read(s: Rc<$S>, half: bool, buf: GBuf) -> BufResult<usize, GBuf> {
                if half {
                    let (mut r, _w) = s.split();
                    r.read(buf).await
                } else {
                    let mut r = &*s;
                    r.read(buf).await
                }
            }

            pub async fn readv(s: Rc<$S>, half: bool, bufs: Vec<GBuf>) -> BufResult<usize, Vec<GBuf>> {
                if half {
                    let (mut r, _w) = s.split();
                    r.read_vectored(bufs).await
                } else {
                    let mut r = &*s;
                    r.read_vectored(bufs).await
                }
            }

            pub async fn managed(s: Rc<$S>, len: usize) -> io::Result<Option<Vec<u8>>> {
                let mut r = &*s;
                let b = r.read_managed(len).await?;
                Ok(b.map(|b| b.as_init().to_vec()))
            }

            pub async fn multi(s: Rc<$S>, len: usize, sh: Rc<MultiShared>) {
                let mut r = &*s;
                let st = r.read_multi(len);
                let mut st = std::pin::pin!(st);
                loop {
                    // wait for the harness to ask for the next item (it polls us when it does)
                    std::future::poll_fn(|_| {
                        if sh.want.get() > 0 {
                            sh.want.set(sh.want.get() - 1);
                            std::task::Poll::Ready(())
                        } else {
                            std::task::Poll::Pending
                        }
                    })
                    .await;
                    let item = st.next().await;
                    let item = match item {
                        None => Ok(None),
                        Some(Ok(b)) => Ok(Some(b.as_init().to_vec())),
                        Some(Err(e)) => Err(e),
                    };
                    sh.results.borrow_mut().push_back(item);
                }
            }

            /// the whole multishot stream, item by item, until `f` says stop or the stream ends
            pub async fn multi_each(s: Rc<$S>, len: usize, mut f: Box<dyn FnMut(io::Result<Option<Vec<u8>>>) -> bool>) {
                let mut r = &*s;
                let st = r.read_multi(len);
                let mut st = std::pin::pin!(st);
                loop {
                    let item = match st.next().await {
                        None => Ok(None),
                        Some(Ok(b)) => Ok(Some(b.as_init().to_vec())),
                        Some(Err(e)) => Err(e),
                    };
                    let end = matches!(item, Ok(None));
                    if !f(item) || end {
                        break;
                    }
                }
            }

            pub async fn ranc(
                s: Rc<$S>,
                buf: GBuf,
                ctl: CBuf,
            ) -> BufResult<(usize, usize, u32), (GBuf, CBuf)> {
                let mut r = &*s;
                r.read_with_ancillary(buf, ctl).await.map_res(|(n, c, f)| (n, c, f.bits()))
            }

            pub async fn rancv(
                s: Rc<$S>,
                bufs: Vec<GBuf>,
                ctl: CBuf,
            ) -> BufResult<(usize, usize, u32), (Vec<GBuf>, CBuf)> {
                let mut r = &*s;
                r.read_vectored_with_ancillary(bufs, ctl).await.map_res(|(n, c, f)| (n, c, f.bits()))
            }

            pub async fn write(s: Rc<$S>, half: bool, buf: GBuf) -> BufResult<usize, GBuf> {
                if half {
                    let (_r, mut w) = s.split();
                    w.write(buf).await
                } else {
                    let mut w = &*s;
                    w.write(buf).await
                }
            }

            pub async fn writev(s: Rc<$S>, half: bool, bufs: Vec<GBuf>) -> BufResult<usize, Vec<GBuf>> {
                if half {
                    let (_r, mut w) = s.split();
                    w.write_vectored(bufs).await
                } else {
                    let mut w = &*s;
                    w.write_vectored(bufs).await
                }
            }

            pub async fn zc(s: Rc<$S>, buf: GBuf) -> ZcOut<GBuf> {
                let mut w = &*s;
                let BufResult(res, back) = w.write_zerocopy(buf).await;
                ZcOut { res, back: Box::pin(back) }
            }

            pub async fn zcv(s: Rc<$S>, bufs: Vec<GBuf>) -> ZcOut<Vec<GBuf>> {
                let mut w = &*s;
                let BufResult(res, back) = w.write_zerocopy_vectored(bufs).await;
                ZcOut { res, back: Box::pin(back) }
            }

            pub async fn wanc(s: Rc<$S>, buf: GBuf, ctl: CBuf) -> BufResult<usize, (GBuf, CBuf)> {
                let mut w = &*s;
                w.write_with_ancillary(buf, ctl).await
            }

            pub async fn wancv(s: Rc<$S>, bufs: Vec<GBuf>, ctl: CBuf) -> BufResult<usize, (Vec<GBuf>, CBuf)> {
                let mut w = &*s;
                w.write_vectored_with_ancillary(bufs, ctl).await
            }

            pub async fn shutdown(s: Rc<$S>, half: bool) -> io::Result<()> {
                if half {
                    let (_r, mut w) = s.split();
                    w.shutdown().await
                } else {
                    let mut w = &*s;
                    w.shutdown().await
                }
            }
        }
    };
}

stream_ops!(tcp, TcpStream);
stream_ops!(unix, UnixStream);

/// type-erased shared stream handle
#[derive(Clone)]
pub enum SH {
    Tcp(Rc<TcpStream>),
    Unix(Rc<UnixStream>),
}

macro_rules! dispatch {
    ($self:ident, $f:ident ( $($a:expr),* )) => {
        match $self {
            SH::Tcp(s) => Box::pin(tcp::$f(s.clone(), $($a),*)),
            SH::Unix(s) => Box::pin(unix::$f(s.clone(), $($a),*)),
        }
    };
}

impl SH {
    pub fn raw_fd(&self) -> std::os::fd::RawFd {
        use std::os::fd::AsRawFd;
        match self {
            SH::Tcp(s) => s.as_raw_fd(),
            SH::Unix(s) => s.as_raw_fd(),
        }
    }

    /// `into_split` on a clone of the stream (operations in flight keep the original alive)
    pub fn into_split(&self) -> (SH, SH) {
        match self {
            SH::Tcp(s) => {
                let (r, w) = (**s).clone().into_split();
                (SH::Tcp(Rc::new(r)), SH::Tcp(Rc::new(w)))
            }
            SH::Unix(s) => {
                let (r, w) = (**s).clone().into_split();
                (SH::Unix(Rc::new(r)), SH::Unix(Rc::new(w)))
            }
        }
    }

    pub fn read(&self, half: bool, buf: GBuf) -> LocalFut<BufResult<usize, GBuf>> {
        dispatch!(self, read(half, buf))
    }

    pub fn readv(&self, half: bool, bufs: Vec<GBuf>) -> LocalFut<BufResult<usize, Vec<GBuf>>> {
        dispatch!(self, readv(half, bufs))
    }

    pub fn managed(&self, len: usize) -> LocalFut<io::Result<Option<Vec<u8>>>> {
        dispatch!(self, managed(len))
    }

    pub fn multi(&self, len: usize, sh: Rc<MultiShared>) -> LocalFut<()> {
        dispatch!(self, multi(len, sh))
    }

    pub fn multi_each(&self, len: usize, f: Box<dyn FnMut(io::Result<Option<Vec<u8>>>) -> bool>) -> LocalFut<()> {
        dispatch!(self, multi_each(len, f))
    }

    pub fn ranc(&self, buf: GBuf, ctl: CBuf) -> LocalFut<BufResult<(usize, usize, u32), (GBuf, CBuf)>> {
        dispatch!(self, ranc(buf, ctl))
    }

    pub fn rancv(&self, bufs: Vec<GBuf>, ctl: CBuf) -> LocalFut<BufResult<(usize, usize, u32), (Vec<GBuf>, CBuf)>> {
        dispatch!(self, rancv(bufs, ctl))
    }

    pub fn write(&self, half: bool, buf: GBuf) -> LocalFut<BufResult<usize, GBuf>> {
        dispatch!(self, write(half, buf))
    }

    pub fn writev(&self, half: bool, bufs: Vec<GBuf>) -> LocalFut<BufResult<usize, Vec<GBuf>>> {
        dispatch!(self, writev(half, bufs))
    }

    pub fn zc(&self, buf: GBuf) -> LocalFut<ZcOut<GBuf>> {
        dispatch!(self, zc(buf))
    }

    pub fn zcv(&self, bufs: Vec<GBuf>) -> LocalFut<ZcOut<Vec<GBuf>>> {
        dispatch!(self, zcv(bufs))
    }

    pub fn wanc(&self, buf: GBuf, ctl: CBuf) -> LocalFut<BufResult<usize, (GBuf, CBuf)>> {
        dispatch!(self, wanc(buf, ctl))
    }

    pub fn wancv(&self, bufs: Vec<GBuf>, ctl: CBuf) -> LocalFut<BufResult<usize, (Vec<GBuf>, CBuf)>> {
        dispatch!(self, wancv(bufs, ctl))
    }

    pub fn shutdown(&self, half: bool) -> LocalFut<io::Result<()>> {
        dispatch!(self, shutdown(half))
    }
}
