//! Guarded buffers with a known pattern in every byte, and position-coded payloads.
use std::mem::MaybeUninit;

use compio_buf::{IoBuf, IoBufMut, SetLen};

/// (len, cap) of one buffer member
pub type Shape = (usize, usize);

pub const GUARD: usize = 8;
/// pre-initialised part of a receive buffer
pub const B_INIT: u8 = 0xDD;
/// spare capacity
pub const B_SPARE: u8 = 0xEE;
/// after the capacity (must never change)
pub const B_GUARD: u8 = 0xF7;

/// stream byte at absolute position `p` (1..=199: never collides with the buffer patterns)
pub fn code(p: u64) -> u8 {
    (p % 199) as u8 + 1
}

const PERIOD: usize = 199;

fn pattern() -> &'static [u8] {
    static P: std::sync::OnceLock<Vec<u8>> = std::sync::OnceLock::new();
    P.get_or_init(|| (0..(PERIOD * 400) as u64).map(code).collect())
}

pub fn stream_bytes(from: u64, n: usize) -> Vec<u8> {
    let p = pattern();
    let mut out = Vec::with_capacity(n);
    let mut pos = (from % PERIOD as u64) as usize;
    while out.len() < n {
        let k = (n - out.len()).min(p.len() - pos);
        out.extend_from_slice(&p[pos..pos + k]);
        pos = (pos + k) % PERIOD;
    }
    out
}

/// index of the first byte of `data` that is not the stream byte of position `from + i`
pub fn stream_mismatch(from: u64, data: &[u8]) -> Option<usize> {
    let p = pattern();
    let mut done = 0usize;
    while done < data.len() {
        let pos = ((from + done as u64) % PERIOD as u64) as usize;
        let k = (data.len() - done).min(p.len() - pos);
        if data[done..done + k] != p[pos..pos + k] {
            return (done..done + k).find(|&i| data[i] != code(from + i as u64));
        }
        done += k;
    }
    None
}

/// byte `i` of datagram number `j`
pub fn dgram_bytes(j: u64, n: usize) -> Vec<u8> {
    (0..n as u64).map(|i| ((j * 37 + i * 3) % 199) as u8 + 1).collect()
}

/// A heap block of `cap + GUARD` bytes handed to compio as a buffer of capacity `cap` with `len`
/// initialised bytes.  Records every `set_len`.
pub struct GBuf {
    block: Box<[u8]>,
    cap: usize,
    len: usize,
    len0: usize,
    /// a set_len beyond the capacity was requested (clamped to stay memory safe)
    pub overlen: Option<usize>,
}

impl GBuf {
    /// receive buffer
    pub fn recv(shape: Shape) -> Self {
        let (len, cap) = shape;
        assert!(len <= cap);
        let mut block = vec![B_GUARD; cap + GUARD].into_boxed_slice();
        block[..len].fill(B_INIT);
        block[len..cap].fill(B_SPARE);
        Self { block, cap, len, len0: len, overlen: None }
    }

    /// send buffer: `data` followed by `spare` bytes of spare capacity
    pub fn send(data: &[u8], spare: usize) -> Self {
        let cap = data.len() + spare;
        let mut block = vec![B_GUARD; cap + GUARD].into_boxed_slice();
        block[..data.len()].copy_from_slice(data);
        block[data.len()..cap].fill(B_SPARE);
        Self { block, cap, len: data.len(), len0: data.len(), overlen: None }
    }

    pub fn cap(&self) -> usize {
        self.cap
    }

    pub fn raw(&self) -> &[u8] {
        &self.block[..self.cap]
    }

    /// Checks a receive buffer after `filled` bytes were (claimed to be) written at its start.
    /// Returns the received bytes or a description of what is wrong.
    pub fn check_filled(&self, filled: usize) -> Result<Vec<u8>, String> {
        if let Some(l) = self.overlen {
            return Err(format!("set_len({l}) beyond the capacity {}", self.cap));
        }
        if self.block[self.cap..].iter().any(|&b| b != B_GUARD) {
            return Err(format!("bytes after the capacity {} were overwritten: {:02x?}", self.cap, &self.block[self.cap..]));
        }
        if filled > self.cap {
            return Err(format!("{filled} bytes reported for a buffer of capacity {}", self.cap));
        }
        let want_len = self.len0.max(filled);
        if self.len != want_len {
            return Err(format!(
                "buffer length is {} after {filled} bytes were received into (len {}, cap {}); expected {want_len}",
                self.len, self.len0, self.cap
            ));
        }
        for i in filled..self.cap {
            let want = if i < self.len0 { B_INIT } else { B_SPARE };
            if self.block[i] != want {
                return Err(format!(
                    "byte {i} beyond the {filled} received bytes was modified ({:02x}, buffer {:02x?})",
                    self.block[i],
                    self.raw()
                ));
            }
        }
        Ok(self.block[..filled].to_vec())
    }

    /// a send buffer must come back unchanged
    pub fn check_unchanged(&self, data: &[u8]) -> Result<(), String> {
        if self.overlen.is_some() || self.len != data.len() || &self.block[..self.len] != data {
            return Err("send buffer came back changed".into());
        }
        if self.block[self.len..self.cap].iter().any(|&b| b != B_SPARE) || self.block[self.cap..].iter().any(|&b| b != B_GUARD) {
            return Err("spare capacity / guard of a send buffer was modified".into());
        }
        Ok(())
    }
}

impl IoBuf for GBuf {
    fn as_init(&self) -> &[u8] {
        &self.block[..self.len]
    }
}

impl SetLen for GBuf {
    unsafe fn set_len(&mut self, len: usize) {
        if len > self.cap {
            self.overlen = Some(len);
            self.len = self.cap;
        } else {
            self.len = len;
        }
    }
}

impl IoBufMut for GBuf {
    fn as_uninit(&mut self) -> &mut [MaybeUninit<u8>] {
        let s = &mut self.block[..self.cap];
        // SAFETY: u8 -> MaybeUninit<u8> is always valid; the bytes stay initialised
        unsafe { std::slice::from_raw_parts_mut(s.as_mut_ptr().cast::<MaybeUninit<u8>>(), s.len()) }
    }
}

/// Checks vectored receive buffers after `n` bytes were reported; returns the received bytes.
pub fn check_filled_vec(bufs: &[GBuf], n: usize) -> Result<Vec<u8>, String> {
    let total: usize = bufs.iter().map(|b| b.cap()).sum();
    if n > total {
        return Err(format!("{n} bytes reported for buffers of total capacity {total}"));
    }
    let mut rem = n;
    let mut out = Vec::new();
    for (j, b) in bufs.iter().enumerate() {
        let got = rem.min(b.cap());
        rem -= got;
        match b.check_filled(got) {
            Ok(d) => out.extend_from_slice(&d),
            Err(e) => return Err(format!("member {j}: {e}")),
        }
    }
    Ok(out)
}

pub fn shape_class(members: &[Shape]) -> &'static str {
    let total_cap: usize = members.iter().map(|m| m.1).sum();
    let total_len: usize = members.iter().map(|m| m.0).sum();
    if total_cap == 0 {
        "zero-cap"
    } else if total_len == 0 {
        "spare"
    } else if total_len == total_cap {
        "init"
    } else {
        "partial"
    }
}

/// control-message buffer: 8-byte aligned block
#[repr(C, align(8))]
pub struct CBuf {
    bytes: [u8; 64],
    cap: usize,
    len: usize,
}

impl CBuf {
    pub fn empty(cap: usize) -> Self {
        assert!(cap <= 64);
        Self { bytes: [0; 64], cap, len: 0 }
    }

    pub fn filled(data: &[u8]) -> Self {
        let mut s = Self::empty(data.len());
        s.bytes[..data.len()].copy_from_slice(data);
        s.len = data.len();
        s
    }

    pub fn bytes(&self) -> &[u8] {
        &self.bytes[..self.len]
    }
}

impl IoBuf for CBuf {
    fn as_init(&self) -> &[u8] {
        &self.bytes[..self.len]
    }
}

impl SetLen for CBuf {
    unsafe fn set_len(&mut self, len: usize) {
        self.len = len.min(self.cap);
    }
}

impl IoBufMut for CBuf {
    fn as_uninit(&mut self) -> &mut [MaybeUninit<u8>] {
        let s = &mut self.bytes[..self.cap];
        unsafe { std::slice::from_raw_parts_mut(s.as_mut_ptr().cast::<MaybeUninit<u8>>(), s.len()) }
    }
}

/// one control message (level, type, 4 data bytes) in wire format
pub fn cmsg_u32(level: i32, ty: i32, val: u32) -> Vec<u8> {
    let space = unsafe { libc::CMSG_SPACE(4) } as usize;
    let mut v = vec![0u8; space];
    let hdr = libc::cmsghdr { cmsg_len: unsafe { libc::CMSG_LEN(4) } as _, cmsg_level: level, cmsg_type: ty };
    unsafe {
        std::ptr::copy_nonoverlapping(&hdr as *const _ as *const u8, v.as_mut_ptr(), std::mem::size_of::<libc::cmsghdr>());
    }
    let off = unsafe { libc::CMSG_LEN(0) } as usize;
    v[off..off + 4].copy_from_slice(&val.to_ne_bytes());
    v
}

/// parse the first control message: (level, type, first 4 data bytes)
pub fn parse_cmsg(b: &[u8]) -> Option<(i32, i32, u32)> {
    let hl = std::mem::size_of::<libc::cmsghdr>();
    if b.len() < hl {
        return None;
    }
    let mut hdr: libc::cmsghdr = unsafe { std::mem::zeroed() };
    unsafe { std::ptr::copy_nonoverlapping(b.as_ptr(), &mut hdr as *mut _ as *mut u8, hl) };
    let off = unsafe { libc::CMSG_LEN(0) } as usize;
    let mut val = [0u8; 4];
    let dl = (hdr.cmsg_len as usize).saturating_sub(off).min(4);
    if b.len() < off + dl {
        return None;
    }
    val[..dl].copy_from_slice(&b[off..off + dl]);
    Some((hdr.cmsg_level, hdr.cmsg_type, u32::from_ne_bytes(val)))
}
