//! Configuration B: compio on both ends of one connection inside one runtime.  A writer future
//! and a reader future run fixed programs; the harness polls them (and harvests) in every order
//! for the first `depth` scheduling steps and then runs both to completion.
//!
//! Oracle: the bytes the reader observed are exactly the bytes the writer was told were sent, in
//! order, followed by end of stream after the writer's shutdown and not before; buffers come back
//! intact; both programs finish.
use std::{cell::RefCell, rc::Rc};

use compio_buf::BufResult;
use compio_driver::DriverType;
use compio_net::{TcpStream, UnixStream};
use compio_runtime::Runtime;

use crate::{
    Found,
    bufs::{self, CBuf, GBuf, Shape, check_filled_vec, stream_bytes},
    peer::{self, Transport},
    rt::{self, Task, drv_name, harvest},
    sops::{SH, ZcOut},
    stream::cut,
};

#[derive(Default)]
struct Log {
    /// bytes the writer was told were sent
    told: u64,
    shutdown_done: bool,
    /// bytes the reader observed
    rcvd: Vec<u8>,
    eof: bool,
    errors: Vec<(String, String)>,
    events: Vec<String>,
}

type Shared = Rc<RefCell<Log>>;

#[derive(Clone, Copy, Debug, PartialEq, Eq)]
pub enum WOp {
    Write(usize),
    WriteV(usize, usize),
    Zc(usize),
    ZcV(usize, usize),
    Anc(usize),
    /// write everything, repeating after partial writes
    WriteAll(usize),
}

pub fn writer_programs(big: usize) -> Vec<(&'static str, Vec<WOp>, bool)> {
    vec![
        ("plain", vec![WOp::Write(3), WOp::WriteV(3, 3), WOp::Write(1)], false),
        ("zerocopy+ancillary", vec![WOp::Zc(3), WOp::Anc(3), WOp::ZcV(3, 2)], false),
        ("split+big", vec![WOp::Write(3), WOp::WriteAll(big), WOp::WriteV(3, 1)], true),
    ]
}

pub const READERS: [&str; 6] = ["read", "readv", "managed", "multi", "mixed", "split-read"];

fn err(log: &Shared, oracle: &str, what: String) {
    log.borrow_mut().errors.push((oracle.to_string(), what));
}

async fn writer(x: SH, prog: Vec<WOp>, split: bool, unix: bool, log: Shared) {
    // the third program writes through the owned write half of into_split()
    let (keep_r, w) = if split {
        let (r, w) = x.into_split();
        (Some(r), w)
    } else {
        (None, x.clone())
    };
    let ctl = if unix { bufs::cmsg_u32(libc::SOL_SOCKET, libc::SCM_RIGHTS, 2) } else { bufs::cmsg_u32(libc::SOL_SOCKET, libc::SO_TIMESTAMPING, 0) };
    let mut backs: Vec<crate::sops::LocalFut<Result<(), String>>> = Vec::new();
    for op in prog {
        let pos = log.borrow().told;
        let mut todo = match op {
            WOp::Write(n) | WOp::Zc(n) | WOp::Anc(n) | WOp::WriteAll(n) | WOp::WriteV(n, _) | WOp::ZcV(n, _) => n,
        };
        let mut off = 0u64;
        loop {
            let data = stream_bytes(pos + off, todo);
            let (res, chk): (std::io::Result<usize>, Result<(), String>) = match op {
                WOp::Write(_) | WOp::WriteAll(_) => {
                    let BufResult(r, b) = w.write(false, GBuf::send(&data, 3)).await;
                    (r, b.check_unchanged(&data))
                }
                WOp::WriteV(_, lay) => {
                    let parts = cut(&data, lay);
                    let BufResult(r, b) = w.writev(false, parts.iter().map(|p| GBuf::send(p, 2)).collect()).await;
                    (r, b.iter().zip(&parts).try_for_each(|(b, p)| b.check_unchanged(p)))
                }
                WOp::Zc(_) => {
                    let ZcOut { res, back } = w.zc(GBuf::send(&data, 3)).await;
                    let d = data.clone();
                    backs.push(Box::pin(async move { back.await.check_unchanged(&d) }));
                    (res, Ok(()))
                }
                WOp::ZcV(_, lay) => {
                    let parts = cut(&data, lay);
                    let ZcOut { res, back } = w.zcv(parts.iter().map(|p| GBuf::send(p, 2)).collect()).await;
                    backs.push(Box::pin(async move { back.await.iter().zip(&parts).try_for_each(|(b, p)| b.check_unchanged(p)) }));
                    (res, Ok(()))
                }
                WOp::Anc(_) => {
                    let BufResult(r, (b, _)) = w.wanc(GBuf::send(&data, 3), CBuf::filled(&ctl)).await;
                    (r, b.check_unchanged(&data))
                }
            };
            if let Err(e) = chk {
                err(&log, "send-buffer", format!("{op:?}: {e}"));
                return;
            }
            match res {
                Ok(n) => {
                    if n > todo || (n == 0 && todo > 0) {
                        err(&log, "send-count", format!("{op:?}: send of {todo} bytes reported {n}"));
                        return;
                    }
                    let mut l = log.borrow_mut();
                    l.told += n as u64;
                    l.events.push(format!("W {op:?} -> {n}"));
                    drop(l);
                    off += n as u64;
                    todo -= n;
                }
                Err(e) => {
                    // nothing was sent as far as the writer knows (e.g. zero-copy on a Unix socket)
                    log.borrow_mut().events.push(format!("W {op:?} -> Err({e})"));
                    break;
                }
            }
            if todo == 0 || !matches!(op, WOp::WriteAll(_)) {
                break;
            }
        }
    }
    match w.shutdown(false).await {
        Ok(()) => {
            let mut l = log.borrow_mut();
            l.shutdown_done = true;
            l.events.push("W shutdown".into());
        }
        Err(e) => err(&log, "shutdown-error", format!("shutdown failed: {e}")),
    }
    for b in backs {
        if let Err(e) = b.await {
            err(&log, "send-buffer", e);
        }
    }
    drop(keep_r);
}

fn got(log: &Shared, what: &str, data: &[u8]) {
    let mut l = log.borrow_mut();
    l.events.push(format!("R {what} -> {}", data.len()));
    l.rcvd.extend_from_slice(data);
}

async fn reader(y: SH, kind: usize, cap: usize, log: Shared) {
    let shapes: [Shape; 3] = [(0, cap), (2, cap.max(2)), (cap, cap)];
    let mut i = 0usize;
    loop {
        i += 1;
        match READERS[kind] {
            "read" | "split-read" => {
                let shape = shapes[0];
                let BufResult(r, b) = y.read(READERS[kind] == "split-read", GBuf::recv(shape)).await;
                match r.map(|n| b.check_filled(n)) {
                    Ok(Ok(d)) if d.is_empty() => break,
                    Ok(Ok(d)) => got(&log, "read", &d),
                    Ok(Err(e)) => return err(&log, "recv-buffer", format!("read: {e}")),
                    Err(e) => return err(&log, "recv-error", format!("read: {e}")),
                }
            }
            "readv" => {
                let lay: Vec<Shape> = vec![(0, 1), (0, 0), (0, cap.max(2) - 1)];
                let BufResult(r, b) = y.readv(false, lay.iter().map(|s| GBuf::recv(*s)).collect()).await;
                match r.map(|n| check_filled_vec(&b, n)) {
                    Ok(Ok(d)) if d.is_empty() => break,
                    Ok(Ok(d)) => got(&log, "readv", &d),
                    Ok(Err(e)) => return err(&log, "recv-buffer", format!("read_vectored: {e}")),
                    Err(e) => return err(&log, "recv-error", format!("read_vectored: {e}")),
                }
            }
            "managed" => match y.managed(if i % 2 == 0 { 2 } else { 0 }).await {
                Ok(None) => break,
                Ok(Some(d)) if d.is_empty() => return err(&log, "recv-buffer", "read_managed returned an empty buffer".into()),
                Ok(Some(d)) => got(&log, "managed", &d),
                Err(e) if e.kind() == std::io::ErrorKind::ResourceBusy => log.borrow_mut().events.push("R managed -> no buffer".into()),
                Err(e) => return err(&log, "recv-error", format!("read_managed: {e}")),
            },
            "multi" => {
                // one multishot stream for the whole connection
                let l2 = log.clone();
                let failed = Rc::new(std::cell::Cell::new(false));
                let f2 = failed.clone();
                y.multi_each(
                    0,
                    Box::new(move |item| match item {
                        Ok(None) => true,
                        Ok(Some(d)) => {
                            got(&l2, "multi", &d);
                            true
                        }
                        Err(e) if e.kind() == std::io::ErrorKind::ResourceBusy => {
                            l2.borrow_mut().events.push("R multi -> no buffer".into());
                            true
                        }
                        Err(e) => {
                            err(&l2, "recv-error", format!("read_multi: {e}"));
                            f2.set(true);
                            false
                        }
                    }),
                )
                .await;
                if failed.get() {
                    return;
                }
                break;
            }
            _ => {
                // mixed: read / ancillary read / vectored read in turn, pre-filled buffers included
                match i % 3 {
                    1 => {
                        let shape = shapes[1];
                        let BufResult(r, b) = y.read(false, GBuf::recv(shape)).await;
                        match r.map(|n| b.check_filled(n)) {
                            Ok(Ok(d)) if d.is_empty() => break,
                            Ok(Ok(d)) => got(&log, "read", &d),
                            Ok(Err(e)) => return err(&log, "recv-buffer", format!("read: {e}")),
                            Err(e) => return err(&log, "recv-error", format!("read: {e}")),
                        }
                    }
                    2 => {
                        let shape = shapes[2];
                        let BufResult(r, (b, _c)) = y.ranc(GBuf::recv(shape), CBuf::empty(64)).await;
                        match r.map(|(n, _, _)| b.check_filled(n)) {
                            Ok(Ok(d)) if d.is_empty() => break,
                            Ok(Ok(d)) => got(&log, "read_with_ancillary", &d),
                            Ok(Err(e)) => return err(&log, "recv-buffer", format!("read_with_ancillary: {e}")),
                            Err(e) => return err(&log, "recv-error", format!("read_with_ancillary: {e}")),
                        }
                    }
                    _ => {
                        let lay: Vec<Shape> = vec![(2, 2), (1, cap.max(2))];
                        let BufResult(r, b) = y.readv(false, lay.iter().map(|s| GBuf::recv(*s)).collect()).await;
                        match r.map(|n| check_filled_vec(&b, n)) {
                            Ok(Ok(d)) if d.is_empty() => break,
                            Ok(Ok(d)) => got(&log, "readv", &d),
                            Ok(Err(e)) => return err(&log, "recv-buffer", format!("read_vectored: {e}")),
                            Err(e) => return err(&log, "recv-error", format!("read_vectored: {e}")),
                        }
                    }
                }
            }
        }
        if log.borrow().rcvd.len() > 1 << 20 {
            return err(&log, "recv-content", "the reader received more than a megabyte".into());
        }
    }
    let mut l = log.borrow_mut();
    l.eof = true;
    l.events.push("R end of stream".into());
}

fn pair(tr: Transport) -> Result<(SH, SH), String> {
    match tr {
        Transport::Unix => {
            let (a, b) = std::os::unix::net::UnixStream::pair().map_err(|e| e.to_string())?;
            peer::minimise_buffers(&a);
            peer::minimise_buffers(&b);
            Ok((
                SH::Unix(Rc::new(UnixStream::from_std(a).map_err(|e| e.to_string())?)),
                SH::Unix(Rc::new(UnixStream::from_std(b).map_err(|e| e.to_string())?)),
            ))
        }
        _ => {
            let (a, b) = crate::stream::raw_tcp_pair()?;
            let a: std::net::TcpStream = a.into();
            let b: std::net::TcpStream = b.into();
            a.set_nodelay(true).ok();
            b.set_nodelay(true).ok();
            Ok((
                SH::Tcp(Rc::new(TcpStream::from_std(a).map_err(|e| e.to_string())?)),
                SH::Tcp(Rc::new(TcpStream::from_std(b).map_err(|e| e.to_string())?)),
            ))
        }
    }
}

#[derive(Clone, Copy, Debug, PartialEq, Eq)]
enum Sched {
    PollW,
    PollR,
    Harvest,
}

/// `prog` = writer program index * READERS.len() + reader index
pub fn run_one(rt: &Runtime, ch: &mut crate::Pk, drv: DriverType, tr: Transport, prog: usize, depth: usize, big: usize) -> crate::ExecOut {
    rt.enter(|| {
        let wprogs = writer_programs(big);
        let (wi, ri) = (prog / READERS.len(), prog % READERS.len());
        let (wname, wprog, split) = wprogs[wi].clone();
        // a reader that takes 4 bytes at a time is paired with small writers only
        let bigw = wprog.iter().any(|o| matches!(o, WOp::WriteAll(_)));
        let cap = if bigw { 16384 } else { 4 };
        let cfgname = format!("{}/{}", tr.name(), drv_name(drv));
        let class = format!("writer={wname}:reader={}", READERS[ri]);
        let (x, y) = match pair(tr) {
            Ok(p) => p,
            Err(e) => vcore::machinery_error(&format!("duplex set-up failed: {e}")),
        };
        let log: Shared = Rc::new(RefCell::new(Log::default()));
        let mut w = Task::new(writer(x.clone(), wprog, split, tr == Transport::Unix, log.clone()));
        let mut r = Task::new(reader(y.clone(), ri, cap, log.clone()));
        let mut steps = Vec::new();
        let mut diverged = false;
        // the schedule alphabet is the same at every step (polling a finished future and
        // harvesting twice are no-ops), so the choice tree does not depend on timing
        let en = [Sched::PollW, Sched::PollR, Sched::Harvest];
        for _ in 0..depth {
            let Some(c) = ch.pick(en.len()) else {
                diverged = true;
                break;
            };
            let s = en[c];
            steps.push(format!("{s:?}"));
            match s {
                Sched::PollW => {
                    w.poll_now();
                }
                Sched::PollR => {
                    r.poll_now();
                }
                Sched::Harvest => harvest(rt),
            }
        }
        let mut found = Vec::new();
        let mut sig = Vec::new();
        if !diverged {
            // run both to completion
            let start = std::time::Instant::now();
            let mut n = 0u32;
            w.poll_now();
            r.poll_now();
            while !(w.is_done() && r.is_done()) && log.borrow().errors.is_empty() {
                harvest(rt);
                w.poll_if_woken();
                r.poll_if_woken();
                n += 1;
                if start.elapsed() > rt::settle_limit() * 2 {
                    break;
                }
                if n > 8 {
                    rt.poll_with(Some(std::time::Duration::from_micros(200)));
                    rt.run();
                }
            }
            let l = log.borrow();
            let mut viol = |oracle: &str, what: String| {
                found.push(Found { key: format!("duplex-B:{oracle}:{class}:{cfgname}"), what: format!("{what}; events: {}", l.events.iter().rev().take(12).rev().cloned().collect::<Vec<_>>().join(" | ")) })
            };
            if let Some((o, e)) = l.errors.first() {
                viol(o, e.clone());
            } else if !(w.is_done() && r.is_done()) {
                viol(
                    "hang",
                    format!(
                        "writer {} , reader {} after the run-to-completion phase (told {} bytes, received {}, shutdown {})",
                        if w.is_done() { "finished" } else { "NOT finished" },
                        if r.is_done() { "finished" } else { "NOT finished" },
                        l.told,
                        l.rcvd.len(),
                        l.shutdown_done
                    ),
                );
            } else if let Some(i) = bufs::stream_mismatch(0, &l.rcvd) {
                viol("recv-content", format!("the reader observed byte {:#04x} at stream position {i}, expected {:#04x}", l.rcvd[i], bufs::code(i as u64)));
            } else if l.rcvd.len() as u64 != l.told {
                viol("recv-count", format!("the writer was told {} bytes were sent, the reader observed {} before end of stream", l.told, l.rcvd.len()));
            } else if !l.eof || !l.shutdown_done {
                viol("no-eof", "the reader did not see end of stream after the writer's shutdown".into());
            } else {
                sig.push(format!("{class}=ok"));
            }
        }
        let trace = log.borrow().events.clone();
        drop(w);
        drop(r);
        drop((x, y));
        for _ in 0..3 {
            harvest(rt);
        }
        crate::ExecOut { skipped: false, steps, trace, found, sig, timing: vec![] }
    })
}
