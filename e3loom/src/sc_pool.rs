//! C17(a): the blocking pool — the real compio-driver/src/asyncify.rs
use std::{
    sync::atomic::{AtomicUsize, Ordering::SeqCst},
    time::Duration,
};

use loom::thread;

use crate::{Scenario, outcome};

#[allow(dead_code, unused_imports)]
mod pool_under_test {
    use crate::shims::{shim_flume as flume, shim_std as std};
    include!("/repo/compio-driver/src/asyncify.rs");

    /// harness access to the private channel end (same module as the included source)
    pub fn elapse_idle_timeout(p: &AsyncifyPool) {
        p.sender.elapse_idle_timeout();
    }

    pub fn shutdown(p: &AsyncifyPool) {
        p.sender.shutdown();
    }
}
use pool_under_test::{AsyncifyPool, elapse_idle_timeout, shutdown};

static RUNNING: AtomicUsize = AtomicUsize::new(0);
static MAX_RUNNING: AtomicUsize = AtomicUsize::new(0);
static RAN: [AtomicUsize; 4] = [AtomicUsize::new(0), AtomicUsize::new(0), AtomicUsize::new(0), AtomicUsize::new(0)];
static LIMIT: AtomicUsize = AtomicUsize::new(0);

fn reset(limit: usize) {
    RUNNING.store(0, SeqCst);
    MAX_RUNNING.store(0, SeqCst);
    for r in &RAN {
        r.store(0, SeqCst);
    }
    LIMIT.store(limit, SeqCst);
}

/// completion signal on loom primitives (blocking wait instead of a spin loop)
struct Done {
    m: loom::sync::Mutex<usize>,
    cv: loom::sync::Condvar,
}

impl Done {
    fn new() -> loom::sync::Arc<Self> {
        loom::sync::Arc::new(Self {
            m: loom::sync::Mutex::new(0),
            cv: loom::sync::Condvar::new(),
        })
    }

    fn wait_for(&self, n: usize) {
        let mut g = self.m.lock().unwrap();
        while *g < n {
            g = self.cv.wait(g).unwrap();
        }
    }
}

fn job(i: usize, done: loom::sync::Arc<Done>) -> impl FnOnce() + Send + 'static {
    move || {
        let n = RUNNING.fetch_add(1, SeqCst) + 1;
        MAX_RUNNING.fetch_max(n, SeqCst);
        assert!(
            n <= LIMIT.load(SeqCst),
            "ORACLE[limit-exceeded] {n} pool threads run jobs at once, thread_limit is {}",
            LIMIT.load(SeqCst)
        );
        RAN[i].fetch_add(1, SeqCst);
        // the lock is a scheduling point inside the job, so overlapping jobs are observable
        {
            let mut g = done.m.lock().unwrap();
            *g += 1;
            done.cv.notify_all();
        }
        RUNNING.fetch_sub(1, SeqCst);
    }
}

/// what `Driver::push_blocking` does: retry while the pool hands the job back
fn submit(pool: &AsyncifyPool, i: usize, done: &loom::sync::Arc<Done>) {
    let mut f: Box<dyn FnOnce() + Send> = Box::new(job(i, done.clone()));
    loop {
        match pool.dispatch(f) {
            Ok(()) => return,
            Err(e) => {
                f = e.into_inner();
                thread::yield_now();
            }
        }
    }
}

fn dispatchers(limit: usize, threads: usize, jobs_each: usize) {
    reset(limit);
    let pool = AsyncifyPool::new(limit, Duration::from_secs(60));
    let done = Done::new();
    let hs: Vec<_> = (1..threads)
        .map(|t| {
            let p = pool.clone();
            let d = done.clone();
            thread::spawn(move || {
                for j in 0..jobs_each {
                    submit(&p, t * jobs_each + j, &d);
                }
            })
        })
        .collect();
    for j in 0..jobs_each {
        submit(&pool, j, &done);
    }
    for h in hs {
        h.join().unwrap();
    }
    let n = threads * jobs_each;
    done.wait_for(n);
    for i in 0..n {
        assert_eq!(RAN[i].load(SeqCst), 1, "ORACLE[job-count] job {i} ran {} times", RAN[i].load(SeqCst));
    }
    outcome(MAX_RUNNING.load(SeqCst) as u32);
    // let the workers retire so that the model terminates
    shutdown(&pool);
}

fn retire_then_job() {
    reset(1);
    let pool = AsyncifyPool::new(1, Duration::from_secs(60));
    let done = Done::new();
    submit(&pool, 0, &done);
    done.wait_for(1);
    // idle timeout passes: the worker retires (its guard must give the slot back)
    elapse_idle_timeout(&pool);
    // a later job must still run (needs a fresh worker, i.e. the counter went back to 0)
    submit(&pool, 1, &done);
    done.wait_for(2);
    assert_eq!(RAN[1].load(SeqCst), 1, "ORACLE[job-count] late job ran {} times", RAN[1].load(SeqCst));
    outcome(5);
    shutdown(&pool);
}

/// the idle timeout may elapse at ANY moment (a clock thread), also for a worker that was just
/// spawned for a job the dispatcher has not handed over yet
fn timeout_at_any_time() {
    reset(1);
    let pool = AsyncifyPool::new(1, Duration::from_millis(1));
    let done = Done::new();
    let p2 = pool.clone();
    let clock = thread::spawn(move || elapse_idle_timeout(&p2));
    submit(&pool, 0, &done);
    done.wait_for(1);
    clock.join().unwrap();
    assert_eq!(RAN[0].load(SeqCst), 1, "ORACLE[job-count] job ran {} times", RAN[0].load(SeqCst));
    outcome(6);
    shutdown(&pool);
}

/// every handle to the pool goes away right after a job was accepted by an idle worker: the
/// accepted job must still run (the worker may only retire once the channel is empty)
fn drop_after_dispatch() {
    reset(1);
    let pool = AsyncifyPool::new(1, Duration::from_secs(60));
    let done = Done::new();
    submit(&pool, 0, &done);
    done.wait_for(1);
    // accepted either by the now idle worker (through the channel) or, if it already retired, by a
    // fresh one
    submit(&pool, 1, &done);
    drop(pool);
    done.wait_for(2);
    assert_eq!(RAN[1].load(SeqCst), 1, "ORACLE[job-count] the job accepted before the pool was dropped ran {} times", RAN[1].load(SeqCst));
    outcome(8);
}

pub fn scenarios() -> Vec<Scenario> {
    vec![
        Scenario { name: "pool_timeout_any_time", property: "C17", about: "the idle timeout elapses at an arbitrary moment while one job is being dispatched to a fresh worker", run: timeout_at_any_time, thorough_only: false, heavy: false },
        Scenario { name: "pool_l1_d1_j2", property: "C17", about: "thread_limit 1, one dispatcher, two jobs", run: || dispatchers(1, 1, 2), thorough_only: false, heavy: false },
        Scenario { name: "pool_l1_d2_j1", property: "C17", about: "thread_limit 1, two dispatcher threads (two runtimes sharing the pool), one job each", run: || dispatchers(1, 2, 1), thorough_only: false, heavy: true },
        Scenario { name: "pool_l2_d2_j1", property: "C17", about: "thread_limit 2, two dispatcher threads, one job each", run: || dispatchers(2, 2, 1), thorough_only: false, heavy: true },
        Scenario { name: "pool_l2_d3_j1", property: "C17", about: "thread_limit 2, three dispatcher threads, one job each", run: || dispatchers(2, 3, 1), thorough_only: true, heavy: true },
        Scenario { name: "pool_drop_after_dispatch", property: "C17", about: "the last pool handle is dropped right after a job was accepted by an idle worker: the job still runs", run: drop_after_dispatch, thorough_only: false, heavy: false },
        Scenario { name: "pool_retire_then_job", property: "C17", about: "worker retires after the idle timeout, a later job still runs", run: retire_then_job, thorough_only: false, heavy: false },
    ]
}
