//! C06(b): cross-thread `SharedFd` (feature `sync`) — the real compio-driver/src/fd.rs
use std::sync::atomic::{AtomicUsize, Ordering::SeqCst};

use loom::thread;

use crate::{Scenario, outcome};

#[allow(dead_code, unused_imports)]
mod fd_under_test {
    use crate::shims::{shim_std as std, shim_synchrony as synchrony};
    include!("/repo/compio-driver/src/fd.rs");
}
use fd_under_test::SharedFd;

static DROPS: AtomicUsize = AtomicUsize::new(0);

/// stands for the descriptor: loom tracks that its drop does not race with a holder's use
struct Tracked(loom::cell::UnsafeCell<u32>);

impl Tracked {
    fn new() -> Self {
        DROPS.store(0, SeqCst);
        Self(loom::cell::UnsafeCell::new(7))
    }

    fn use_it(&self) {
        self.0.with(|p| unsafe { assert_eq!(*p, 7) });
    }
}

impl Drop for Tracked {
    fn drop(&mut self) {
        self.0.with_mut(|p| unsafe { *p = 0 });
        DROPS.fetch_add(1, SeqCst);
    }
}

fn closer_and_droppers(n: usize, reclone: bool) {
    let fd = unsafe { SharedFd::new_unchecked(Tracked::new()) };
    let hs: Vec<_> = (0..n)
        .map(|_| {
            let c = fd.clone();
            thread::spawn(move || {
                c.use_it();
                if reclone {
                    let c2 = c.clone();
                    c2.use_it();
                    drop(c2);
                }
                drop(c);
            })
        })
        .collect();
    // the closer: `close().await` of File/Socket is `fd.take().await` + closing the result
    let got = loom::future::block_on(fd.take());
    assert!(got.is_some(), "ORACLE[closer-got-none] the only closer must receive the descriptor");
    assert_eq!(DROPS.load(SeqCst), 0, "ORACLE[closed-early] descriptor dropped before take() returned it");
    drop(got);
    assert_eq!(DROPS.load(SeqCst), 1, "ORACLE[close-count] descriptor must be closed exactly once");
    for h in hs {
        h.join().unwrap();
    }
    outcome(0);
}

fn two_takes() {
    let fd = unsafe { SharedFd::new_unchecked(Tracked::new()) };
    let c = fd.clone();
    let t = thread::spawn(move || loom::future::block_on(c.take()).is_some());
    let a = loom::future::block_on(fd.take()).is_some();
    let b = t.join().unwrap();
    assert!(a ^ b, "ORACLE[two-closers] exactly one of two concurrent take() calls must obtain the descriptor (got {a} and {b})");
    assert_eq!(DROPS.load(SeqCst), 1, "ORACLE[close-count] descriptor must be closed exactly once");
    outcome(if a { 1 } else { 2 });
}

/// no closer: handles are only cloned, used and dropped on several threads — the descriptor is
/// closed exactly once, by the last holder, after every use
fn droppers_only(n: usize) {
    let fd = unsafe { SharedFd::new_unchecked(Tracked::new()) };
    let hs: Vec<_> = (0..n)
        .map(|_| {
            let c = fd.clone();
            thread::spawn(move || {
                c.use_it();
                let c2 = c.clone();
                drop(c);
                c2.use_it();
            })
        })
        .collect();
    fd.use_it();
    drop(fd);
    for h in hs {
        h.join().unwrap();
    }
    assert_eq!(DROPS.load(SeqCst), 1, "ORACLE[close-count] descriptor must be closed exactly once");
    outcome(3);
}

/// try_unwrap on one thread while the other holder drops on another thread
fn try_unwrap_vs_drop() {
    let fd = unsafe { SharedFd::new_unchecked(Tracked::new()) };
    let c = fd.clone();
    let t = thread::spawn(move || {
        c.use_it();
        drop(c)
    });
    match fd.try_unwrap() {
        Ok(inner) => {
            assert_eq!(DROPS.load(SeqCst), 0, "ORACLE[closed-early] descriptor dropped before try_unwrap returned it");
            inner.use_it();
            drop(inner);
            outcome(4);
        }
        Err(still_shared) => {
            still_shared.use_it();
            drop(still_shared);
            outcome(5);
        }
    }
    t.join().unwrap();
    assert_eq!(DROPS.load(SeqCst), 1, "ORACLE[close-count] descriptor must be closed exactly once");
}

/// the closer starts only after the other holder is gone: take() must resolve at its first poll
fn take_after_drop() {
    let fd = unsafe { SharedFd::new_unchecked(Tracked::new()) };
    let c = fd.clone();
    let t = thread::spawn(move || {
        c.use_it();
        drop(c)
    });
    t.join().unwrap();
    let got = loom::future::block_on(fd.take());
    assert!(got.is_some(), "ORACLE[closer-got-none] the only closer must receive the descriptor");
    drop(got);
    assert_eq!(DROPS.load(SeqCst), 1, "ORACLE[close-count] descriptor must be closed exactly once");
    outcome(6);
}

pub fn scenarios() -> Vec<Scenario> {
    vec![
        Scenario { name: "fd_droppers_only2", property: "C06", about: "handles cloned, used and dropped on three threads, no closer", run: || droppers_only(2), thorough_only: false, heavy: false },
        Scenario { name: "fd_try_unwrap_vs_drop", property: "C06", about: "try_unwrap on one thread while the other holder drops on another", run: try_unwrap_vs_drop, thorough_only: false, heavy: false },
        Scenario { name: "fd_take_after_drop", property: "C06", about: "take() after the other holder (on another thread) is gone", run: take_after_drop, thorough_only: false, heavy: false },
        Scenario { name: "fd_take_vs_drop1", property: "C06", about: "closer awaits take() while one other holder uses and drops its handle on another thread", run: || closer_and_droppers(1, false), thorough_only: false, heavy: false },
        Scenario { name: "fd_take_vs_drop2", property: "C06", about: "closer awaits take() while two other holders drop on two threads", run: || closer_and_droppers(2, false), thorough_only: false, heavy: false },
        Scenario { name: "fd_take_vs_clone_drop", property: "C06", about: "the other holder clones again, uses and drops both while the closer awaits take()", run: || closer_and_droppers(1, true), thorough_only: false, heavy: false },
        Scenario { name: "fd_two_takes", property: "C06", about: "two threads call take() concurrently", run: two_takes, thorough_only: false, heavy: false },
    ]
}
