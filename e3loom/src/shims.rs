//! Re-binding shims: the repository files are `include!`d into modules where `std`, `flume`
//! and `synchrony` resolve to these loom-backed stand-ins (DESIGN.md §0).
#![allow(dead_code)]

pub mod shim_std {
    pub use ::std::*;

    pub mod sync {
        pub use ::std::sync::*;
        pub use loom::sync::Arc;

        pub mod atomic {
            pub use loom::sync::atomic::*;
        }
    }

    pub mod thread {
        pub use loom::thread::*;
    }
}

pub mod shim_synchrony {
    pub mod sync {
        pub mod atomic {
            pub use loom::sync::atomic::AtomicBool;
        }

        pub mod shared {
            use std::ops::Deref;

            /// `synchrony::sync::shared::Shared` is a thin wrapper over `Arc`
            #[derive(Debug)]
            pub struct Shared<T>(loom::sync::Arc<T>);

            impl<T> Shared<T> {
                pub fn new(v: T) -> Self {
                    Self(loom::sync::Arc::new(v))
                }

                pub fn try_unwrap(this: Self) -> Result<T, Self> {
                    loom::sync::Arc::try_unwrap(this.0).map_err(Self)
                }

                pub fn strong_count(this: &Self) -> usize {
                    loom::sync::Arc::strong_count(&this.0)
                }
            }

            impl<T> Clone for Shared<T> {
                fn clone(&self) -> Self {
                    Self(self.0.clone())
                }
            }

            impl<T> Deref for Shared<T> {
                type Target = T;

                fn deref(&self) -> &T {
                    &self.0
                }
            }
        }

        pub mod waker_slot {
            use std::task::Waker;

            /// the sync `WakerSlot` is `futures_util::task::AtomicWaker`; loom ships a model of it
            pub struct WakerSlot(loom::future::AtomicWaker);

            impl std::fmt::Debug for WakerSlot {
                fn fmt(&self, f: &mut std::fmt::Formatter<'_>) -> std::fmt::Result {
                    f.write_str("WakerSlot")
                }
            }

            impl WakerSlot {
                pub fn new() -> Self {
                    Self(loom::future::AtomicWaker::new())
                }

                pub fn register(&self, w: &Waker) {
                    self.0.register_by_ref(w)
                }

                pub fn wake(&self) {
                    self.0.wake()
                }
            }
        }
    }
}

/// flume stand-in: only what asyncify.rs uses — a rendezvous channel (`bounded(0)`) with
/// `try_send`, blocking `send`, `recv_timeout`, cloneable ends. One loom Mutex + one Condvar.
pub mod shim_flume {
    use std::{collections::VecDeque, fmt, time::Duration};

    use loom::sync::{Arc, Condvar, Mutex, atomic::{AtomicBool, AtomicUsize, Ordering}};

    pub enum TrySendError<T> {
        Full(T),
        Disconnected(T),
    }

    pub struct SendError<T>(pub T);

    impl<T> fmt::Debug for SendError<T> {
        fn fmt(&self, f: &mut fmt::Formatter<'_>) -> fmt::Result {
            f.write_str("SendError(..)")
        }
    }

    #[derive(Debug)]
    pub enum RecvTimeoutError {
        Timeout,
        Disconnected,
    }

    struct Inner<T> {
        next_id: usize,
        /// receivers blocked in recv, in arrival order
        idle: VecDeque<usize>,
        /// items handed to a specific idle receiver by try_send
        assigned: Vec<(usize, T)>,
        /// items of senders blocked in `send`
        offered: VecDeque<(usize, T)>,
        /// tickets of blocked senders whose item was taken
        taken: Vec<usize>,
        /// receivers whose idle timeout has fired (they were idle when the scenario let time pass)
        timed_out: Vec<usize>,
    }

    struct Chan<T> {
        m: Mutex<Inner<T>>,
        cv: Condvar,
        /// "the idle timeout has elapsed": set by the scenario; idle receivers then time out
        time_up: AtomicBool,
        /// live `Sender`s: at zero the channel is disconnected for the receivers
        senders: AtomicUsize,
    }

    pub struct Sender<T>(Arc<Chan<T>>);
    pub struct Receiver<T>(Arc<Chan<T>>);

    impl<T> Clone for Sender<T> {
        fn clone(&self) -> Self {
            self.0.senders.fetch_add(1, Ordering::SeqCst);
            Self(self.0.clone())
        }
    }

    impl<T> Drop for Sender<T> {
        fn drop(&mut self) {
            if self.0.senders.fetch_sub(1, Ordering::SeqCst) == 1 {
                let _g = self.0.m.lock().unwrap();
                self.0.cv.notify_all();
            }
        }
    }

    impl<T> Clone for Receiver<T> {
        fn clone(&self) -> Self {
            Self(self.0.clone())
        }
    }

    impl<T> fmt::Debug for Sender<T> {
        fn fmt(&self, f: &mut fmt::Formatter<'_>) -> fmt::Result {
            f.write_str("Sender")
        }
    }

    impl<T> fmt::Debug for Receiver<T> {
        fn fmt(&self, f: &mut fmt::Formatter<'_>) -> fmt::Result {
            f.write_str("Receiver")
        }
    }

    pub fn bounded<T>(cap: usize) -> (Sender<T>, Receiver<T>) {
        assert_eq!(cap, 0, "shim_flume models the rendezvous channel only");
        let c = Arc::new(Chan {
            m: Mutex::new(Inner {
                next_id: 0,
                idle: VecDeque::new(),
                assigned: Vec::new(),
                offered: VecDeque::new(),
                taken: Vec::new(),
                timed_out: Vec::new(),
            }),
            cv: Condvar::new(),
            time_up: AtomicBool::new(false),
            senders: AtomicUsize::new(1),
        });
        (Sender(c.clone()), Receiver(c))
    }

    impl<T> Sender<T> {
        pub fn try_send(&self, v: T) -> Result<(), TrySendError<T>> {
            let mut g = self.0.m.lock().unwrap();
            match g.idle.pop_front() {
                Some(id) => {
                    g.assigned.push((id, v));
                    drop(g);
                    self.0.cv.notify_all();
                    Ok(())
                }
                None => Err(TrySendError::Full(v)),
            }
        }

        pub fn send(&self, v: T) -> Result<(), SendError<T>> {
            let mut g = self.0.m.lock().unwrap();
            // an idle receiver takes it at once
            if let Some(id) = g.idle.pop_front() {
                g.assigned.push((id, v));
                drop(g);
                self.0.cv.notify_all();
                return Ok(());
            }
            let ticket = g.next_id;
            g.next_id += 1;
            g.offered.push_back((ticket, v));
            self.0.cv.notify_all();
            loop {
                if let Some(i) = g.taken.iter().position(|t| *t == ticket) {
                    g.taken.swap_remove(i);
                    return Ok(());
                }
                g = self.0.cv.wait(g).unwrap();
            }
        }

        /// scenario control: "the idle timeout passes now" — every receiver that is blocked in
        /// recv_timeout at this moment times out (later recv calls start a fresh timeout)
        pub fn elapse_idle_timeout(&self) {
            let mut g = self.0.m.lock().unwrap();
            let ids: Vec<usize> = g.idle.drain(..).collect();
            g.timed_out.extend(ids);
            drop(g);
            self.0.cv.notify_all();
        }

        /// scenario control at the very end: nothing will be sent any more, every recv times out
        pub fn shutdown(&self) {
            self.0.time_up.store(true, Ordering::SeqCst);
            let _g = self.0.m.lock().unwrap();
            self.0.cv.notify_all();
        }
    }

    impl<T> Receiver<T> {
        /// all senders are gone (items already handed over can still be received)
        pub fn is_disconnected(&self) -> bool {
            self.0.senders.load(Ordering::SeqCst) == 0
        }

        pub fn recv_timeout(&self, _d: Duration) -> Result<T, RecvTimeoutError> {
            let mut g = self.0.m.lock().unwrap();
            let me = g.next_id;
            g.next_id += 1;
            let mut registered = false;
            loop {
                if let Some(i) = g.assigned.iter().position(|(id, _)| *id == me) {
                    let (_, v) = g.assigned.swap_remove(i);
                    return Ok(v);
                }
                if let Some((ticket, v)) = g.offered.pop_front() {
                    if registered {
                        g.idle.retain(|id| *id != me);
                    }
                    g.taken.push(ticket);
                    drop(g);
                    self.0.cv.notify_all();
                    return Ok(v);
                }
                if let Some(i) = g.timed_out.iter().position(|id| *id == me) {
                    g.timed_out.swap_remove(i);
                    return Err(RecvTimeoutError::Timeout);
                }
                if self.0.time_up.load(Ordering::SeqCst) {
                    g.idle.retain(|id| *id != me);
                    return Err(RecvTimeoutError::Timeout);
                }
                if self.0.senders.load(Ordering::SeqCst) == 0 {
                    g.idle.retain(|id| *id != me);
                    return Err(RecvTimeoutError::Disconnected);
                }
                if !registered {
                    g.idle.push_back(me);
                    registered = true;
                }
                g = self.0.cv.wait(g).unwrap();
            }
        }
    }
}
