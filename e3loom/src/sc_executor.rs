//! C03(a) / C04(b): the real compio-executor (its own cfg(loom) switch) under loom.
use std::{
    cell::{Cell, RefCell},
    future::{Future, poll_fn},
    pin::Pin,
    rc::Rc,
    sync::{
        Arc,
        atomic::{AtomicUsize, Ordering::SeqCst},
    },
    task::{Context, Poll, Wake, Waker},
};

use compio_executor::{Executor, ExecutorConfig, JoinError};
use loom::{
    sync::{Condvar, Mutex},
    thread,
};

use crate::{Scenario, ev, outcome};

/// A correct event count standing for "the runtime thread blocks in the driver"; the executor's
/// configured waker (ExecutorConfig::waker) unparks it. Any lost wake is then the executor's.
struct Parker {
    m: Mutex<bool>,
    cv: Condvar,
    /// mirrors the waker reference count on a loom atomic, so that clone/drop of the logging
    /// waker are scheduling points (as they are for loom's own block_on waker)
    rc: loom::sync::atomic::AtomicUsize,
}

impl Parker {
    fn new() -> Arc<Self> {
        Arc::new(Self {
            m: Mutex::new(false),
            cv: Condvar::new(),
            rc: loom::sync::atomic::AtomicUsize::new(0),
        })
    }

    fn park(&self) {
        let mut g = self.m.lock().unwrap();
        while !*g {
            g = self.cv.wait(g).unwrap();
        }
        *g = false;
    }
}

impl Wake for Parker {
    fn wake(self: Arc<Self>) {
        self.wake_by_ref()
    }

    fn wake_by_ref(self: &Arc<Self>) {
        *self.m.lock().unwrap() = true;
        self.cv.notify_one();
    }
}

/// block_on with an event-logging waker (clone / wake / drop are recorded) on top of `Parker`
mod logwaker {
    use std::{
        sync::Arc,
        task::{RawWaker, RawWakerVTable, Waker},
    };

    use super::Parker;
    use crate::ev;

    static VT: RawWakerVTable = RawWakerVTable::new(clone, wake, wake_by_ref, drop_w);

    unsafe fn clone(p: *const ()) -> RawWaker {
        unsafe { Arc::increment_strong_count(p as *const Parker) };
        unsafe { &*(p as *const Parker) }.rc.fetch_add(1, std::sync::atomic::Ordering::AcqRel);
        ev("B-waker:clone");
        RawWaker::new(p, &VT)
    }

    unsafe fn wake(p: *const ()) {
        ev("B-waker:wake");
        unsafe { &*(p as *const Parker) }.rc.fetch_sub(1, std::sync::atomic::Ordering::AcqRel);
        let a = unsafe { Arc::from_raw(p as *const Parker) };
        std::task::Wake::wake_by_ref(&a);
    }

    unsafe fn wake_by_ref(p: *const ()) {
        ev("B-waker:wake_by_ref");
        let a = std::mem::ManuallyDrop::new(unsafe { Arc::from_raw(p as *const Parker) });
        std::task::Wake::wake_by_ref(&*a);
    }

    unsafe fn drop_w(p: *const ()) {
        ev("B-waker:drop");
        unsafe { &*(p as *const Parker) }.rc.fetch_sub(1, std::sync::atomic::Ordering::AcqRel);
        drop(unsafe { Arc::from_raw(p as *const Parker) });
    }

    pub fn waker(p: &Arc<Parker>) -> Waker {
        unsafe { Waker::from_raw(RawWaker::new(Arc::into_raw(p.clone()) as *const (), &VT)) }
    }
}

/// like loom::future::block_on, but the waker's clone/wake/drop are logged and its reference
/// count is checked by the caller
fn block_on_logged<F: Future>(f: F) -> (F::Output, Arc<Parker>) {
    block_on_logged_n(f, 1)
}

/// `polls_before_park` > 1: after a Pending poll the future is polled again with the SAME waker
/// before the thread parks (a spurious poll, e.g. from a select whose other branch was woken)
fn block_on_logged_n<F: Future>(f: F, polls_before_park: u32) -> (F::Output, Arc<Parker>) {
    let parker = Parker::new();
    let w = logwaker::waker(&parker);
    let mut cx = Context::from_waker(&w);
    let mut f = std::pin::pin!(f);
    let out = 'outer: loop {
        for _ in 0..polls_before_park {
            ev("B:poll");
            if let Poll::Ready(v) = f.as_mut().poll(&mut cx) {
                break 'outer v;
            }
        }
        ev("B:pending->park");
        parker.park();
    };
    drop(w);
    (out, parker)
}

fn executor(parker: &Arc<Parker>, sync_queue_size: usize) -> Executor {
    Executor::with_config(ExecutorConfig {
        sync_queue_size,
        waker: Some(Waker::from(parker.clone())),
        ..Default::default()
    })
}

/// `Runtime::block_on`'s loop: tick; if nothing is runnable, block in the driver.
fn run_until(exe: &Executor, parker: &Parker, done: impl Fn() -> bool) {
    loop {
        let more = exe.tick();
        if done() {
            return;
        }
        if !more {
            parker.park();
        }
    }
}

// ------------------------------------------------------------------------------------------
// C03(a)
// ------------------------------------------------------------------------------------------

fn wake_parked(n_wakers: usize, by_ref: bool, queue: usize, rearm: bool) {
    let parker = Parker::new();
    let exe = executor(&parker, queue);
    let polls = Rc::new(Cell::new(0usize));
    let slot: Rc<RefCell<Option<Waker>>> = Rc::new(RefCell::new(None));
    let target = if rearm { 3 } else { 2 };
    let handle = exe.spawn({
        let (polls, slot) = (polls.clone(), slot.clone());
        poll_fn(move |cx| {
            polls.set(polls.get() + 1);
            *slot.borrow_mut() = Some(cx.waker().clone());
            if polls.get() >= target { Poll::Ready(()) } else { Poll::Pending }
        })
    });
    exe.tick();
    assert_eq!(polls.get(), 1, "ORACLE[first-poll] spawned task not polled by the first tick");
    let hs: Vec<_> = (0..n_wakers)
        .map(|_| {
            let w = slot.borrow().clone().unwrap();
            thread::spawn(move || if by_ref { w.wake_by_ref() } else { w.wake() })
        })
        .collect();
    // the runtime blocks unless something is runnable: a lost wake = parked forever = loom deadlock
    run_until(&exe, &parker, || polls.get() >= 2);
    if rearm {
        // task re-armed: a second, later wake must be delivered as well (not coalesced away)
        let w = slot.borrow().clone().unwrap();
        let h = thread::spawn(move || w.wake());
        run_until(&exe, &parker, || polls.get() >= 3);
        h.join().unwrap();
    }
    for h in hs {
        h.join().unwrap();
    }
    outcome(polls.get() as u32);
    drop(handle);
}

/// One thread publishes a value and wakes, `rounds` times in a row, while the runtime thread ticks
/// and parks. The task reads the published value (a scheduling point INSIDE its poll) and finishes
/// only when it has seen the last one, so a wake that lands while the task is being polled -- also
/// while it is being polled because of an earlier cross-thread wake -- must cause another poll.
fn wake_during_poll(rounds: usize, by_ref: bool, queue: usize) {
    let parker = Parker::new();
    let exe = executor(&parker, queue);
    let polls = Rc::new(Cell::new(0usize));
    let slot: Rc<RefCell<Option<Waker>>> = Rc::new(RefCell::new(None));
    let stage = Arc::new(loom::sync::atomic::AtomicUsize::new(0));
    let done = Rc::new(Cell::new(false));
    let handle = exe.spawn({
        let (polls, slot, stage, done) = (polls.clone(), slot.clone(), stage.clone(), done.clone());
        poll_fn(move |cx| {
            polls.set(polls.get() + 1);
            *slot.borrow_mut() = Some(cx.waker().clone());
            if stage.load(SeqCst) >= rounds {
                done.set(true);
                Poll::Ready(())
            } else {
                Poll::Pending
            }
        })
    });
    exe.tick();
    assert_eq!(polls.get(), 1, "ORACLE[first-poll] spawned task not polled by the first tick");
    let w = slot.borrow().clone().unwrap();
    let t = {
        let stage = stage.clone();
        thread::spawn(move || {
            for r in 1..=rounds {
                stage.store(r, SeqCst);
                if by_ref || r < rounds { w.wake_by_ref() } else { w.clone().wake() }
            }
        })
    };
    // a wake that is dropped leaves the task Pending for ever: the runtime parks = loom deadlock
    run_until(&exe, &parker, || done.get());
    t.join().unwrap();
    outcome(polls.get() as u32);
    drop(handle);
}

/// cross-thread queue of size 1 and two tasks woken from two threads: the second push finds the
/// queue full and must wait (not discard)
fn full_queue() {
    let parker = Parker::new();
    let exe = executor(&parker, 1);
    let mk = |polls: Rc<Cell<usize>>, slot: Rc<RefCell<Option<Waker>>>| {
        poll_fn(move |cx| {
            polls.set(polls.get() + 1);
            *slot.borrow_mut() = Some(cx.waker().clone());
            if polls.get() >= 2 { Poll::Ready(()) } else { Poll::Pending }
        })
    };
    let (p1, p2) = (Rc::new(Cell::new(0)), Rc::new(Cell::new(0)));
    let (s1, s2): (Rc<RefCell<Option<Waker>>>, Rc<RefCell<Option<Waker>>>) = Default::default();
    let h1 = exe.spawn(mk(p1.clone(), s1.clone()));
    let h2 = exe.spawn(mk(p2.clone(), s2.clone()));
    exe.tick();
    assert!(p1.get() == 1 && p2.get() == 1, "ORACLE[first-poll] tasks not polled by the first tick");
    let (w1, w2) = (s1.borrow().clone().unwrap(), s2.borrow().clone().unwrap());
    let t1 = thread::spawn(move || w1.wake());
    let t2 = thread::spawn(move || w2.wake());
    run_until(&exe, &parker, || p1.get() >= 2 && p2.get() >= 2);
    t1.join().unwrap();
    t2.join().unwrap();
    outcome(1);
    drop((h1, h2));
}

// ------------------------------------------------------------------------------------------
// C04(b)
// ------------------------------------------------------------------------------------------

static FUT_DROPS: AtomicUsize = AtomicUsize::new(0);
static OUT_DROPS: AtomicUsize = AtomicUsize::new(0);
static POLLS_AFTER_DONE: AtomicUsize = AtomicUsize::new(0);

fn reset() {
    FUT_DROPS.store(0, SeqCst);
    OUT_DROPS.store(0, SeqCst);
    POLLS_AFTER_DONE.store(0, SeqCst);
}

/// task output: counts its drops
struct Token(#[allow(dead_code)] u32);

impl Drop for Token {
    fn drop(&mut self) {
        OUT_DROPS.fetch_add(1, SeqCst);
    }
}

/// task future: every poll and the drop touch a loom cell, so loom reports any poll/drop that is
/// not ordered after the previous access (i.e. off the home thread without synchronisation)
struct Tracked {
    cell: loom::cell::UnsafeCell<u32>,
    yields: u32,
    done: bool,
    external: Option<Arc<std::sync::Mutex<Option<Waker>>>>,
}

impl Tracked {
    fn new(yields: u32) -> Self {
        Self {
            cell: loom::cell::UnsafeCell::new(0),
            yields,
            done: false,
            external: None,
        }
    }
}

impl Future for Tracked {
    type Output = Token;

    fn poll(self: Pin<&mut Self>, cx: &mut Context<'_>) -> Poll<Token> {
        let this = unsafe { self.get_unchecked_mut() };
        if this.done {
            POLLS_AFTER_DONE.fetch_add(1, SeqCst);
        }
        ev(format!("task-poll(yields_left={})", this.yields));
        this.cell.with_mut(|p| unsafe { *p += 1 });
        if let Some(ext) = &this.external {
            *ext.lock().unwrap() = Some(cx.waker().clone());
        }
        if this.yields == 0 {
            this.done = true;
            Poll::Ready(Token(7))
        } else {
            this.yields -= 1;
            if this.external.is_none() {
                cx.waker().wake_by_ref();
            }
            Poll::Pending
        }
    }
}

impl Drop for Tracked {
    fn drop(&mut self) {
        self.cell.with_mut(|p| unsafe { *p += 1 });
        ev("task-future-dropped");
        FUT_DROPS.fetch_add(1, SeqCst);
    }
}

fn check_counts(what: &str, out_expected: usize) {
    assert_eq!(FUT_DROPS.load(SeqCst), 1, "ORACLE[future-drop-count] {what}: future dropped {} times", FUT_DROPS.load(SeqCst));
    assert_eq!(POLLS_AFTER_DONE.load(SeqCst), 0, "ORACLE[poll-after-finish] {what}");
    assert_eq!(OUT_DROPS.load(SeqCst), out_expected, "ORACLE[output-drop-count] {what}: output dropped {} times, expected {out_expected}", OUT_DROPS.load(SeqCst));
}

/// the handle is awaited on another thread (real waker = loom park/unpark) while the home thread
/// runs the task to completion
/// poll in a loop without ever sleeping (a handle may be polled at any time, e.g. from a select)
fn busy_poll<F: Future>(f: F) -> (F::Output, Arc<Parker>) {
    let parker = Parker::new();
    let w = logwaker::waker(&parker);
    let mut cx = Context::from_waker(&w);
    let mut f = std::pin::pin!(f);
    let out = loop {
        ev("B:poll");
        if let Poll::Ready(v) = f.as_mut().poll(&mut cx) {
            break v;
        }
        thread::yield_now();
    };
    drop(w);
    (out, parker)
}

fn join_remote(yields: u32, busy: bool) {
    join_remote_n(yields, busy, 1)
}

fn join_remote_n(yields: u32, busy: bool, polls_before_park: u32) {
    reset();
    let exe = Executor::new();
    let handle = exe.spawn(Tracked::new(yields));
    let t = thread::spawn(move || {
        ev("B:await-handle");
        let (r, parker) = if busy { busy_poll(handle) } else { block_on_logged_n(handle, polls_before_park) };
        let ok = matches!(r, Ok(Token(7)));
        ev(format!("B:joined ok={ok}"));
        drop(r);
        (ok, parker)
    });
    loop {
        let more = exe.tick();
        ev(format!("A:tick->{more}"));
        if !more {
            break;
        }
        thread::yield_now();
    }
    let (ok, parker) = t.join().unwrap();
    ev("A:joined-B");
    assert!(ok, "ORACLE[join-result] remote join did not receive the task's output");
    drop(exe);
    check_counts("remote join", 1);
    // observation (not part of C04's statement): a clone of the handle's waker that is never dropped
    outcome(if Arc::strong_count(&parker) == 1 { 0 } else { 7 });
}

/// the handle is dropped on another thread while the home thread runs the task
fn drop_handle_remote(yields: u32) {
    reset();
    let exe = Executor::new();
    let handle = exe.spawn(Tracked::new(yields));
    let t = thread::spawn(move || drop(handle));
    while exe.has_task() {
        exe.tick();
        thread::yield_now();
    }
    t.join().unwrap();
    // a cross-thread cancellation is delivered through the sync queue: drain it
    for _ in 0..3 {
        exe.tick();
    }
    drop(exe);
    let outs = OUT_DROPS.load(SeqCst);
    assert!(outs <= 1, "ORACLE[output-drop-count] output dropped {outs} times");
    assert_eq!(FUT_DROPS.load(SeqCst), 1, "ORACLE[future-drop-count] future dropped {} times", FUT_DROPS.load(SeqCst));
    assert_eq!(POLLS_AFTER_DONE.load(SeqCst), 0, "ORACLE[poll-after-finish] remote handle drop");
    outcome(1 + outs as u32);
}

/// `cancel().await` on another thread
fn cancel_remote() {
    reset();
    let exe = Executor::new();
    let handle = exe.spawn(Tracked::new(1));
    let t = thread::spawn(move || {
        let r = block_on_logged(handle.cancel()).0;
        let some = r.is_some();
        drop(r);
        some
    });
    for _ in 0..6 {
        exe.tick();
        thread::yield_now();
    }
    while exe.has_task() {
        exe.tick();
        thread::yield_now();
    }
    let got = t.join().unwrap();
    drop(exe);
    check_counts("remote cancel", if got { 1 } else { OUT_DROPS.load(SeqCst).min(1) });
    outcome(if got { 3 } else { 4 });
}

/// a waker of the task is used on another thread while the home thread drops the executor
fn waker_vs_executor_drop(by_ref: bool) {
    reset();
    let exe = Executor::new();
    let ext: Arc<std::sync::Mutex<Option<Waker>>> = Default::default();
    let mut fut = Tracked::new(1);
    fut.external = Some(ext.clone());
    let handle = exe.spawn(fut);
    exe.tick();
    let w = ext.lock().unwrap().take().expect("task stored its waker");
    let t = thread::spawn(move || {
        if by_ref {
            w.wake_by_ref();
            drop(w);
        } else {
            w.wake();
        }
    });
    drop(exe);
    t.join().unwrap();
    // the handle outlives the executor: it must report cancellation, not hang or crash
    let r = block_on_logged(handle).0;
    assert!(matches!(r, Err(JoinError::Cancelled)), "ORACLE[join-after-drop] handle of a task dropped with the executor must report cancellation");
    drop(r);
    drop(ext);
    check_counts("waker vs executor drop", 0);
    outcome(5);
}

/// the output is taken on another thread while the home thread drops the executor right after
/// completion
fn take_result_vs_executor_drop() {
    reset();
    let exe = Executor::new();
    let handle = exe.spawn(Tracked::new(0));
    let t = thread::spawn(move || {
        let r = block_on_logged(handle).0;
        let ok = r.is_ok();
        drop(r);
        ok
    });
    exe.tick();
    drop(exe);
    let ok = t.join().unwrap();
    assert!(ok, "ORACLE[join-result] completed task's output must reach the remote join handle");
    check_counts("remote take vs executor drop", 1);
    outcome(6);
}

pub fn scenarios() -> Vec<Scenario> {
    vec![
        Scenario { name: "ex_wake1_val_q2", property: "C03", about: "one thread calls wake() while the runtime thread ticks and parks", run: || wake_parked(1, false, 2, false), thorough_only: false, heavy: false },
        Scenario { name: "ex_wake1_ref_q2", property: "C03", about: "one thread calls wake_by_ref() while the runtime thread ticks and parks", run: || wake_parked(1, true, 2, false), thorough_only: false, heavy: false },
        Scenario { name: "ex_wake2_val_q2", property: "C03", about: "two threads wake the same task concurrently (coalescing), runtime parks", run: || wake_parked(2, false, 2, false), thorough_only: false, heavy: false },
        Scenario { name: "ex_wake2_val_q1", property: "C03", about: "two threads wake the same task, cross-thread queue of size 1", run: || wake_parked(2, false, 1, false), thorough_only: false, heavy: false },
        Scenario { name: "ex_wake1_rearm_q1", property: "C03", about: "wake, task re-arms, a second wake from another thread must also be delivered", run: || wake_parked(1, false, 1, true), thorough_only: false, heavy: false },
        Scenario { name: "ex_wake2_rearm_q2", property: "C03", about: "two concurrent wakes, re-arm, third wake", run: || wake_parked(2, false, 2, true), thorough_only: true, heavy: false },
        Scenario { name: "ex_wake_during_poll2_q2", property: "C03", about: "one thread publishes+wakes twice in a row; the second wake may land while the task is polled because of the first", run: || wake_during_poll(2, true, 2), thorough_only: false, heavy: false },
        Scenario { name: "ex_wake_during_poll2_q1", property: "C03", about: "same, cross-thread queue of size 1, last wake by value", run: || wake_during_poll(2, false, 1), thorough_only: false, heavy: false },
        Scenario { name: "ex_wake_during_poll3_q1", property: "C03", about: "three publish+wake rounds, queue of size 1", run: || wake_during_poll(3, true, 1), thorough_only: true, heavy: false },
        Scenario { name: "ex_full_queue", property: "C03", about: "two tasks woken from two threads with a cross-thread queue of size 1 (full-queue branch)", run: full_queue, thorough_only: false, heavy: false },
        Scenario { name: "jh_join_remote_y0", property: "C04", about: "handle awaited on another thread while the task completes at its first poll", run: || join_remote(0, false), thorough_only: false, heavy: false },
        Scenario { name: "jh_join_remote_y1", property: "C04", about: "handle awaited on another thread, task yields once", run: || join_remote(1, false), thorough_only: false, heavy: false },
        Scenario { name: "jh_join_remote_repoll_y0", property: "C04", about: "handle polled twice with the same waker before parking (spurious re-poll) while the task completes at its first poll", run: || join_remote_n(0, false, 2), thorough_only: false, heavy: false },
        Scenario { name: "jh_join_remote_repoll_y1", property: "C04", about: "same, task yields once", run: || join_remote_n(1, false, 2), thorough_only: false, heavy: false },
        Scenario { name: "jh_join_remote_busy_y1", property: "C04", about: "handle polled in a loop (never sleeping) on another thread, task yields once", run: || join_remote(1, true), thorough_only: false, heavy: false },
        Scenario { name: "jh_drop_remote_y0", property: "C04", about: "handle dropped on another thread racing the first poll", run: || drop_handle_remote(0), thorough_only: false, heavy: false },
        Scenario { name: "jh_drop_remote_y1", property: "C04", about: "handle dropped on another thread, task yields once", run: || drop_handle_remote(1), thorough_only: false, heavy: false },
        Scenario { name: "jh_cancel_remote", property: "C04", about: "cancel().await on another thread", run: cancel_remote, thorough_only: false, heavy: false },
        Scenario { name: "waker_val_vs_exec_drop", property: "C04", about: "wake() on another thread while the executor is dropped", run: || waker_vs_executor_drop(false), thorough_only: false, heavy: false },
        Scenario { name: "waker_ref_vs_exec_drop", property: "C04", about: "wake_by_ref()+drop on another thread while the executor is dropped", run: || waker_vs_executor_drop(true), thorough_only: false, heavy: false },
        Scenario { name: "take_result_vs_exec_drop", property: "C04", about: "output taken remotely while the executor is dropped after completion", run: take_result_vs_executor_drop, thorough_only: false, heavy: false },
    ]
}
