//! E3 — loom over the repository's own source (DESIGN.md §0, §2 C03/C04/C06/C17).
//!
//! `e3loom <ID> <tier>`: parent mode — runs every scenario of the property in a sub-process
//! (a loom failure may abort) and maps the outcome to violations.
//! `e3loom --scenario <name> <preemption_bound>`: child mode — one `loom::model`.
#![cfg(loom)]

mod shims;
#[allow(unused_imports)]
pub use std::os::fd::{AsFd, AsRawFd, BorrowedFd, RawFd};

mod sc_executor;
mod sc_fd;
mod sc_pool;

use std::{
    io::Read,
    process::{Command, Stdio},
    sync::atomic::{AtomicU64, Ordering},
    time::{Duration, Instant},
};

use vcore::{Report, Tier, Violation, json};

pub static ITER: AtomicU64 = AtomicU64::new(0);
/// distinct terminal observations of a scenario (bitmask set by the scenario bodies)
pub static OUTCOMES: AtomicU64 = AtomicU64::new(0);

/// per-iteration event log written by scenario bodies; dumped when the iteration fails, so that a
/// failure comes with the observed order of harness-visible events
pub static EVENTS: std::sync::Mutex<Vec<String>> = std::sync::Mutex::new(Vec::new());

pub fn ev(s: impl Into<String>) {
    if let Ok(mut g) = EVENTS.lock() {
        g.push(s.into());
    }
}

pub fn outcome(bit: u32) {
    OUTCOMES.fetch_or(1 << bit, Ordering::Relaxed);
}

pub struct Scenario {
    pub name: &'static str,
    pub property: &'static str,
    pub about: &'static str,
    pub run: fn(),
    pub thorough_only: bool,
    /// many threads / blocking operations: explored with preemption bound - 1
    pub heavy: bool,
}

fn scenarios() -> Vec<Scenario> {
    let mut v = Vec::new();
    v.extend(sc_executor::scenarios());
    v.extend(sc_fd::scenarios());
    v.extend(sc_pool::scenarios());
    v
}

fn child(name: &str, bound: usize) -> ! {
    let all = scenarios();
    let Some(sc) = all.iter().find(|s| s.name == name) else {
        eprintln!("unknown scenario {name}");
        std::process::exit(2);
    };
    let mut b = loom::model::Builder::new();
    b.preemption_bound = Some(bound);
    b.max_branches = 200_000;
    if let Ok(s) = std::env::var("E3_MAX_DURATION_S") {
        b.max_duration = Some(Duration::from_secs(s.parse().unwrap_or(60)));
    }
    let run = sc.run;
    let prev = std::panic::take_hook();
    std::panic::set_hook(Box::new(move |info| {
        if let Ok(g) = EVENTS.try_lock() {
            if !g.is_empty() {
                eprintln!("EVENTS(iteration {}): {}", ITER.load(Ordering::Relaxed), g.join(" ; "));
            }
        }
        prev(info);
    }));
    b.check(move || {
        ITER.fetch_add(1, Ordering::Relaxed);
        if let Ok(mut g) = EVENTS.lock() {
            g.clear();
        }
        run();
    });
    println!("ITERATIONS {} OUTCOMES {:#x}", ITER.load(Ordering::Relaxed), OUTCOMES.load(Ordering::Relaxed));
    std::process::exit(0)
}

fn main() {
    let argv: Vec<String> = std::env::args().collect();
    if argv.len() >= 4 && argv[1] == "--scenario" {
        child(&argv[2], argv[3].parse().unwrap());
    }
    let args = vcore::parse_args();
    let rep = Report::new(&args.property, args.tier);
    let bound: usize = args.tier.pick(2, 3);
    let per_scenario_cap_s: u64 = args.tier.pick(40, 480);
    let list: Vec<Scenario> = scenarios()
        .into_iter()
        .filter(|s| s.property == args.property && (!s.thorough_only || args.tier == Tier::Thorough))
        .collect();
    if list.is_empty() {
        vcore::machinery_error(&format!("e3loom has no scenario for {}", args.property));
    }
    let exe = std::env::current_exe().unwrap();
    let results: std::sync::Mutex<Vec<serde_json_value::V>> = Default::default();
    vcore::par_for_each(&list, |_, sc| {
        let t0 = Instant::now();
        let mut cmd = Command::new(&exe);
        let bound = if sc.heavy { bound - 1 } else { bound };
        cmd.arg("--scenario").arg(sc.name).arg(bound.to_string());
        cmd.env("E3_MAX_DURATION_S", per_scenario_cap_s.to_string());
        cmd.env("RUST_BACKTRACE", "0");
        cmd.stdout(Stdio::piped()).stderr(Stdio::piped());
        let mut ch = cmd.spawn().expect("spawn scenario");
        let mut out = String::new();
        let mut err = String::new();
        // read stderr on a helper thread to avoid pipe deadlock
        let mut se = ch.stderr.take().unwrap();
        let h = std::thread::spawn(move || {
            let mut s = String::new();
            let _ = se.read_to_string(&mut s);
            s
        });
        let _ = ch.stdout.take().unwrap().read_to_string(&mut out);
        let st = ch.wait().unwrap();
        err.push_str(&h.join().unwrap());
        let wall = t0.elapsed().as_secs_f64();
        let iters: u64 = out
            .lines()
            .find_map(|l| l.strip_prefix("ITERATIONS "))
            .and_then(|l| l.split_whitespace().next().and_then(|x| x.parse().ok()))
            .unwrap_or(0);
        let outcomes: u64 = out
            .lines()
            .find_map(|l| l.split("OUTCOMES ").nth(1))
            .and_then(|x| u64::from_str_radix(x.trim().trim_start_matches("0x"), 16).ok())
            .unwrap_or(0);
        if st.success() {
            rep.add_states(iters);
            rep.evaluations.fetch_add(iters, Ordering::Relaxed);
            rep.traces_validated.fetch_add(iters, Ordering::Relaxed);
            rep.add_transitions(iters);
            for b in 0..64 {
                if outcomes & (1 << b) != 0 {
                    rep.outcome(format!("{}#{}", sc.name, b));
                }
            }
            rep.outcome(format!("{}#done", sc.name));
            if err.contains("exceeded the maximum duration") || out.contains("exceeded") {
                rep.cap_hit(&format!("{}: loom max_duration {}s reached after {} interleavings", sc.name, per_scenario_cap_s, iters));
            }
            results.lock().unwrap().push(serde_json_value::V(json!({"scenario": sc.name, "about": sc.about, "interleavings": iters, "wall_s": wall, "preemption_bound": bound})));
        } else {
            // classify
            let msg: String = err.lines().filter(|l| !l.trim().is_empty()).take(40).collect::<Vec<_>>().join(" | ");
            let kind = if let Some(i) = err.find("ORACLE[") {
                let rest = &err[i + 7..];
                rest.split(']').next().unwrap_or("oracle").to_string()
            } else if err.contains("deadlock") {
                "deadlock".to_string()
            } else if err.contains("Causality violation") || err.contains("causality") {
                "data-race".to_string()
            } else if err.contains("Model exceeded maximum number of branches") {
                "livelock-max-branches".to_string()
            } else if err.contains("leaked") {
                "leak".to_string()
            } else {
                "panic".to_string()
            };
            rep.add_states(1);
            rep.evaluations.fetch_add(1, Ordering::Relaxed);
            rep.violation(Violation {
                key: format!("{}:{}", sc.name, kind),
                what: format!("loom scenario {} ({}), preemption bound {bound}: {}", sc.name, sc.about, msg.chars().take(1500).collect::<String>()),
                replay: json!({"engine":"e3loom","scenario":sc.name,"preemption_bound":bound,"cmd":format!("RUSTFLAGS='--cfg loom' .target/loom/release/e3loom --scenario {} {}", sc.name, bound)}),
            });
        }
    });
    let r: Vec<vcore::Value> = results.into_inner().unwrap().into_iter().map(|v| v.0).collect();
    rep.extra("scenarios", json!(r));
    rep.extra("bounds", json!({"preemption_bound": bound, "per_scenario_wall_cap_s": per_scenario_cap_s, "loom_max_branches": 200000}));
    rep.rule("loom explores every interleaving (and the weak-memory behaviours it models for the orderings in the code) of each closed scenario up to the preemption bound; one 'state' = one complete interleaving; distinct outcomes = terminal observation classes reported by the scenario bodies");
    rep.sample(1, || json!(r.first().cloned().unwrap_or(json!("none"))));
    rep.assume("crossbeam_queue::ArrayQueue, flume and synchrony internals are dependencies: modelled as linearizable (ArrayQueue stays on std atomics under cfg(loom), loom sees each push/pop as one step without happens-before)");
    rep.assume("shims (shim_std/shim_flume/shim_synchrony) faithfully stand in for the re-bound crates");
    rep.finish();
}

mod serde_json_value {
    pub struct V(pub vcore::Value);
    unsafe impl Send for V {}
}
