//! vcore — shared core of the compio model-checking machinery.
//!
//! * [`Chooser`] / [`explore`]: stateless depth-first exploration with an explicit choice stack,
//!   prefix replay and a deviation bound (a "deviation" is a departure from the default
//!   environment answer, or a preemption-like step, see DESIGN.md §0).
//! * [`Report`]: evidence writer, violation collection, known-findings matching, exit codes.
//! * [`par_for_each`]: work splitting over OS threads.
//!
//! Exit-code contract (see DESIGN.md §3): 0 = property held on everything explored (known findings
//! are printed as `KNOWN-FINDING:` lines), 1 = at least one violation not listed as known
//! (`VIOLATION property=<id> replay=<path>`), 2 = machinery failure.

use std::{
    collections::{BTreeMap, BTreeSet},
    path::PathBuf,
    sync::{
        Mutex,
        atomic::{AtomicU64, AtomicUsize, Ordering},
    },
    time::Instant,
};

pub use serde_json::{self, Value, json};

// ---------------------------------------------------------------------------------------------
// Choice stack explorer
// ---------------------------------------------------------------------------------------------

#[derive(Clone, Copy, Debug, PartialEq, Eq)]
pub struct Point {
    pub chosen: u32,
    /// number of alternatives that were *available* (after applying the deviation budget)
    pub n: u32,
    /// true if alternatives > 0 of this point cost one deviation
    pub dev: bool,
}

/// One execution's source of choices.
pub struct Chooser {
    prefix: Vec<u32>,
    pub trace: Vec<Point>,
    pub deviations: u32,
    bound: u32,
}

impl Chooser {
    pub fn new(prefix: Vec<u32>, bound: u32) -> Self {
        Self {
            prefix,
            trace: Vec::new(),
            deviations: 0,
            bound,
        }
    }

    /// A replay-only chooser: follows `choices` exactly, deviation budget unlimited.
    pub fn replay(choices: Vec<u32>) -> Self {
        Self::new(choices, u32::MAX)
    }

    fn take(&mut self, n: usize, dev: bool) -> usize {
        assert!(n >= 1, "choice point with no alternatives");
        let eff = if dev && self.deviations >= self.bound {
            1
        } else {
            n as u32
        };
        let pos = self.trace.len();
        let c = if pos < self.prefix.len() {
            let c = self.prefix[pos];
            if c >= eff {
                machinery_error(&format!(
                    "replay divergence: choice {c} out of range {eff} at point {pos} (prefix {:?})",
                    self.prefix
                ));
            }
            c
        } else {
            0
        };
        if dev && c != 0 {
            self.deviations += 1;
        }
        self.trace.push(Point {
            chosen: c,
            n: eff,
            dev,
        });
        c as usize
    }

    /// Free choice among `n` alternatives; none costs a deviation.
    pub fn pick(&mut self, n: usize) -> usize {
        self.take(n, false)
    }

    /// Choice whose alternative 0 is the default; any other alternative costs one deviation.
    pub fn deviate(&mut self, n: usize) -> usize {
        self.take(n, true)
    }

    pub fn choices(&self) -> Vec<u32> {
        self.trace.iter().map(|p| p.chosen).collect()
    }

    /// True if every point of the prefix was consumed (guards against stale replays).
    pub fn prefix_consumed(&self) -> bool {
        self.trace.len() >= self.prefix.len()
    }
}

/// Compute the next prefix in depth-first order, or `None` when the space is exhausted.
pub fn next_prefix(trace: &[Point]) -> Option<Vec<u32>> {
    let mut i = trace.len();
    while i > 0 {
        i -= 1;
        let p = trace[i];
        if p.chosen + 1 < p.n {
            let mut v: Vec<u32> = trace[..i].iter().map(|p| p.chosen).collect();
            v.push(p.chosen + 1);
            return Some(v);
        }
    }
    None
}

#[derive(Default, Debug, Clone)]
pub struct ExploreStats {
    pub executions: u64,
    pub points: u64,
    pub max_depth: usize,
    pub capped: bool,
}

/// Exhaustive DFS over all executions of `f` with at most `bound` deviations.
/// `f` returns `false` to abort the whole exploration (e.g. cap hit).
pub fn explore(bound: u32, cap: u64, mut f: impl FnMut(&mut Chooser) -> bool) -> ExploreStats {
    let mut st = ExploreStats::default();
    let mut prefix = Vec::new();
    loop {
        let mut ch = Chooser::new(prefix, bound);
        let go_on = f(&mut ch);
        if !ch.prefix_consumed() {
            machinery_error("replay divergence: execution ended before its prefix was consumed");
        }
        st.executions += 1;
        st.points += ch.trace.len() as u64;
        st.max_depth = st.max_depth.max(ch.trace.len());
        if !go_on || st.executions >= cap {
            st.capped = !go_on || next_prefix(&ch.trace).is_some();
            return st;
        }
        match next_prefix(&ch.trace) {
            Some(p) => prefix = p,
            None => return st,
        }
    }
}

// ---------------------------------------------------------------------------------------------
// Parallel helper
// ---------------------------------------------------------------------------------------------

pub fn threads() -> usize {
    std::env::var("VERIF_THREADS")
        .ok()
        .and_then(|s| s.parse().ok())
        .unwrap_or_else(|| {
            std::thread::available_parallelism()
                .map(|n| n.get())
                .unwrap_or(4)
        })
}

/// Runs `f(index, &item)` for every item on `threads()` OS threads (dynamic work queue).
pub fn par_for_each<T: Sync>(items: &[T], f: impl Fn(usize, &T) + Sync) {
    par_for_each_n(items, threads(), f)
}

pub fn par_for_each_n<T: Sync>(items: &[T], n: usize, f: impl Fn(usize, &T) + Sync) {
    let next = AtomicUsize::new(0);
    let n = n.max(1).min(items.len().max(1));
    std::thread::scope(|s| {
        for _ in 0..n {
            s.spawn(|| {
                loop {
                    let i = next.fetch_add(1, Ordering::Relaxed);
                    if i >= items.len() {
                        break;
                    }
                    f(i, &items[i]);
                }
            });
        }
    });
}

// ---------------------------------------------------------------------------------------------
// Report
// ---------------------------------------------------------------------------------------------

pub fn machinery_error(msg: &str) -> ! {
    eprintln!("MACHINERY-ERROR: {msg}");
    std::process::exit(2)
}

pub fn verif_root() -> PathBuf {
    std::env::var_os("VERIF_ROOT")
        .map(PathBuf::from)
        .unwrap_or_else(|| PathBuf::from("/verif"))
}

#[derive(Clone, Copy, PartialEq, Eq, Debug)]
pub enum Tier {
    Quick,
    Thorough,
}

impl Tier {
    pub fn parse(s: &str) -> Tier {
        match s {
            "quick" => Tier::Quick,
            "thorough" => Tier::Thorough,
            _ => machinery_error(&format!("unknown tier {s}")),
        }
    }

    pub fn name(self) -> &'static str {
        match self {
            Tier::Quick => "quick",
            Tier::Thorough => "thorough",
        }
    }

    pub fn pick<T>(self, quick: T, thorough: T) -> T {
        match self {
            Tier::Quick => quick,
            Tier::Thorough => thorough,
        }
    }
}

#[derive(Clone, Debug)]
pub struct Violation {
    /// canonical class of the failure (scenario + oracle + canonical input class); known-findings
    /// entries are matched against this
    pub key: String,
    pub what: String,
    /// everything needed to re-run exactly this execution
    pub replay: Value,
}

struct VioEntry {
    first: Violation,
    count: u64,
}

/// Thread-safe collector for one check run.
pub struct Report {
    pub property: String,
    pub tier: Tier,
    pub level: &'static str,
    start: Instant,
    pub states: AtomicU64,
    pub transitions: AtomicU64,
    pub evaluations: AtomicU64,
    pub traces_validated: AtomicU64,
    nsamples: AtomicU64,
    inner: Mutex<Inner>,
}

#[derive(Default)]
struct Inner {
    outcomes: BTreeSet<String>,
    samples: Vec<Value>,
    violations: BTreeMap<String, VioEntry>,
    assumptions: Vec<String>,
    extra: BTreeMap<String, Value>,
    reached: BTreeMap<String, u64>,
    must_reach: Vec<String>,
    caps: Vec<String>,
    rule: String,
    exhaustive: bool,
}

impl Report {
    pub fn new(property: &str, tier: Tier) -> Self {
        Self {
            property: property.to_string(),
            tier,
            level: "model_checking",
            start: Instant::now(),
            states: AtomicU64::new(0),
            transitions: AtomicU64::new(0),
            evaluations: AtomicU64::new(0),
            traces_validated: AtomicU64::new(0),
            nsamples: AtomicU64::new(0),
            inner: Mutex::new(Inner {
                exhaustive: true,
                ..Default::default()
            }),
        }
    }

    pub fn elapsed(&self) -> f64 {
        self.start.elapsed().as_secs_f64()
    }

    pub fn add_states(&self, n: u64) {
        self.states.fetch_add(n, Ordering::Relaxed);
    }

    pub fn add_transitions(&self, n: u64) {
        self.transitions.fetch_add(n, Ordering::Relaxed);
    }

    /// one complete execution of real code, checked against the oracle
    pub fn add_execution(&self, transitions: u64) {
        self.evaluations.fetch_add(1, Ordering::Relaxed);
        self.traces_validated.fetch_add(1, Ordering::Relaxed);
        self.transitions.fetch_add(transitions, Ordering::Relaxed);
    }

    pub fn outcome(&self, o: impl Into<String>) {
        let o = o.into();
        // per-thread filter so that the global lock is taken once per (thread, outcome)
        thread_local! { static SEEN: std::cell::RefCell<std::collections::HashSet<u64>> = Default::default(); }
        let h = fnv(o.as_bytes());
        if !SEEN.with(|s| s.borrow_mut().insert(h)) {
            return;
        }
        let mut g = self.inner.lock().unwrap();
        if g.outcomes.len() < 100_000 {
            g.outcomes.insert(o);
        }
    }

    pub fn outcomes_len(&self) -> usize {
        self.inner.lock().unwrap().outcomes.len()
    }

    /// keep at most `max` samples in total
    pub fn sample(&self, max: usize, v: impl FnOnce() -> Value) {
        if self.nsamples.load(Ordering::Relaxed) >= max as u64 {
            return;
        }
        self.nsamples.fetch_add(1, Ordering::Relaxed);
        let mut g = self.inner.lock().unwrap();
        if g.samples.len() < max {
            let v = v();
            g.samples.push(v);
        }
    }

    pub fn assume(&self, s: &str) {
        let mut g = self.inner.lock().unwrap();
        if !g.assumptions.iter().any(|a| a == s) {
            g.assumptions.push(s.to_string());
        }
    }

    pub fn rule(&self, s: &str) {
        self.inner.lock().unwrap().rule = s.to_string();
    }

    pub fn extra(&self, k: &str, v: Value) {
        self.inner.lock().unwrap().extra.insert(k.to_string(), v);
    }

    /// add to a numeric extra counter
    pub fn count(&self, k: &str, n: u64) {
        let mut g = self.inner.lock().unwrap();
        *g.reached.entry(k.to_string()).or_insert(0) += n;
    }

    /// declare an event that must be reached at least once, else the run is vacuous (exit 2)
    pub fn must_reach(&self, k: &str) {
        let mut g = self.inner.lock().unwrap();
        g.must_reach.push(k.to_string());
        g.reached.entry(k.to_string()).or_insert(0);
    }

    pub fn cap_hit(&self, what: &str) {
        let mut g = self.inner.lock().unwrap();
        g.exhaustive = false;
        g.caps.push(what.to_string());
    }

    pub fn violation(&self, v: Violation) {
        let mut g = self.inner.lock().unwrap();
        match g.violations.get_mut(&v.key) {
            Some(e) => e.count += 1,
            None => {
                g.violations.insert(v.key.clone(), VioEntry { first: v, count: 1 });
            }
        }
    }

    pub fn violation_count(&self) -> usize {
        self.inner.lock().unwrap().violations.len()
    }

    /// Writes evidence, prints VIOLATION / KNOWN-FINDING lines, exits.
    pub fn finish(self) -> ! {
        let wall = self.elapsed();
        let root = verif_root();
        let g = self.inner.into_inner().unwrap();
        let known = load_known(&root, &self.property);

        let mut unlisted = 0usize;
        let mut known_hit = Vec::new();
        let mut vio_summ = Vec::new();
        let mut known_groups: BTreeMap<String, (String, u64, u64, String)> = BTreeMap::new();
        let _ = std::fs::create_dir_all(root.join("replays"));
        for (key, e) in &g.violations {
            let matched = known
                .iter()
                .find(|k| k.status == "known" && glob_match(&k.key, key));
            if let Some(k) = matched {
                let ent = known_groups.entry(k.key.clone()).or_insert((k.what.clone(), 0u64, 0u64, key.clone()));
                ent.1 += 1;
                ent.2 += e.count;
                known_hit.push(key.clone());
                vio_summ.push(json!({"key": key, "known": true, "count": e.count, "what": e.first.what}));
            } else {
                unlisted += 1;
                let h = fnv(key.as_bytes());
                let path = root
                    .join("replays")
                    .join(format!("{}-{:016x}.json", self.property, h));
                let body = json!({
                    "property": self.property,
                    "key": key,
                    "what": e.first.what,
                    "occurrences": e.count,
                    "replay": e.first.replay,
                });
                if let Err(err) = std::fs::write(&path, serde_json::to_vec_pretty(&body).unwrap()) {
                    eprintln!("could not write replay file {path:?}: {err}");
                }
                println!("violation detail: key={key} what={}", e.first.what);
                println!(
                    "VIOLATION property={} replay={}",
                    self.property,
                    path.display()
                );
                vio_summ.push(json!({"key": key, "known": false, "count": e.count, "what": e.first.what}));
            }
        }

        for (pat, (what, nkeys, occ, example)) in &known_groups {
            println!(
                "KNOWN-FINDING: property={} {} [finding={} matched_keys={} occurrences={} e.g. {}]",
                self.property, what, pat, nkeys, occ, example
            );
        }

        // vacuity guards
        let mut vacuous = Vec::new();
        for k in &g.must_reach {
            if g.reached.get(k).copied().unwrap_or(0) == 0 {
                if g.exhaustive {
                    vacuous.push(format!("must-reach event never reached: {k}"));
                } else {
                    // a capped run cannot be expected to reach everything: say so, do not fail
                    eprintln!("note: capped run did not reach must-reach event {k}");
                }
            }
        }
        let evals = self.evaluations.load(Ordering::Relaxed);
        let states = self.states.load(Ordering::Relaxed).max(evals);
        let transitions = self.transitions.load(Ordering::Relaxed);
        if evals == 0 {
            vacuous.push("no executions".into());
        }
        if g.outcomes.len() + known_groups.len() < 2 && unlisted == 0 {
            vacuous.push(format!("only {} distinct outcome(s) observed", g.outcomes.len()));
        }

        let mut coverage = serde_json::Map::new();
        coverage.insert("states".into(), json!(states.max(1)));
        coverage.insert("transitions".into(), json!(transitions.max(1)));
        coverage.insert(
            "traces_validated_against_impl".into(),
            json!(self.traces_validated.load(Ordering::Relaxed)),
        );
        coverage.insert("evaluations".into(), json!(evals.max(1)));
        coverage.insert("distinct_nontrivial".into(), json!(g.outcomes.len().max(0)));
        coverage.insert(
            "rule".into(),
            json!(if g.rule.is_empty() {
                "executions enumerated exhaustively within the stated bounds; distinct_nontrivial = number of distinct observation signatures (outcome classes) seen".to_string()
            } else {
                g.rule.clone()
            }),
        );
        let samples = if g.samples.is_empty() {
            vec![json!("(no sample recorded)")]
        } else {
            g.samples.clone()
        };
        coverage.insert("samples".into(), json!(samples));
        coverage.insert("exhaustive".into(), json!(g.exhaustive));
        coverage.insert("caps_hit".into(), json!(g.caps));
        coverage.insert("counters".into(), json!(g.reached));
        coverage.insert("violations_detail".into(), json!(vio_summ));
        for (k, v) in &g.extra {
            coverage.insert(k.clone(), v.clone());
        }
        let seed: i64 = std::env::var("VERIF_SEED")
            .ok()
            .and_then(|s| s.parse().ok())
            .unwrap_or(0);
        let mut assumptions = g.assumptions.clone();
        assumptions.push("VERIF_SEED is accepted and ignored: nothing in this check is sampled".into());
        let ev = json!({
            "property_id": self.property,
            "tier": self.tier.name(),
            "seed": seed,
            "level": self.level,
            "coverage": Value::Object(coverage),
            "assumptions": assumptions,
            "wall_s": wall,
            "violations": unlisted,
            "known_findings_hit": known_hit,
        });
        let evdir = root.join("evidence");
        let _ = std::fs::create_dir_all(&evdir);
        // a property served by several engines: each writes a part, ./check merges them
        let evpath = match std::env::var("VERIF_EVIDENCE_PART") {
            Ok(part) if !part.is_empty() => {
                let d = evdir.join("parts");
                let _ = std::fs::create_dir_all(&d);
                d.join(format!("{}.{}.json", self.property, part))
            }
            _ => evdir.join(format!("{}.json", self.property)),
        };
        if let Err(e) = std::fs::write(&evpath, serde_json::to_vec_pretty(&ev).unwrap()) {
            machinery_error(&format!("cannot write evidence {evpath:?}: {e}"));
        }
        println!(
            "{} {}: executions={} states={} transitions={} outcomes={} violations={} known={} wall={:.1}s exhaustive={}",
            self.property,
            self.tier.name(),
            evals,
            states,
            transitions,
            g.outcomes.len(),
            unlisted,
            known_hit.len(),
            wall,
            g.exhaustive
        );
        if unlisted > 0 {
            std::process::exit(1);
        }
        if !vacuous.is_empty() {
            for v in vacuous {
                eprintln!("MACHINERY-ERROR: vacuous exploration: {v}");
            }
            std::process::exit(2);
        }
        std::process::exit(0)
    }
}

struct Known {
    /// glob (`*` matches any run of characters) over violation keys
    key: String,
    status: String,
    what: String,
}

fn load_known(root: &std::path::Path, property: &str) -> Vec<Known> {
    let p = root.join("known_findings.json");
    let Ok(bytes) = std::fs::read(&p) else {
        return Vec::new();
    };
    let v: Value = match serde_json::from_slice(&bytes) {
        Ok(v) => v,
        Err(e) => machinery_error(&format!("known_findings.json does not parse: {e}")),
    };
    let mut out = Vec::new();
    for e in v["findings"].as_array().cloned().unwrap_or_default() {
        if e["property"].as_str() != Some(property) {
            continue;
        }
        out.push(Known {
            key: e["key"].as_str().unwrap_or("").to_string(),
            status: e["status"].as_str().unwrap_or("").to_string(),
            what: e["what"].as_str().unwrap_or("").to_string(),
        });
    }
    out
}

/// `*`-only glob match.
pub fn glob_match(pat: &str, s: &str) -> bool {
    let parts: Vec<&str> = pat.split('*').collect();
    if parts.len() == 1 {
        return pat == s;
    }
    let mut pos = 0usize;
    for (i, part) in parts.iter().enumerate() {
        if i == 0 {
            if !s.starts_with(part) {
                return false;
            }
            pos = part.len();
        } else if i == parts.len() - 1 {
            return s.len() >= pos + part.len() && s[pos..].ends_with(part);
        } else {
            match s[pos..].find(part) {
                Some(j) => pos += j + part.len(),
                None => return false,
            }
        }
    }
    true
}

pub fn fnv(b: &[u8]) -> u64 {
    let mut h: u64 = 0xcbf29ce484222325;
    for &x in b {
        h ^= x as u64;
        h = h.wrapping_mul(0x100000001b3);
    }
    h
}

/// Current resident set size in MiB (Linux).
pub fn rss_mib() -> u64 {
    std::fs::read_to_string("/proc/self/statm")
        .ok()
        .and_then(|s| s.split_whitespace().nth(1).and_then(|x| x.parse::<u64>().ok()))
        .map(|pages| pages * 4096 / (1024 * 1024))
        .unwrap_or(0)
}

/// Run a closure catching panics; returns Err(message) on panic.
pub fn catch<R>(f: impl FnOnce() -> R) -> Result<R, String> {
    match std::panic::catch_unwind(std::panic::AssertUnwindSafe(f)) {
        Ok(r) => Ok(r),
        Err(e) => Err(if let Some(s) = e.downcast_ref::<&str>() {
            s.to_string()
        } else if let Some(s) = e.downcast_ref::<String>() {
            s.clone()
        } else {
            "panic (non-string payload)".to_string()
        }),
    }
}

/// Silence the default panic hook (subjects are run under catch_unwind by the thousands).
pub fn quiet_panics() {
    if std::env::var_os("VERIF_LOUD_PANICS").is_some() {
        return;
    }
    std::panic::set_hook(Box::new(|_| {}));
}

/// Parse `<ID> <tier> [--replay <file>]` style argv common to all engines.
pub struct Args {
    pub property: String,
    pub tier: Tier,
    pub replay: Option<PathBuf>,
    pub rest: Vec<String>,
}

pub fn parse_args() -> Args {
    let mut a = std::env::args().skip(1);
    let property = a
        .next()
        .unwrap_or_else(|| machinery_error("usage: <engine> <ID> <quick|thorough> [--replay file]"));
    let mut tier = std::env::var("VERIF_TIER").ok().map(|t| Tier::parse(&t));
    let mut replay = None;
    let mut rest = Vec::new();
    while let Some(x) = a.next() {
        match x.as_str() {
            "quick" | "thorough" => tier = Some(Tier::parse(&x)),
            "--replay" => replay = a.next().map(PathBuf::from),
            _ => rest.push(x),
        }
    }
    Args {
        property,
        tier: tier.unwrap_or(Tier::Quick),
        replay,
        rest,
    }
}

#[cfg(test)]
mod tests {
    use super::*;

    #[test]
    fn dfs_counts() {
        // 3 binary free choices = 8 executions
        let st = explore(0, u64::MAX, |c| {
            for _ in 0..3 {
                c.pick(2);
            }
            true
        });
        assert_eq!(st.executions, 8);
        // 4 deviation points with 3 alternatives each, bound 1: 1 + 4*2 = 9
        let st = explore(1, u64::MAX, |c| {
            for _ in 0..4 {
                c.deviate(3);
            }
            true
        });
        assert_eq!(st.executions, 9);
        // bound 2: 1 + 8 + C(4,2)*4 = 33
        let st = explore(2, u64::MAX, |c| {
            for _ in 0..4 {
                c.deviate(3);
            }
            true
        });
        assert_eq!(st.executions, 33);
    }

    #[test]
    fn glob() {
        assert!(glob_match("a*c", "abc"));
        assert!(glob_match("a*c", "ac"));
        assert!(!glob_match("a*c", "ab"));
        assert!(glob_match("*uninit*:after-fill:*", "x:root.uninit.slice:after-fill:advance:Vec"));
        assert!(!glob_match("*uninit*:after-fill:*", "x:root.slice:after-fill:advance:Vec"));
        assert!(glob_match("abc", "abc"));
        assert!(!glob_match("abc", "abcd"));
        assert!(!glob_match("ab*ab", "ab"));
    }
}
