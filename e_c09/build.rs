//! Source transplant for C09 (DESIGN.md §0): copies compio-runtime/src/time/{mod,runtime,future}.rs
//! from the working tree the `compio-runtime` path dependency points at into OUT_DIR/time/, inserts
//! ONE re-binding line (`use crate::shim_std as std;`) after each file's leading inner-doc / comment
//! block, appends a read-only observation accessor to the copy of runtime.rs (after the last line of
//! the original, so no original line moves by more than the one inserted line), and touches nothing
//! else. Missing anchors fail the build loudly (machinery error, never a verdict).
use std::{env, fs, path::PathBuf};

const REBIND: &str = "use crate::shim_std as std; // inserted by e_c09/build.rs: std::time::Instant -> virtual clock\n";

const ACCESSOR: &str = r#"
// ---- appended by e_c09/build.rs: read-only observation accessor, not part of the repository file ----
impl TimerRuntime {
    /// (deadline, generation, registered waker) of every wheel entry, in wheel order.
    pub(crate) fn verif_observe(&self) -> ::std::vec::Vec<(crate::vclock::Instant, u64, ::std::option::Option<::std::task::Waker>)> {
        self.wheel
            .iter()
            .map(|(k, w)| (k.deadline, k.generation, w.clone()))
            .collect()
    }
}
"#;

fn die(msg: &str) -> ! {
    eprintln!("e_c09 build.rs: TRANSPLANT ANCHOR FAILURE: {msg}");
    println!("cargo:warning=e_c09 build.rs: TRANSPLANT ANCHOR FAILURE: {msg}");
    std::process::exit(1)
}

/// Path of the `compio-runtime` dependency as written in our own Cargo.toml.
fn runtime_dir(manifest_dir: &str) -> PathBuf {
    let toml = fs::read_to_string(format!("{manifest_dir}/Cargo.toml")).unwrap_or_else(|e| die(&format!("cannot read own Cargo.toml: {e}")));
    for line in toml.lines() {
        let l = line.trim();
        if !l.starts_with("compio-runtime") {
            continue;
        }
        let Some(i) = l.find("path") else { continue };
        let rest = &l[i..];
        let Some(q1) = rest.find('"') else { continue };
        let Some(q2) = rest[q1 + 1..].find('"') else { continue };
        let p = &rest[q1 + 1..q1 + 1 + q2];
        let pb = PathBuf::from(p);
        return if pb.is_absolute() { pb } else { PathBuf::from(manifest_dir).join(pb) };
    }
    die("no `compio-runtime = { path = \"...\" }` line in e_c09/Cargo.toml")
}

/// Byte offset just after the leading block of blank lines, `//` comments (incl. `//!`) and
/// `#![...]` inner attributes.
fn header_end(src: &str) -> usize {
    let mut off = 0;
    for line in src.split_inclusive('\n') {
        let t = line.trim();
        if t.is_empty() || t.starts_with("//") || t.starts_with("#![") {
            off += line.len();
        } else {
            break;
        }
    }
    off
}

fn fnv(h: &mut u64, b: &[u8]) {
    for &x in b {
        *h ^= x as u64;
        *h = h.wrapping_mul(0x100000001b3);
    }
}

fn main() {
    let manifest_dir = env::var("CARGO_MANIFEST_DIR").unwrap();
    let out = PathBuf::from(env::var("OUT_DIR").unwrap()).join("time");
    fs::create_dir_all(&out).unwrap();
    let src_dir = runtime_dir(&manifest_dir).join("src").join("time");
    println!("cargo:rerun-if-changed=build.rs");
    println!("cargo:rerun-if-changed=Cargo.toml");

    // (file, anchors that must be present for the harness' assumptions to hold)
    let files: [(&str, &[&str]); 3] = [
        ("mod.rs", &["use std::{", "mod runtime;", "mod future;", "pub(crate) use runtime::TimerRuntime;", "pub fn sleep(", "pub fn sleep_until(", "pub fn timeout<", "pub fn timeout_at<", "pub fn interval_at(", "pub struct Elapsed"]),
        (
            "runtime.rs",
            &["use std::{", "pub(crate) struct TimerKey", "deadline: Instant", "generation: u64", "pub(crate) struct TimerRuntime", "wheel:", "pub fn new() -> Self", "pub fn min_timeout(&self) -> Option<Duration>", "pub fn wake(&mut self)"],
        ),
        ("future.rs", &["use std::{", "use crate::{", "Runtime::with_current(", "rt.timer_runtime", "pub struct Sleep", "pub struct Timeout", "pub struct Interval", "pub async fn tick(&mut self) -> Instant"]),
    ];
    let mut hash: u64 = 0xcbf29ce484222325;
    for (name, anchors) in files {
        let path = src_dir.join(name);
        println!("cargo:rerun-if-changed={}", path.display());
        let text = fs::read_to_string(&path).unwrap_or_else(|e| die(&format!("cannot read {}: {e}", path.display())));
        fnv(&mut hash, text.as_bytes());
        for a in anchors {
            if !text.contains(a) {
                die(&format!("{}: expected text `{a}` not found (the file was refactored; adapt e_c09)", path.display()));
            }
        }
        // A path that starts at the extern prelude would bypass the re-binding silently.
        for bad in ["::std::", "extern crate std", "core::time", "SystemTime"] {
            if text.contains(bad) {
                die(&format!("{}: contains `{bad}`, which the `use ... as std` re-binding cannot intercept", path.display()));
            }
        }
        let cut = header_end(&text);
        let mut copy = String::with_capacity(text.len() + 1024);
        copy.push_str(&text[..cut]);
        copy.push_str(REBIND);
        copy.push_str(&text[cut..]);
        if name == "runtime.rs" {
            if !copy.ends_with('\n') {
                copy.push('\n');
            }
            copy.push_str(ACCESSOR);
        }
        // everything except the inserted line and the appended accessor is the repository text
        let stripped = copy.replacen(REBIND, "", 1);
        let stripped = if name == "runtime.rs" { stripped.replacen(ACCESSOR, "", 1) } else { stripped };
        if stripped.trim_end_matches('\n') != text.trim_end_matches('\n') {
            die(&format!("{name}: transplanted copy differs from the original beyond the inserted lines"));
        }
        fs::write(out.join(name), copy).unwrap();
    }
    // mount point: `#[path]` needs a literal, so the literal is generated
    let mount = format!("#[path = {:?}]\npub mod time;\n", out.join("mod.rs").display().to_string());
    fs::write(PathBuf::from(env::var("OUT_DIR").unwrap()).join("mount.rs"), mount).unwrap();
    println!("cargo:rustc-env=C09_TIME_SRC={}", src_dir.display());
    println!("cargo:rustc-env=C09_TIME_HASH={hash:016x}");
    println!("cargo:rustc-env=C09_LINE_SHIFT=1");
}
