//! C09 part 2 — conformance: every maximal trace of a reduced operation space is executed twice,
//! on the model (transplanted code, virtual clock, driver returns exactly on time) and on the REAL
//! `compio_runtime::Runtime` in real time (1 tick = 3 ms), and the two are compared.
//!
//! What is exact and what is not.
//! * never-early is exact: `Instant` is monotonic, the deadline handed to compio is known (or
//!   bounded from below by `now_before + d`), the time stamp is taken *before* the poll that
//!   returned Ready; no tolerance, no retry.
//! * "completes at its first poll iff the model says so" is exact for sleeps and for a timeout's
//!   own timer (a registered timer cannot complete without a `wake()` and no `wake()` runs inside
//!   one pass of the replay future); for lazily created timers (inner future, tick) and for a
//!   deadline fixed before creation (SleepEq) only the direction model => real is exact, because
//!   `Wait`/`Busy` last at least, not exactly, one tick of real time.
//! * completion order for registered timers whose real deadlines are >= 1 tick apart is exact
//!   (compared with the model's order where the model separates them by >= 2 ticks)
//!   (the later one needs a `wake()` at or after its deadline, which expires the earlier one too).
//! * a timeout must yield Ok when the inner future's deadline is >= 1 tick before its own: exact.
//! * nothing left behind: `Runtime::current_timeout()` is `None` after the trace: exact.
//! * interval alignment: `(tick - start) % period == 0` on real `Instant`s: exact.
//! * "always fires" is a liveness statement; in real time it can only be checked with a
//!   tolerance: completion by deadline + SLACK (60 ms), and a hang watchdog of 3 s. A miss is
//!   re-run (5 attempts, the last 3 one at a time) and reported only if it persists; this part is a check with tolerance,
//!   not a proof. A timeout whose deadline precedes the inner one may legitimately yield Ok in
//!   real time (a late runtime lets the inner future win); that is counted, not judged.
use std::{
    future::Future,
    pin::Pin,
    sync::{Mutex, atomic::Ordering},
    task::{Context, Poll},
    time::{Duration, Instant},
};

use compio_runtime::time as rtime;
use vcore::{Report, Tier, Value, Violation, json};

use crate::model::{self, Op, World};

pub const RTICK: Duration = Duration::from_millis(3);
pub const SLACK: Duration = Duration::from_millis(60);
const HANG: Duration = Duration::from_secs(3);
const ATTEMPTS: u32 = 5;
const TICKS_PER_INTERVAL: u32 = 3;
const PERIOD_TICKS: u32 = 2;

#[derive(Clone, Copy, Debug, PartialEq, Eq)]
pub enum COp {
    Sleep(i8),
    /// `sleep_until` the very same `Instant` as the most recently created sleep (equal keys)
    SleepEq,
    Timeout(i8, i8),
    /// start ticking: `interval_at(now + 1 tick, 2 ticks)`, three ticks
    Tick,
    DropOldest,
    /// let the runtime run until one more tick of real time has passed
    Wait,
    /// block the thread for one tick without returning to the runtime
    Busy,
}

impl std::fmt::Display for COp {
    fn fmt(&self, f: &mut std::fmt::Formatter<'_>) -> std::fmt::Result {
        match self {
            COp::Sleep(d) => write!(f, "Sleep({d:+})"),
            COp::SleepEq => write!(f, "SleepEq"),
            COp::Timeout(d, r) => write!(f, "Timeout({d:+},{r:+})"),
            COp::Tick => write!(f, "Tick"),
            COp::DropOldest => write!(f, "DropOldest"),
            COp::Wait => write!(f, "Wait"),
            COp::Busy => write!(f, "Busy"),
        }
    }
}

impl COp {
    fn parse(s: &str) -> Option<COp> {
        Some(match s {
            "SleepEq" => COp::SleepEq,
            "Tick" => COp::Tick,
            "DropOldest" => COp::DropOldest,
            "Wait" => COp::Wait,
            "Busy" => COp::Busy,
            _ => match Op::parse(s)? {
                Op::Sleep(d) => COp::Sleep(d),
                Op::Timeout(d, r) => COp::Timeout(d, r),
                _ => return None,
            },
        })
    }
}

fn script_text(s: &[COp]) -> String {
    let v: Vec<String> = s.iter().map(|o| o.to_string()).collect();
    format!("[{}]", v.join(", "))
}

#[derive(Clone, Copy, Debug, PartialEq, Eq)]
enum Outc {
    Ready,
    Ok,
    Elapsed,
    Tick,
}

// ------------------------------------------------------------------------------------------------
// identities that do not depend on timing
// ------------------------------------------------------------------------------------------------

/// id of the k-th tick of the interval; script-created futures use their script position as id
const TICK_ID: u32 = 100;

/// For every script position: creation -> its own id; DropOldest -> the id it targets (the k-th
/// DropOldest targets the k-th created future, decided statically so that model and real run drop
/// the same future whatever the timing; `TICK_ID` = the interval's current tick future).
fn plan(script: &[COp]) -> Vec<Option<u32>> {
    let mut created: Vec<u32> = Vec::new();
    let mut drops = 0usize;
    script
        .iter()
        .enumerate()
        .map(|(pos, op)| match op {
            COp::Sleep(_) | COp::SleepEq | COp::Timeout(..) => {
                created.push(pos as u32);
                Some(pos as u32)
            }
            COp::Tick => {
                created.push(TICK_ID);
                Some(TICK_ID)
            }
            COp::DropOldest => {
                let t = created.get(drops).copied();
                drops += 1;
                t
            }
            COp::Wait | COp::Busy => None,
        })
        .collect()
}

/// ids whose completion may legitimately differ between model and real run (targets of a drop)
fn drop_targets(script: &[COp]) -> Vec<u32> {
    let p = plan(script);
    script.iter().zip(p).filter_map(|(op, t)| if *op == COp::DropOldest { t } else { None }).collect()
}

fn is_tick_id(id: u32) -> bool {
    id >= TICK_ID
}

// ------------------------------------------------------------------------------------------------
// model side of a trace
// ------------------------------------------------------------------------------------------------

#[derive(Debug, Clone)]
struct MDone {
    id: u32,
    out: Outc,
    /// model clock at completion
    tick: i64,
    /// completed at its very first poll
    immediate: bool,
}

struct MSlot {
    id: u32,
    fresh: bool,
    inner_ready_at: Option<i64>,
}

/// Runs the script on the model with the same pass structure as the real replay future
/// ([due script operations] then [poll every alive future]) and a driver that returns exactly on
/// time between passes.
fn model_run(script: &[COp]) -> Result<Vec<MDone>, model::Vio> {
    let mut w = World::new(3);
    let plan = plan(script);
    let mut slots: Vec<Option<MSlot>> = vec![None, None, None];
    let mut done: Vec<MDone> = Vec::new();
    let mut last_sleep_deadline: Option<i64> = None;
    let mut ticking = true;
    let mut pacer: Option<i64> = None;
    let mut pc = 0usize;
    let clock = crate::vclock::now_ticks;
    let free = |slots: &[Option<MSlot>]| slots.iter().position(|s| s.is_none()).expect("at most 3 alive");
    let mut guard = 0;
    loop {
        guard += 1;
        assert!(guard < 200, "model run does not terminate");
        // 1. due script operations
        while pc < script.len() {
            match script[pc] {
                COp::Wait => {
                    let target = *pacer.get_or_insert(clock() + 1);
                    if clock() >= target {
                        pacer = None;
                        pc += 1;
                    } else {
                        break;
                    }
                    continue;
                }
                COp::Sleep(d) => {
                    let j = free(&slots);
                    w.apply(Op::Sleep(d))?;
                    last_sleep_deadline = Some(clock() + d as i64);
                    slots[j] = Some(MSlot { id: plan[pc].unwrap(), fresh: true, inner_ready_at: None });
                }
                COp::SleepEq => {
                    let j = free(&slots);
                    let d = last_sleep_deadline.unwrap() - clock();
                    w.apply(Op::Sleep(d as i8))?;
                    slots[j] = Some(MSlot { id: plan[pc].unwrap(), fresh: true, inner_ready_at: None });
                }
                COp::Timeout(d, r) => {
                    let j = free(&slots);
                    w.apply(Op::Timeout(d, r))?;
                    slots[j] = Some(MSlot { id: plan[pc].unwrap(), fresh: true, inner_ready_at: Some(clock() + r as i64) });
                }
                COp::Tick => {
                    let j = free(&slots);
                    w.apply(Op::Tick(1, PERIOD_TICKS as u8))?;
                    slots[j] = Some(MSlot { id: TICK_ID, fresh: true, inner_ready_at: None });
                }
                COp::DropOldest => {
                    if let Some(t) = plan[pc] {
                        let hit = (0..slots.len()).find(|&i| slots[i].as_ref().is_some_and(|s| s.id == t || (t == TICK_ID && is_tick_id(s.id))));
                        if t == TICK_ID {
                            ticking = false;
                        }
                        if let Some(j) = hit {
                            w.apply(Op::Drop(j as u8))?;
                            slots[j] = None;
                        }
                    }
                }
                COp::Busy => {
                    w.apply(Op::Busy)?;
                }
            }
            pc += 1;
        }
        // 2. poll every alive future once, in slot order
        let mut i = 0;
        while i < slots.len() {
            let Some(s) = &mut slots[i] else {
                i += 1;
                continue;
            };
            let st = w.apply(Op::Poll(i as u8, 0))?;
            let out = match (st.sig >> 8) & 0xff {
                2 => {
                    s.fresh = false;
                    i += 1;
                    continue;
                }
                3 => Outc::Ready,
                4 => Outc::Ok,
                5 => Outc::Elapsed,
                6 => Outc::Tick,
                k => panic!("unexpected result class {k}"),
            };
            let id = s.id;
            done.push(MDone { id, out, tick: clock(), immediate: s.fresh });
            slots[i] = None;
            if is_tick_id(id) && ticking && id + 1 < TICK_ID + TICKS_PER_INTERVAL {
                // the next tick starts at once and is polled at once (as in the real replay)
                let j = free(&slots);
                w.apply(Op::Tick(0, 0))?;
                let st = w.apply(Op::Poll(j as u8, 0))?;
                assert!((st.sig >> 8) & 0xff == 2, "a restarted tick cannot be ready at once");
                slots[j] = Some(MSlot { id: id + 1, fresh: false, inner_ready_at: None });
            }
            i += 1;
        }
        if pc == script.len() && slots.iter().all(|s| s.is_none()) {
            return Ok(done);
        }
        // 3. one exact iteration of the run loop: the driver returns for the nearest timer, the
        // nearest inner-future readiness or the pacer (timers too, in the real replay)
        let now = clock();
        let mut t: Option<i64> = w.min_timeout_ticks();
        for s in slots.iter().flatten() {
            if let Some(r) = s.inner_ready_at {
                if r > now {
                    t = Some(t.map_or(r - now, |x| x.min(r - now)));
                }
            }
        }
        if let Some(p) = pacer {
            t = Some(t.map_or(p - now, |x| x.min((p - now).max(0))));
        }
        let delta = t.expect("alive future or pending wait without any pending event in the model");
        w.apply(Op::Loop(delta as u8))?;
    }
}

// ------------------------------------------------------------------------------------------------
// real side of a trace
// ------------------------------------------------------------------------------------------------

type BoxFut<T> = Pin<Box<dyn Future<Output = T>>>;

enum RFut {
    Sleep(Pin<Box<rtime::Sleep>>),
    Timeout(Pin<Box<rtime::Timeout<BoxFut<u32>>>>),
    Tick(BoxFut<Instant>),
}

struct RSlot {
    id: u32,
    fut: RFut,
    d_lo: Option<Instant>,
    d_hi: Option<Instant>,
    r_lo: Option<Instant>,
    r_hi: Option<Instant>,
    val: u32,
    created_pass: u32,
    first_poll: Option<(Instant, Instant)>,
    tick_no: u32,
    /// deadline was fixed before this future's creation (SleepEq), not relative to `now`
    abs_deadline: bool,
}

#[derive(Debug, Clone)]
struct RDone {
    id: u32,
    kind: &'static str,
    out: Outc,
    val_ok: bool,
    t_before: Instant,
    t_after: Instant,
    pass: u32,
    created_pass: u32,
    abs_deadline: bool,
    d_lo: Option<Instant>,
    d_hi: Option<Instant>,
    r_lo: Option<Instant>,
    r_hi: Option<Instant>,
    tick_value: Option<Instant>,
    tick_no: u32,
    first_poll: (Instant, Instant),
}

struct Replay<'a> {
    script: &'a [COp],
    pc: usize,
    slots: Vec<Option<RSlot>>,
    iv: Option<(*mut rtime::Interval, Instant, Duration)>,
    pacer: Option<(Pin<Box<rtime::Sleep>>, Instant)>,
    pass: u32,
    done: Vec<RDone>,
    plan: Vec<Option<u32>>,
    ticking: bool,
    last_sleep_deadline: Option<Instant>,
    pacer_early: Option<String>,
    t0: Instant,
}

impl Drop for Replay<'_> {
    fn drop(&mut self) {
        self.slots.clear();
        if let Some((p, ..)) = self.iv.take() {
            drop(unsafe { Box::from_raw(p) });
        }
    }
}

impl<'a> Replay<'a> {
    fn new(script: &'a [COp]) -> Self {
        Replay {
            script,
            pc: 0,
            slots: vec![None, None, None],
            iv: None,
            pacer: None,
            pass: 0,
            done: Vec::new(),
            plan: plan(script),
            ticking: true,
            last_sleep_deadline: None,
            pacer_early: None,
            t0: Instant::now(),
        }
    }

    fn free(&self) -> usize {
        self.slots.iter().position(|s| s.is_none()).expect("script keeps at most 3 futures alive")
    }

    fn put(&mut self, id: u32, fut: RFut, d: (Option<Instant>, Option<Instant>), r: (Option<Instant>, Option<Instant>), val: u32, tick_no: u32) -> usize {
        let j = self.free();
        self.slots[j] = Some(RSlot {
            id,
            fut,
            d_lo: d.0,
            d_hi: d.1,
            r_lo: r.0,
            r_hi: r.1,
            val,
            created_pass: self.pass,
            abs_deadline: false,
            first_poll: None,
            tick_no,
        });
        j
    }

    fn start_tick(&mut self, tick_no: u32) -> usize {
        let (p, ..) = self.iv.unwrap();
        // SAFETY: as in model.rs — the interval outlives every tick future, one tick future at a time.
        let fut: BoxFut<Instant> = Box::pin(unsafe { &mut *p }.tick());
        self.put(TICK_ID + tick_no, RFut::Tick(fut), (None, None), (None, None), 0, tick_no)
    }

    fn exec(&mut self, op: COp) {
        let planned = self.plan[self.pc];
        match op {
            COp::Sleep(d) => {
                let n0 = Instant::now();
                let (fut, lo, hi) = if d >= 0 {
                    let f = rtime::sleep(RTICK * d as u32);
                    (f, n0 + RTICK * d as u32, Instant::now() + RTICK * d as u32)
                } else {
                    let dl = n0 - RTICK * (-d) as u32;
                    (rtime::sleep_until(dl), dl, dl)
                };
                self.last_sleep_deadline = Some(lo);
                self.put(planned.unwrap(), RFut::Sleep(Box::pin(fut)), (Some(lo), Some(hi)), (None, None), 0, 0);
            }
            COp::SleepEq => {
                let dl = self.last_sleep_deadline.expect("SleepEq enabled only after a sleep");
                let j = self.put(planned.unwrap(), RFut::Sleep(Box::pin(rtime::sleep_until(dl))), (Some(dl), Some(dl)), (None, None), 0, 0);
                self.slots[j].as_mut().unwrap().abs_deadline = true;
            }
            COp::Timeout(d, r) => {
                let val = 7000 + planned.unwrap();
                let n0 = Instant::now();
                let ready = n0 + RTICK * r as u32;
                let inner: BoxFut<u32> = Box::pin(async move {
                    rtime::sleep_until(ready).await;
                    val
                });
                let (fut, lo, hi) = if d > 0 {
                    let n1 = Instant::now();
                    let f = rtime::timeout(RTICK * d as u32, inner);
                    (f, n1 + RTICK * d as u32, Instant::now() + RTICK * d as u32)
                } else {
                    let dl = n0 - RTICK * (-d) as u32;
                    (rtime::timeout_at(dl, inner), dl, dl)
                };
                self.put(planned.unwrap(), RFut::Timeout(Box::pin(fut)), (Some(lo), Some(hi)), (Some(ready), Some(ready)), val, 0);
            }
            COp::Tick => {
                let start = Instant::now() + RTICK;
                let period = RTICK * PERIOD_TICKS;
                let iv = rtime::interval_at(start, period);
                self.iv = Some((Box::into_raw(Box::new(iv)), start, period));
                self.start_tick(0);
            }
            COp::DropOldest => {
                if let Some(t) = planned {
                    if t == TICK_ID {
                        self.ticking = false;
                    }
                    let hit = (0..self.slots.len()).find(|&i| self.slots[i].as_ref().is_some_and(|s| s.id == t || (t == TICK_ID && is_tick_id(s.id))));
                    if let Some(j) = hit {
                        self.slots[j] = None;
                    }
                }
            }
            COp::Busy => std::thread::sleep(RTICK),
            COp::Wait => unreachable!(),
        }
    }
}

impl Future for Replay<'_> {
    type Output = ();

    fn poll(mut self: Pin<&mut Self>, cx: &mut Context<'_>) -> Poll<()> {
        let me = &mut *self;
        me.pass += 1;
        // 1. script operations that are due
        while me.pc < me.script.len() {
            match me.script[me.pc] {
                COp::Wait => {
                    if me.pacer.is_none() {
                        let target = Instant::now() + RTICK;
                        me.pacer = Some((Box::pin(rtime::sleep_until(target)), target));
                    }
                    let (p, target) = me.pacer.as_mut().unwrap();
                    let tb = Instant::now();
                    match p.as_mut().poll(cx) {
                        Poll::Ready(()) => {
                            if tb < *target {
                                me.pacer_early = Some(format!("the pacer sleep_until(+{:?}) completed {:?} before its deadline", *target - me.t0, *target - tb));
                            }
                            me.pacer = None;
                            me.pc += 1;
                        }
                        Poll::Pending => break,
                    }
                }
                op => {
                    me.exec(op);
                    me.pc += 1;
                }
            }
        }
        // 2. poll every alive future once, in slot order
        let mut i = 0;
        while i < me.slots.len() {
            let Some(slot) = me.slots[i].as_mut() else {
                i += 1;
                continue;
            };
            let tb = Instant::now();
            let res: Poll<(Outc, bool, Option<Instant>)> = match &mut slot.fut {
                RFut::Sleep(f) => f.as_mut().poll(cx).map(|()| (Outc::Ready, true, None)),
                RFut::Timeout(f) => {
                    let val = slot.val;
                    f.as_mut().poll(cx).map(|r| match r {
                        Ok(v) => (Outc::Ok, v == val, None),
                        Err(_) => (Outc::Elapsed, true, None),
                    })
                }
                RFut::Tick(f) => f.as_mut().poll(cx).map(|v| (Outc::Tick, true, Some(v))),
            };
            let ta = Instant::now();
            if slot.first_poll.is_none() {
                slot.first_poll = Some((tb, ta));
            }
            if let Poll::Ready((out, val_ok, tick_value)) = res {
                let s = me.slots[i].take().unwrap();
                let kind = match s.fut {
                    RFut::Sleep(_) => "sleep",
                    RFut::Timeout(_) => "timeout",
                    RFut::Tick(_) => "tick",
                };
                me.done.push(RDone {
                    id: s.id,
                    kind,
                    out,
                    val_ok,
                    t_before: tb,
                    t_after: ta,
                    pass: me.pass,
                    created_pass: s.created_pass,
                    abs_deadline: s.abs_deadline,
                    d_lo: s.d_lo,
                    d_hi: s.d_hi,
                    r_lo: s.r_lo,
                    r_hi: s.r_hi,
                    tick_value,
                    tick_no: s.tick_no,
                    first_poll: s.first_poll.unwrap(),
                });
                let tick_no = s.tick_no;
                let is_tick = kind == "tick";
                drop(s);
                if is_tick && me.ticking && tick_no + 1 < TICKS_PER_INTERVAL {
                    let j = me.start_tick(tick_no + 1);
                    // poll the restarted tick at once (as the model run does)
                    let slot = me.slots[j].as_mut().unwrap();
                    let tb = Instant::now();
                    let RFut::Tick(f) = &mut slot.fut else { unreachable!() };
                    let r = f.as_mut().poll(cx);
                    let ta = Instant::now();
                    slot.first_poll = Some((tb, ta));
                    if let Poll::Ready(v) = r {
                        let s = me.slots[j].take().unwrap();
                        me.done.push(RDone {
                            id: s.id,
                            kind: "tick",
                            out: Outc::Tick,
                            val_ok: true,
                            t_before: tb,
                            t_after: ta,
                            pass: me.pass,
                            created_pass: s.created_pass,
                            abs_deadline: false,
                            d_lo: None,
                            d_hi: None,
                            r_lo: None,
                            r_hi: None,
                            tick_value: Some(v),
                            tick_no: s.tick_no,
                            first_poll: (tb, ta),
                        });
                    }
                }
            }
            i += 1;
        }
        if me.pc == me.script.len() && me.slots.iter().all(|s| s.is_none()) {
            Poll::Ready(())
        } else {
            Poll::Pending
        }
    }
}

struct RealRun {
    done: Vec<RDone>,
    t0: Instant,
    passes: u32,
    residue: Option<Duration>,
    pacer_early: Option<String>,
    iv: Option<(Instant, Duration)>,
}

enum RealErr {
    Hang,
    Panic(String),
    Setup(String),
}

fn real_run(script: &[COp]) -> Result<RealRun, RealErr> {
    let script: Vec<COp> = script.to_vec();
    let (tx, rx) = std::sync::mpsc::channel();
    std::thread::Builder::new()
        .name("c09-real".into())
        .spawn(move || {
            let r = vcore::catch(|| {
                let rt = match compio_runtime::Runtime::new() {
                    Ok(rt) => rt,
                    Err(e) => return Err(RealErr::Setup(format!("Runtime::new failed: {e}"))),
                };
                let mut rp = Replay::new(&script);
                let t0 = rp.t0;
                rt.block_on(std::future::poll_fn(|cx| Pin::new(&mut rp).poll(cx)));
                let iv = rp.iv.map(|(_, s, p)| (s, p));
                let done = std::mem::take(&mut rp.done);
                let passes = rp.pass;
                let pacer_early = rp.pacer_early.take();
                drop(rp);
                let residue = rt.current_timeout();
                Ok(RealRun { done, t0, passes, residue, pacer_early, iv })
            });
            let _ = tx.send(match r {
                Ok(r) => r,
                Err(p) => Err(RealErr::Panic(p)),
            });
        })
        .expect("spawn");
    match rx.recv_timeout(HANG) {
        Ok(r) => r,
        Err(_) => Err(RealErr::Hang), // the stuck thread is abandoned; process exit reaps it
    }
}

/// (key, detail, is_tolerance_based)
type Finding = (String, String, bool);

static MAX_LATE_US: std::sync::atomic::AtomicU64 = std::sync::atomic::AtomicU64::new(0);

fn us(t: Instant, t0: Instant) -> i64 {
    if t >= t0 { (t - t0).as_micros() as i64 } else { -((t0 - t).as_micros() as i64) }
}

fn compare(script: &[COp], m: &[MDone], r: &RealRun, rep: &Report) -> Vec<Finding> {
    let mut f: Vec<Finding> = Vec::new();
    let t0 = r.t0;
    if let Some(p) = &r.pacer_early {
        f.push(("real:never-early:sleep-ready-before-deadline:pacer".into(), p.clone(), false));
    }
    if let Some(res) = r.residue {
        f.push(("real:residue:current-timeout-after-all-dropped".into(), format!("after the trace every timer future completed or was dropped, but Runtime::current_timeout() is Some({res:?})"), false));
    }
    // same set of completions
    // same set of completions, except for futures a DropOldest aims at (whether such a future
    // completes before it is dropped may depend on sub-tick timing)
    let racy = drop_targets(script);
    let is_racy = |id: u32| racy.contains(&id) || (is_tick_id(id) && racy.contains(&TICK_ID));
    let mut mids: Vec<u32> = m.iter().map(|d| d.id).filter(|&i| !is_racy(i)).collect();
    let mut rids: Vec<u32> = r.done.iter().map(|d| d.id).filter(|&i| !is_racy(i)).collect();
    mids.sort();
    rids.sort();
    if mids != rids {
        f.push(("real:conformance:different-completion-set".into(), format!("model completes futures {mids:?}, real run {rids:?}"), false));
        return f;
    }
    for d in &r.done {
        let Some(md) = m.iter().find(|x| x.id == d.id) else {
            rep.count("real_completion_of_drop_target_not_in_model", 1);
            continue;
        };
        let immediate_real = d.pass == d.created_pass && d.first_poll.0 == d.t_before;
        rep.outcome(format!("real|{}|{:?}|immediate={}|model={:?}", d.kind, d.out, immediate_real, md.out));
        // exact: never early
        match d.out {
            Outc::Ready | Outc::Elapsed => {
                let lo = d.d_lo.unwrap();
                if d.t_before < lo {
                    f.push((
                        format!("real:never-early:{}-before-deadline", if d.out == Outc::Ready { "sleep-ready" } else { "timeout-elapsed" }),
                        format!("#{} completed at +{}us (time stamp taken before the poll) but its deadline is +{}us", d.id, us(d.t_before, t0), us(lo, t0)),
                        false,
                    ));
                }
            }
            Outc::Ok => {
                let lo = d.r_lo.unwrap();
                if !d.val_ok {
                    f.push(("real:timeout:ok-with-wrong-value".into(), format!("#{} returned a value that is not the inner future's", d.id), false));
                }
                if d.t_before < lo {
                    f.push(("real:never-early:inner-sleep-ready-before-deadline".into(), format!("#{}: inner sleep completed at +{}us, deadline +{}us", d.id, us(d.t_before, t0), us(lo, t0)), false));
                }
            }
            Outc::Tick => {
                let v = d.tick_value.unwrap();
                let (start, period) = r.iv.unwrap();
                if v < start || (v - start).as_nanos() % period.as_nanos() != 0 {
                    f.push(("real:interval:misaligned".into(), format!("tick #{} returned start{:+}us, period {}us", d.id, us(v, start), period.as_micros()), false));
                }
                if d.t_before < v {
                    f.push(("real:never-early:tick-ready-before-its-instant".into(), format!("tick #{} returned +{}us at +{}us", d.id, us(v, t0), us(d.t_before, t0)), false));
                }
                if d.tick_no == 0 && v != start {
                    f.push(("real:interval:first-tick-not-at-start".into(), format!("first tick returned start{:+}us", us(v, start)), false));
                }
                if d.tick_no > 0 && !(v > d.first_poll.0 && v <= d.first_poll.1 + period) {
                    f.push(("real:interval:not-the-next-instant".into(), format!("tick #{} first polled at +{}us returned +{}us (period {}us)", d.id, us(d.first_poll.0, t0), us(v, t0), period.as_micros()), false));
                }
            }
        }
        // exact: completes at its first poll iff the model says so. A sleep and a timeout's own
        // timer register at creation with a deadline relative to the `now` of that moment, so "ready
        // at the first poll" means "insert refused", whatever the timing. Between two script points
        // at least as much real time passes as model time (`Wait`/`Busy` last at least one tick), so
        // for a deadline fixed earlier (SleepEq) and for timers created lazily at the first poll
        // (inner future, tick) only "model immediate => real immediate" is exact.
        let both_ways = matches!(d.out, Outc::Ready | Outc::Elapsed) && md.out == d.out && !d.abs_deadline;
        if (both_ways && immediate_real != md.immediate) || (md.out == d.out && md.immediate && !immediate_real) {
            f.push((
                format!("real:conformance:first-poll-completion-differs:{}", d.kind),
                format!("#{} ({}, {:?}): model completes at first poll = {}, real = {} (real pass {}, created in pass {})", d.id, d.kind, d.out, md.immediate, immediate_real, d.pass, d.created_pass),
                false,
            ));
        }
        // outcome kind
        if d.out != md.out {
            match (md.out, d.out) {
                // exact (any positive margin would do; one tick is used): an Elapsed needs a wake() at
                // or after the timeout's deadline, which expires the earlier inner timer as well, and
                // the inner future is polled first
                (Outc::Ok, Outc::Elapsed) if d.r_hi.unwrap() + RTICK <= d.d_lo.unwrap() => {
                    f.push(("real:timeout:elapsed-although-inner-finished-first".into(), format!("#{}: inner deadline +{}us is >= 1 tick before the timeout deadline +{}us, yet Elapsed", d.id, us(d.r_hi.unwrap(), t0), us(d.d_lo.unwrap(), t0)), false));
                }
                // the model (driver exactly on time) says Elapsed, the real run let the inner future win:
                // legitimate whenever the runtime was late by (inner deadline - timeout deadline), which
                // is far below the lateness tolerance; lateness itself is judged by the slack check below
                (Outc::Elapsed, Outc::Ok) => rep.count("real_timeout_inner_won_because_runtime_was_late", 1),
                _ => rep.count("real_timeout_outcome_within_race_window", 1),
            }
        }
        // tolerance: completes by deadline + SLACK
        let eff_hi = match d.out {
            Outc::Ready | Outc::Elapsed => d.d_hi,
            Outc::Ok => d.r_hi,
            Outc::Tick => d.tick_value,
        };
        let due = match (d.kind, d.d_hi, d.r_hi) {
            ("timeout", Some(a), Some(b)) => Some(a.min(b)),
            _ => eff_hi,
        };
        if let Some(due) = due {
            if d.t_after > due {
                MAX_LATE_US.fetch_max((d.t_after - due).as_micros() as u64, Ordering::Relaxed);
            }
            if d.t_after > due + SLACK {
                f.push((format!("real:always-fires:{}-late-beyond-slack", d.kind), format!("#{} was due at +{}us but completed at +{}us (slack {:?})", d.id, us(due, t0), us(d.t_after, t0), SLACK), true));
            }
        }
    }
    // exact: order of registered timers whose real deadlines are >= 1 tick apart; where the model
    // separates the two by >= 2 ticks this is the comparison with the model's completion order
    let eff = |d: &RDone| -> (Instant, Instant) {
        match d.out {
            Outc::Ready | Outc::Elapsed => (d.d_lo.unwrap(), d.d_hi.unwrap()),
            Outc::Ok => (d.r_lo.unwrap(), d.r_hi.unwrap()),
            Outc::Tick => (d.tick_value.unwrap(), d.tick_value.unwrap()),
        }
    };
    for a in &r.done {
        for b in &r.done {
            if a.id == b.id {
                continue;
            }
            let (Some(ma), Some(mb)) = (m.iter().find(|x| x.id == a.id), m.iter().find(|x| x.id == b.id)) else { continue };
            let b_registered = !(b.pass == b.created_pass && b.first_poll.0 == b.t_before);
            // exact for any positive separation of the real deadlines; one tick is used
            let real_sep = eff(a).1 + RTICK <= eff(b).0;
            let model_sep = ma.tick + 2 <= mb.tick;
            if real_sep && b_registered && a.created_pass <= b.pass {
                if model_sep {
                    rep.count("real_order_pairs_compared_with_model", 1);
                } else {
                    rep.count("real_order_pairs_checked_real_only", 1);
                }
                if a.pass > b.pass {
                    f.push((
                        "real:order:earlier-deadline-completes-after-later-one".into(),
                        format!("#{} (due +{}us) completed in pass {} after #{} (due +{}us, >= 1 tick later) in pass {}", a.id, us(eff(a).1, t0), a.pass, b.id, us(eff(b).0, t0), b.pass),
                        false,
                    ));
                }
            } else if model_sep {
                rep.count("real_order_pairs_skipped_schedule_compressed_or_unregistered", 1);
            }
        }
    }
    f
}

fn trace_json(script: &[COp], m: &[MDone], r: &RealRun) -> Value {
    let t0 = r.t0;
    let done: Vec<Value> = r
        .done
        .iter()
        .map(|d| {
            let md = m.iter().find(|x| x.id == d.id);
            json!({
                "id": d.id, "kind": d.kind, "real_outcome": format!("{:?}", d.out), "real_pass": d.pass,
                "real_completed_at_us": us(d.t_after, t0),
                "real_deadline_us": d.d_lo.map(|x| us(x, t0)),
                "inner_deadline_us": d.r_lo.map(|x| us(x, t0)),
                "tick_value_us": d.tick_value.map(|x| us(x, t0)),
                "model_outcome": md.map(|x| format!("{:?}", x.out)), "model_tick": md.map(|x| x.tick), "model_immediate": md.map(|x| x.immediate),
            })
        })
        .collect();
    json!({"real_trace": script_text(script), "tick_ms": RTICK.as_millis() as u64, "passes": r.passes, "completions": done})
}

// ------------------------------------------------------------------------------------------------
// the reduced space
// ------------------------------------------------------------------------------------------------

struct Space {
    len: usize,
    sleeps: Vec<i8>,
    timeouts: Vec<(i8, i8)>,
}

/// All maximal scripts: `len` operations, every position ranging over the operations enabled
/// there (free slot for creations, an alive future for DropOldest, Wait/Busy neither first nor last).
fn scripts(sp: &Space) -> Vec<Vec<COp>> {
    let mut all = Vec::new();
    vcore::explore(0, u64::MAX, |ch| {
        let mut s: Vec<COp> = Vec::new();
        let mut alive: Vec<u32> = Vec::new(); // 0 sleep, 1 timeout, 2 tick
        let mut had_sleep = false;
        let mut had_tick = false;
        for pos in 0..sp.len {
            let mut opts: Vec<COp> = Vec::new();
            if alive.len() < 3 {
                opts.extend(sp.sleeps.iter().map(|&d| COp::Sleep(d)));
                if had_sleep {
                    opts.push(COp::SleepEq);
                }
                if !alive.contains(&1) {
                    opts.extend(sp.timeouts.iter().map(|&(d, r)| COp::Timeout(d, r)));
                }
                if !had_tick {
                    opts.push(COp::Tick);
                }
            }
            if !alive.is_empty() {
                opts.push(COp::DropOldest);
            }
            if pos > 0 && pos + 1 < sp.len {
                opts.push(COp::Wait);
                opts.push(COp::Busy);
            }
            let op = opts[ch.pick(opts.len())];
            match op {
                COp::Sleep(_) | COp::SleepEq => {
                    alive.push(0);
                    had_sleep = true;
                }
                COp::Timeout(..) => alive.push(1),
                COp::Tick => {
                    alive.push(2);
                    had_tick = true;
                }
                COp::DropOldest => {
                    alive.remove(0);
                }
                // whether something completed during a Wait is not tracked here; the bound of 3
                // alive futures is therefore enforced conservatively (completed ones still count)
                COp::Wait | COp::Busy => {}
            }
            s.push(op);
        }
        all.push(s);
        true
    });
    all
}

/// Interval alignment for a long-running interval: `interval_at(start, period)` with a start that
/// lies MORE THAN A SECOND in the past (so that the elapsed time has a seconds part) for every
/// period of a small grid that does or does not divide one second; the first tick returns `start`,
/// every later tick an instant `start + k * period` that is not in the past (exact, on `Instant`s).
pub fn interval_long_running(report: &Report, tier: Tier) {
    let periods_ms: Vec<u64> = tier.pick(vec![6, 21, 250], vec![6, 7, 21, 50, 250, 300]);
    let starts_ms: Vec<u64> = tier.pick(vec![1003, 2250], vec![1003, 1500, 2250, 5001]);
    let mut items = Vec::new();
    for &p in &periods_ms {
        for &s in &starts_ms {
            items.push((p, s));
        }
    }
    report.must_reach("interval_started_more_than_a_second_ago");
    vcore::par_for_each_n(&items, 8, |_, &(p_ms, s_ms)| {
        let period = Duration::from_millis(p_ms);
        let res: Result<(), (String, String)> = vcore::catch(|| {
            let rt = compio_runtime::Runtime::new().map_err(|e| ("setup".to_string(), format!("{e}")))?;
            rt.block_on(async {
                let start = Instant::now() - Duration::from_millis(s_ms);
                let mut iv = rtime::interval_at(start, period);
                let first = iv.tick().await;
                if first != start {
                    return Err(("real:interval:first-tick-not-at-start".to_string(), format!("interval_at(now-{s_ms}ms, {p_ms}ms): first tick returned start{:+}us", first.duration_since(start).as_micros())));
                }
                for k in 1..=3 {
                    let asked = Instant::now();
                    let t = iv.tick().await;
                    let off = t.duration_since(start).as_nanos() % period.as_nanos();
                    if off != 0 {
                        return Err((
                            "real:interval:misaligned:started-more-than-a-second-ago".to_string(),
                            format!("interval_at(now-{s_ms}ms, {p_ms}ms): tick #{k} returned start+{}us, which is {}us past a multiple of the period", t.duration_since(start).as_micros(), off / 1000),
                        ));
                    }
                    if t < asked {
                        return Err(("real:interval:tick-in-the-past".to_string(), format!("interval_at(now-{s_ms}ms, {p_ms}ms): tick #{k} returned an instant {}us before it was asked for", asked.duration_since(t).as_micros())));
                    }
                    if t.duration_since(asked) > period {
                        return Err(("real:interval:not-the-next-instant".to_string(), format!("interval_at(now-{s_ms}ms, {p_ms}ms): tick #{k} lies {}us after it was asked for, more than one period", t.duration_since(asked).as_micros())));
                    }
                    if Instant::now() < t {
                        return Err(("real:interval:tick-completed-early".to_string(), format!("interval_at(now-{s_ms}ms, {p_ms}ms): tick #{k} completed before the instant it returned")));
                    }
                }
                Ok(())
            })
        })
        .unwrap_or_else(|pn| Err(("real:interval:panic".to_string(), pn)));
        report.add_execution(5);
        report.add_states(1);
        report.count("interval_started_more_than_a_second_ago", 1);
        match res {
            Ok(()) => report.outcome(format!("interval-long|{p_ms}|{s_ms}")),
            Err((key, what)) => report.violation(Violation { key, what, replay: json!({"engine":"e_c09","mode":"interval-long","period_ms":p_ms,"start_ms_ago":s_ms}) }),
        }
    });
    report.extra("interval_long_running", json!({"periods_ms": periods_ms, "start_ms_ago": starts_ms, "ticks": 4}));
}

pub fn run(report: &Report, tier: Tier) {
    let sp = match tier {
        Tier::Quick => Space { len: 3, sleeps: vec![-1, 0, 1, 3], timeouts: vec![(1, 3), (3, 1)] },
        Tier::Thorough => Space { len: 4, sleeps: vec![-1, 0, 1, 2, 3], timeouts: vec![(0, 1), (1, 3), (3, 1), (2, 2)] },
    };
    let all = scripts(&sp);
    let threads = tier.pick(8usize, 8usize);
    report.extra(
        "conformance_bounds",
        json!({
            "script_length": sp.len, "sleep_deadlines_rel_ticks": sp.sleeps, "timeouts_deadline_inner": sp.timeouts,
            "other_ops": ["SleepEq (same Instant as the previous sleep)", "Tick (interval_at(now+1, 2 ticks), 3 ticks)", "DropOldest", "Wait (1 tick)", "Busy (1 tick, thread blocked)"],
            "real_tick_ms": RTICK.as_millis() as u64, "lateness_slack_ms": SLACK.as_millis() as u64, "hang_watchdog_ms": HANG.as_millis() as u64,
            "attempts_for_tolerance_based_findings": ATTEMPTS, "parallel_runtimes": threads, "traces": all.len(),
            "exact_checks": ["never early", "first-poll completion iff model", "same completion order as the model for deadlines >= 2 model ticks (>= 1 real tick) apart", "timeout Ok when inner deadline >= 1 tick earlier", "current_timeout() None afterwards", "interval alignment"],
            "tolerance_checks": ["completion by deadline + slack", "no hang"],
        }),
    );
    report.assume("real-time replay: only never-early, first-poll completion, order, residue and alignment are exact; 'always fires' is checked with a 60 ms slack and a 3 s hang watchdog and is therefore a liveness check with a tolerance (5 attempts, the last 3 serialized, before reporting)");
    report.must_reach("real_traces_validated");
    let t0 = Instant::now();
    let samples = Mutex::new(0usize);
    let serial = Mutex::new(());
    vcore::par_for_each_n(&all, threads, |idx, script| {
        let m = match vcore::catch(|| model_run(script)) {
            Ok(Ok(m)) => m,
            Ok(Err(v)) => {
                report.violation(Violation {
                    key: format!("conformance-{}", v.key),
                    what: format!("model side of real trace {}: {}", script_text(script), v.detail),
                    replay: json!({"engine": "e_c09", "mode": "real", "script": script.iter().map(|o| o.to_string()).collect::<Vec<_>>() }),
                });
                return;
            }
            Err(p) => {
                report.violation(Violation {
                    key: "conformance-model:panic".into(),
                    what: format!("model side of real trace {} panicked: {p}", script_text(script)),
                    replay: json!({"engine": "e_c09", "mode": "real", "script": script.iter().map(|o| o.to_string()).collect::<Vec<_>>() }),
                });
                return;
            }
        };
        let mut attempt = 0;
        loop {
            attempt += 1;
            // later attempts run one at a time, so that the check's own parallelism cannot be the
            // cause of the lateness
            let _serial = if attempt > 2 { Some(serial.lock().unwrap()) } else { None };
            let findings: Vec<Finding> = match real_run(script) {
                Ok(r) => {
                    let f = compare(script, &m, &r, report);
                    if f.is_empty() {
                        let mut g = samples.lock().unwrap();
                        if *g < 3 && (idx % 97 == 5 || r.done.len() >= 4) {
                            *g += 1;
                            report.sample(6, || trace_json(script, &m, &r));
                        }
                    }
                    report.add_transitions(r.done.len() as u64 + script.len() as u64);
                    f
                }
                Err(RealErr::Hang) => vec![("real:always-fires:hang".into(), format!("the real runtime did not finish the trace within {HANG:?}"), true)],
                Err(RealErr::Panic(p)) => vec![("real:panic".into(), format!("panic on the real runtime: {p}"), false)],
                Err(RealErr::Setup(e)) => vcore::machinery_error(&e),
            };
            if findings.is_empty() {
                report.traces_validated.fetch_add(1, Ordering::Relaxed);
                report.count("real_traces_validated", 1);
                if attempt > 1 {
                    report.count("real_traces_needing_retry_for_lateness", 1);
                }
                return;
            }
            let only_tolerance = findings.iter().all(|f| f.2);
            if only_tolerance && attempt < ATTEMPTS {
                continue;
            }
            // a tolerance-based finding is reported only if it persisted through all attempts
            for (key, detail, tol) in findings.into_iter().filter(|f| only_tolerance || !f.2) {
                report.violation(Violation {
                    key,
                    what: format!("real trace {} (1 tick = {:?}{}): {detail}", script_text(script), RTICK, if tol { format!("; tolerance-based, reproduced in {attempt} attempts") } else { String::new() }),
                    replay: json!({"engine": "e_c09", "mode": "real", "script": script.iter().map(|o| o.to_string()).collect::<Vec<_>>() }),
                });
            }
            return;
        }
    });
    report.extra("conformance", json!({"traces": all.len(), "wall_s": t0.elapsed().as_secs_f64(), "max_observed_lateness_us_including_retried_attempts": MAX_LATE_US.load(Ordering::Relaxed)}));
    println!("C09 conformance: traces={} validated={} wall={:.1}s", all.len(), report.traces_validated.load(Ordering::Relaxed), t0.elapsed().as_secs_f64());
}

pub fn replay(r: &Value) -> i32 {
    let Some(ops) = r["script"].as_array() else {
        vcore::machinery_error("replay: no script array");
    };
    let script: Vec<COp> = ops.iter().map(|o| o.as_str().and_then(COp::parse).unwrap_or_else(|| vcore::machinery_error(&format!("replay: cannot parse {o}")))).collect();
    println!("replaying real trace {}", script_text(&script));
    let rep = Report::new("C09", Tier::Quick);
    let m = match vcore::catch(|| model_run(&script)) {
        Ok(Ok(m)) => m,
        Ok(Err(v)) => {
            println!("replay: VIOLATION reproduced (model side) key={} : {}", v.key, v.detail);
            return 1;
        }
        Err(p) => {
            println!("replay: VIOLATION reproduced (model side panic): {p}");
            return 1;
        }
    };
    println!("  model: {m:?}");
    let mut bad = 0;
    for attempt in 1..=ATTEMPTS {
        match real_run(&script) {
            Ok(r) => {
                println!("  attempt {attempt}: {}", trace_json(&script, &m, &r));
                let f = compare(&script, &m, &r, &rep);
                for (k, d, tol) in &f {
                    println!("  attempt {attempt}: finding key={k} tolerance_based={tol}: {d}");
                }
                if f.iter().any(|x| !x.2) {
                    println!("replay: VIOLATION reproduced");
                    return 1;
                }
                if !f.is_empty() {
                    bad += 1;
                } else {
                    break;
                }
            }
            Err(RealErr::Hang) => {
                println!("  attempt {attempt}: hang");
                bad += 1;
            }
            Err(RealErr::Panic(p)) => {
                println!("replay: VIOLATION reproduced: panic {p}");
                return 1;
            }
            Err(RealErr::Setup(e)) => vcore::machinery_error(&e),
        }
    }
    if bad == ATTEMPTS {
        println!("replay: VIOLATION reproduced (tolerance-based, all attempts)");
        1
    } else {
        println!("replay: trace ran without violation");
        0
    }
}
