//! Virtual clock: the `Instant` the transplanted timer files see instead of `std::time::Instant`.
//!
//! Same API surface and the same arithmetic conventions as std (`a - b` and `duration_since`
//! saturate to zero, `+`/`-` of a `Duration` panic on overflow/underflow, `checked_*` return
//! `None`). `now()` reads a thread-local value that only the explorer changes.
use std::{
    cell::Cell,
    ops::{Add, AddAssign, Sub, SubAssign},
    time::Duration,
};

/// One model tick. Deadlines and clock values of the model are whole ticks.
pub const TICK: Duration = Duration::from_millis(1);
/// Clock value of a fresh world, in ticks (non-zero so that "one tick in the past" exists).
pub const BASE_TICKS: i64 = 1000;

thread_local! {
    static NOW: Cell<Duration> = const { Cell::new(Duration::from_millis(BASE_TICKS as u64)) };
}

#[derive(Clone, Copy, PartialEq, Eq, PartialOrd, Ord, Hash)]
pub struct Instant(Duration);

impl std::fmt::Debug for Instant {
    fn fmt(&self, f: &mut std::fmt::Formatter<'_>) -> std::fmt::Result {
        write!(f, "T{:+}", self.rel_ticks_f())
    }
}

#[allow(dead_code)]
impl Instant {
    pub fn now() -> Instant {
        Instant(NOW.with(|n| n.get()))
    }

    pub fn duration_since(&self, earlier: Instant) -> Duration {
        self.0.saturating_sub(earlier.0)
    }

    pub fn checked_duration_since(&self, earlier: Instant) -> Option<Duration> {
        self.0.checked_sub(earlier.0)
    }

    pub fn saturating_duration_since(&self, earlier: Instant) -> Duration {
        self.0.saturating_sub(earlier.0)
    }

    pub fn elapsed(&self) -> Duration {
        Instant::now().duration_since(*self)
    }

    pub fn checked_add(&self, d: Duration) -> Option<Instant> {
        self.0.checked_add(d).map(Instant)
    }

    pub fn checked_sub(&self, d: Duration) -> Option<Instant> {
        self.0.checked_sub(d).map(Instant)
    }

    // ---- harness side (not part of the std surface) ----

    /// Ticks relative to the base of the world (may be fractional only if the code under test
    /// produced a non-tick-aligned instant).
    fn rel_ticks_f(&self) -> f64 {
        (self.0.as_nanos() as f64) / (TICK.as_nanos() as f64) - BASE_TICKS as f64
    }

    /// Whole ticks relative to the base of the world; `None` if not tick-aligned.
    pub fn rel_ticks(&self) -> Option<i64> {
        let n = self.0.as_nanos();
        let t = TICK.as_nanos();
        if n % t != 0 {
            return None;
        }
        Some((n / t) as i64 - BASE_TICKS)
    }

    pub fn from_rel_ticks(t: i64) -> Instant {
        let abs = BASE_TICKS + t;
        assert!(abs >= 0);
        Instant(TICK * abs as u32)
    }
}

impl Add<Duration> for Instant {
    type Output = Instant;

    fn add(self, d: Duration) -> Instant {
        self.checked_add(d).expect("overflow when adding duration to instant")
    }
}

impl AddAssign<Duration> for Instant {
    fn add_assign(&mut self, d: Duration) {
        *self = *self + d;
    }
}

impl Sub<Duration> for Instant {
    type Output = Instant;

    fn sub(self, d: Duration) -> Instant {
        self.checked_sub(d).expect("overflow when subtracting duration from instant")
    }
}

impl SubAssign<Duration> for Instant {
    fn sub_assign(&mut self, d: Duration) {
        *self = *self - d;
    }
}

impl Sub<Instant> for Instant {
    type Output = Duration;

    fn sub(self, other: Instant) -> Duration {
        self.duration_since(other)
    }
}

/// Reset the calling thread's clock to the base value.
pub fn reset() {
    NOW.with(|n| n.set(TICK * BASE_TICKS as u32));
}

/// Advance the calling thread's clock by whole ticks.
pub fn advance(ticks: u32) {
    NOW.with(|n| n.set(n.get() + TICK * ticks));
}

/// Current clock in ticks relative to the base.
pub fn now_ticks() -> i64 {
    Instant::now().rel_ticks().expect("clock is tick aligned")
}
