//! C09 part 1 — explicit-state BFS with a virtual clock over the REAL timer code.
//!
//! The checked object is a fresh `TimerRuntime` (transplanted `time/runtime.rs`) behind the
//! stand-in `Runtime`, plus the real `Sleep` / `Timeout` / `Interval` futures created through the
//! real `time::{sleep, sleep_until, timeout, timeout_at, interval_at}`. The explorer owns all
//! nondeterminism: the clock only moves when an operation says so, the "driver" returns when the
//! operation says so, futures are polled and dropped only by operations.
//!
//! Operations (alphabet):
//!   Sleep(d)        create a sleep with deadline now+d ticks (d<0: `sleep_until(now-|d|)`, else `sleep(d)`)
//!   Timeout(d, r)   `timeout`/`timeout_at` with deadline now+d around an inner future that is ready
//!                   from virtual time now+r on (returns a unique value)
//!   Tick(s, p)      first use: `interval_at(now+s, p ticks)` and start `tick()`; later: start the next `tick()`
//!   Poll(i, w)      poll future i with its counting waker number w (two distinct wakers per future)
//!   Drop(i)         drop future i
//!   Busy            a task computes for one tick: clock += 1, no `wake()`
//!   Loop(delta)     one iteration of `Runtime::poll`: t = min_timeout(); the driver returns after
//!                   delta ticks, delta in 0..=t+1 (early because of I/O / exactly / late; t = None:
//!                   0..=2, woken by I/O only); inner "I/O" futures that became ready are woken;
//!                   then `TimerRuntime::wake()`
//!
//! A state is the operation history that reaches it; every transition is executed by replaying
//! the history on a fresh real object and applying one more operation. States are merged by
//! `World::canon()`.
//!
//! Why merged states have the same futures. `canon()` contains: the clock; for every alive future
//! its kind, requested deadline, inner-ready time, whether its expiry was already observed,
//! whether the async state machine of a tick was started, and which of its two wakers is
//! registered; the observed wheel of the REAL `TimerRuntime` (deadline and registered waker of
//! every entry, in wheel order, with the owning future identified); the observed `min_timeout()`;
//! the interval's parameters. Alive futures are listed in wheel order (those without a wheel entry
//! sorted by descriptor), so two histories with equal `canon()` have a bijection between their
//! alive futures that preserves every listed attribute and the relative order of the wheel keys.
//! What is *not* in `canon()` is (1) the absolute value of the `generation` counter and of each
//! key's generation, (2) the slot numbers, (3) the wake counters and result values. The code under
//! test uses generations only through `Ord` between existing keys and through "a new key is larger
//! than every existing one" (counter overflow needs 2^64 creations), so an order-preserving
//! renaming of generations is an isomorphism of the wheel; slot numbers are harness names and
//! every operation exists for every slot; wake counters are only compared before/after a single
//! transition. Hence every operation sequence produces the same observations from both
//! histories, and expanding one representative is enough.
use std::{
    cell::{Cell, RefCell},
    collections::{HashMap, HashSet},
    future::Future,
    pin::Pin,
    rc::Rc,
    sync::{
        Arc, Mutex,
        atomic::{AtomicU64, Ordering},
    },
    task::{Context, Poll, Wake, Waker},
};

use vcore::{Report, Tier, Value, Violation, json};

use crate::{
    Runtime, time,
    vclock::{self, Instant, TICK},
};

// ------------------------------------------------------------------------------------------------
// operations
// ------------------------------------------------------------------------------------------------

#[derive(Clone, Copy, PartialEq, Eq, Hash, Debug)]
pub enum Op {
    Sleep(i8),
    Timeout(i8, i8),
    Tick(i8, u8),
    Poll(u8, u8),
    Drop(u8),
    Busy,
    Loop(u8),
}

impl std::fmt::Display for Op {
    fn fmt(&self, f: &mut std::fmt::Formatter<'_>) -> std::fmt::Result {
        match self {
            Op::Sleep(d) => write!(f, "Sleep({d:+})"),
            Op::Timeout(d, r) => write!(f, "Timeout({d:+},{r:+})"),
            Op::Tick(s, p) => write!(f, "Tick({s:+},{p})"),
            Op::Poll(i, w) => write!(f, "Poll({i},{w})"),
            Op::Drop(i) => write!(f, "Drop({i})"),
            Op::Busy => write!(f, "Busy"),
            Op::Loop(d) => write!(f, "Loop({d})"),
        }
    }
}

impl Op {
    pub fn parse(s: &str) -> Option<Op> {
        let s = s.trim();
        if s == "Busy" {
            return Some(Op::Busy);
        }
        let open = s.find('(')?;
        let name = &s[..open];
        let args: Vec<i64> = s[open + 1..s.len() - 1]
            .split(',')
            .map(|x| x.trim().trim_start_matches('+').parse::<i64>())
            .collect::<Result<_, _>>()
            .ok()?;
        Some(match (name, args.as_slice()) {
            ("Sleep", [d]) => Op::Sleep(*d as i8),
            ("Timeout", [d, r]) => Op::Timeout(*d as i8, *r as i8),
            ("Tick", [s, p]) => Op::Tick(*s as i8, *p as u8),
            ("Poll", [i, w]) => Op::Poll(*i as u8, *w as u8),
            ("Drop", [i]) => Op::Drop(*i as u8),
            ("Loop", [d]) => Op::Loop(*d as u8),
            _ => return None,
        })
    }
}

pub fn hist_text(h: &[Op]) -> String {
    let v: Vec<String> = h.iter().map(|o| o.to_string()).collect();
    format!("[{}]", v.join(", "))
}

#[derive(Clone, Debug)]
pub struct Bounds {
    pub max_clock: i64,
    pub max_alive: usize,
    pub max_timeouts: usize,
    pub sleep_ds: Vec<i8>,
    pub timeout_ds: Vec<i8>,
    pub timeout_rs: Vec<i8>,
    pub iv_starts: Vec<i8>,
    pub iv_periods: Vec<u8>,
    pub waker_variants: u8,
    pub busy: bool,
    /// idle driver (no timer pending) is woken by I/O after 0..=idle_max ticks
    pub idle_max: u8,
    pub max_states: usize,
}

impl Bounds {
    pub fn for_tier(t: Tier) -> Bounds {
        let mut b = Self::for_tier_plain(t);
        // experiment knobs (development only; recorded in the evidence through `bounds`)
        if std::env::var_os("C09_NOBUSY").is_some() {
            b.busy = false;
        }
        if std::env::var_os("C09_NOTICK").is_some() {
            b.iv_starts.clear();
        }
        if std::env::var_os("C09_NOTIMEOUT").is_some() {
            b.max_timeouts = 0;
        }
        if std::env::var_os("C09_ONEWAKER").is_some() {
            b.waker_variants = 1;
        }
        if let Some(c) = std::env::var("C09_MAXCLOCK").ok().and_then(|s| s.parse().ok()) {
            b.max_clock = c;
        }
        if let Some(c) = std::env::var("C09_MAXALIVE").ok().and_then(|s| s.parse().ok()) {
            b.max_alive = c;
        }
        if let Some(c) = std::env::var("C09_MAXSTATES").ok().and_then(|s| s.parse().ok()) {
            b.max_states = c;
        }
        b
    }

    fn for_tier_plain(t: Tier) -> Bounds {
        match t {
            Tier::Quick => Bounds {
                max_clock: 6,
                max_alive: 3,
                max_timeouts: 1,
                sleep_ds: vec![-1, 0, 1, 2, 3],
                timeout_ds: vec![0, 1, 2],
                timeout_rs: vec![0, 1, 2, 3],
                iv_starts: vec![-1, 0, 1],
                iv_periods: vec![2],
                waker_variants: 2,
                busy: true,
                idle_max: 2,
                max_states: 6_000_000,
            },
            Tier::Thorough => Bounds {
                max_clock: 10,
                max_alive: 3,
                max_timeouts: 2,
                sleep_ds: vec![-1, 0, 1, 2, 3],
                timeout_ds: vec![-1, 0, 1, 2],
                timeout_rs: vec![0, 1, 2, 3],
                iv_starts: vec![-1, 0, 1],
                iv_periods: vec![2, 3],
                waker_variants: 2,
                busy: true,
                idle_max: 2,
                max_states: 60_000_000,
            },
        }
    }

    pub fn to_json(&self) -> Value {
        json!({
            "max_clock_ticks": self.max_clock,
            "max_timers_alive": self.max_alive,
            "max_timeouts_alive": self.max_timeouts,
            "max_tick_futures_alive": 1,
            "intervals_per_history": 1,
            "sleep_deadlines_rel_ticks": self.sleep_ds,
            "timeout_deadlines_rel_ticks": self.timeout_ds,
            "timeout_inner_ready_rel_ticks": self.timeout_rs,
            "interval_start_rel_ticks": self.iv_starts,
            "interval_period_ticks": self.iv_periods,
            "waker_variants_per_future": self.waker_variants,
            "busy_op": self.busy,
            "loop_delta": "0..=min_timeout+1 ticks (0..=idle_max when min_timeout is None)",
            "idle_max": self.idle_max,
            "depth": "unbounded: BFS runs to the fixpoint of the canonical state set",
            "max_states_cap": self.max_states,
        })
    }
}

// ------------------------------------------------------------------------------------------------
// the world: one fresh real object + harness reference state
// ------------------------------------------------------------------------------------------------

pub struct CountWaker(AtomicU64);

impl Wake for CountWaker {
    fn wake(self: Arc<Self>) {
        self.0.fetch_add(1, Ordering::Relaxed);
    }

    fn wake_by_ref(self: &Arc<Self>) {
        self.0.fetch_add(1, Ordering::Relaxed);
    }
}

/// The "I/O" inside a timeout: ready from virtual time `ready_at` on.
pub struct Inner {
    ready_at: Instant,
    val: u32,
    waker: Rc<RefCell<Option<Waker>>>,
}

impl Future for Inner {
    type Output = u32;

    fn poll(self: Pin<&mut Self>, cx: &mut Context<'_>) -> Poll<u32> {
        if Instant::now() >= self.ready_at {
            Poll::Ready(self.val)
        } else {
            *self.waker.borrow_mut() = Some(cx.waker().clone());
            Poll::Pending
        }
    }
}

enum Fut {
    Sleep(Pin<Box<time::Sleep>>),
    Timeout(Pin<Box<time::Timeout<Inner>>>),
    Tick(Pin<Box<dyn Future<Output = Instant>>>),
}

#[derive(Clone, Copy, PartialEq, Eq, Debug)]
enum Kind {
    Sleep,
    Timeout { ready_at: i64, val: u32 },
    Tick { started: bool, first: bool, started_at: i64 },
}

struct Slot {
    id: u32,
    fut: Fut,
    kind: Kind,
    /// deadline by specification, ticks (Tick: known once started)
    deadline: Option<i64>,
    /// generation of the wheel entry observed when the future registered itself (None: refused)
    gen_: Option<u64>,
    /// reference "expiry observed": the timer runtime refused to register the timer (then the future
    /// must be ready; whether the refusal was legitimate is the never-early oracle's business at
    /// the poll), or a wake() ran at clock >= deadline. A timer that was registered although its
    /// deadline is not in the future is NOT required to be ready before the next wake(): the
    /// statement only demands completion "once the deadline has passed", and min_timeout() == 0
    /// makes the very next loop iteration fire it.
    expired: bool,
    registered: Option<u8>,
    wakers: [(Arc<CountWaker>, Waker); 2],
    inner_waker: Option<Rc<RefCell<Option<Waker>>>>,
}

struct Iv {
    ptr: *mut time::Interval,
    start: i64,
    period: i64,
    first_done: bool,
}

#[derive(Debug, Clone)]
pub struct Vio {
    pub key: String,
    pub detail: String,
}

fn vio<T>(key: impl Into<String>, detail: impl Into<String>) -> Result<T, Vio> {
    Err(Vio {
        key: key.into(),
        detail: detail.into(),
    })
}

// events (must-reach / counters)
pub const EVENTS: &[&str] = &[
    "sleep_insert_refused_ready_at_once", // 0
    "sleep_ready_after_wake",             // 1
    "pending_although_clock_past_deadline_before_wake", // 2
    "registered_waker_invoked_on_expiry", // 3
    "two_equal_deadlines_expired_in_one_wake", // 4
    "timeout_ok",                         // 5
    "timeout_elapsed",                    // 6
    "timeout_tie_deadline_and_inner_ready_in_one_iteration", // 7
    "timeout_elapsed_at_creation_deadline_now", // 8
    "interval_tick_k_ge_2",               // 9
    "interval_tick_started_on_aligned_instant", // 10
    "drop_pending_timer",                 // 11
    "drop_expired_unpolled_timer",        // 12
    "loop_returned_early",                // 13
    "loop_returned_late",                 // 14
    "loop_idle_no_timer",                 // 15
    "waker_replaced_by_second_waker",     // 16
    "expiry_without_registered_waker",    // 17
    "min_timeout_zero_overdue",           // 18
    "spurious_wake_of_unexpired_timer",   // 19 (counter only)
    "min_timeout_shorter_than_nearest_deadline", // 20 (counter only)
    "wheel_entry_missing_for_unexpired_timer", // 21 (counter only)
];
pub const MUST_REACH: &[usize] = &[0, 1, 2, 3, 4, 5, 6, 7, 8, 9, 10, 11, 12, 13, 14, 15, 16, 17, 18];

#[derive(Default, Clone, Copy)]
pub struct Step {
    pub events: u32,
    /// packed outcome signature: op kind, result class, clock - deadline (clamped)
    pub sig: u32,
}

fn sig(op: u8, res: u8, rel: i64) -> u32 {
    ((op as u32) << 16) | ((res as u32) << 8) | ((rel.clamp(-8, 8) + 8) as u32)
}

pub fn sig_text(s: u32) -> String {
    let op = ["Sleep", "Timeout", "Tick", "Poll:Sleep", "Poll:Timeout", "Poll:Tick", "Drop", "Busy", "Loop"][(s >> 16) as usize];
    let res = [
        "registered",
        "refused",
        "Pending",
        "Ready",
        "Ok",
        "Elapsed",
        "Tick",
        "dropped-pending",
        "dropped-expired",
        "none-expired",
        "some-expired",
        "started",
        "idle",
    ][((s >> 8) & 0xff) as usize];
    format!("{op}|{res}|clock-deadline={}", (s & 0xff) as i64 - 8)
}

pub struct World {
    rt: Rc<Runtime>,
    slots: Vec<Option<Slot>>,
    iv: Option<Iv>,
    next_id: u32,
    pub log: Vec<String>,
    pub verbose: bool,
}

impl Drop for World {
    fn drop(&mut self) {
        // futures first (a tick future borrows the interval), then the interval
        self.slots.clear();
        if let Some(iv) = self.iv.take() {
            drop(unsafe { Box::from_raw(iv.ptr) });
        }
        Runtime::set_current(None);
    }
}

type Wheel = Vec<(Instant, u64, Option<Waker>)>;

impl World {
    pub fn new(max_alive: usize) -> World {
        vclock::reset();
        let rt = Runtime::new();
        Runtime::set_current(Some(rt.clone()));
        World {
            rt,
            slots: (0..max_alive).map(|_| None).collect(),
            iv: None,
            next_id: 0,
            log: Vec::new(),
            verbose: false,
        }
    }

    fn wheel(&self) -> Wheel {
        self.rt.timer_runtime.borrow().verif_observe()
    }

    fn min_timeout(&self) -> Option<std::time::Duration> {
        self.rt.timer_runtime.borrow().min_timeout()
    }

    fn clock(&self) -> i64 {
        vclock::now_ticks()
    }

    /// `min_timeout()` of the real object in whole ticks (rounded up)
    pub fn min_timeout_ticks(&self) -> Option<i64> {
        self.min_timeout().map(|t| t.as_nanos().div_ceil(TICK.as_nanos()) as i64)
    }

    fn alive(&self) -> usize {
        self.slots.iter().filter(|s| s.is_some()).count()
    }

    fn free_slot(&self) -> Option<usize> {
        self.slots.iter().position(|s| s.is_none())
    }

    fn note(&mut self, f: impl FnOnce() -> String) {
        if self.verbose {
            let s = f();
            self.log.push(s);
        }
    }

    fn mk_wakers() -> [(Arc<CountWaker>, Waker); 2] {
        let a = Arc::new(CountWaker(AtomicU64::new(0)));
        let b = Arc::new(CountWaker(AtomicU64::new(0)));
        [(a.clone(), Waker::from(a)), (b.clone(), Waker::from(b))]
    }

    /// generation of the entry that appeared since `before` (at most one expected)
    fn new_entry(&self, before: &Wheel, what: &str) -> Result<Option<u64>, Vio> {
        let after = self.wheel();
        let newg: Vec<u64> = after.iter().filter(|(_, g, _)| !before.iter().any(|(_, g0, _)| g0 == g)).map(|(_, g, _)| *g).collect();
        match newg.as_slice() {
            [] => Ok(None),
            [g] => Ok(Some(*g)),
            _ => vio("model:residue:several-entries-for-one-timer", format!("{what} added {} wheel entries", newg.len())),
        }
    }

    pub fn enabled(&self, b: &Bounds) -> Vec<Op> {
        let mut v = Vec::new();
        let clock = self.clock();
        let alive = self.alive();
        if alive < b.max_alive {
            for &d in &b.sleep_ds {
                v.push(Op::Sleep(d));
            }
            let timeouts = self.slots.iter().flatten().filter(|s| matches!(s.kind, Kind::Timeout { .. })).count();
            if timeouts < b.max_timeouts {
                for &d in &b.timeout_ds {
                    for &r in &b.timeout_rs {
                        v.push(Op::Timeout(d, r));
                    }
                }
            }
            let ticking = self.slots.iter().flatten().any(|s| matches!(s.kind, Kind::Tick { .. }));
            if !ticking {
                if self.iv.is_some() {
                    v.push(Op::Tick(0, 0));
                } else {
                    for &s in &b.iv_starts {
                        for &p in &b.iv_periods {
                            v.push(Op::Tick(s, p));
                        }
                    }
                }
            }
        }
        for (i, s) in self.slots.iter().enumerate() {
            if s.is_some() {
                for w in 0..b.waker_variants {
                    v.push(Op::Poll(i as u8, w));
                }
                v.push(Op::Drop(i as u8));
            }
        }
        // with an empty wheel Busy is indistinguishable from Loop(1) (wake() returns at once)
        if b.busy && clock < b.max_clock && self.min_timeout().is_some() {
            v.push(Op::Busy);
        }
        let maxd = match self.min_timeout() {
            None => b.idle_max as i64,
            Some(t) => {
                let n = t.as_nanos();
                let k = TICK.as_nanos();
                (n.div_ceil(k)) as i64 + 1
            }
        };
        for d in 0..=maxd {
            if clock + d <= b.max_clock {
                v.push(Op::Loop(d as u8));
            }
        }
        v
    }

    /// Applies one operation to the real object, checks the transition oracles and the state
    /// invariants.
    pub fn apply(&mut self, op: Op) -> Result<Step, Vio> {
        self.apply_with(op, true)
    }

    /// `check_invariants = false` is used for the prefix of a replay only: those states already
    /// passed `check_state` when they were discovered (the transition oracles still run).
    pub fn apply_with(&mut self, op: Op, check_invariants: bool) -> Result<Step, Vio> {
        let mut st = match op {
            Op::Sleep(d) => self.op_sleep(d)?,
            Op::Timeout(d, r) => self.op_timeout(d, r)?,
            Op::Tick(s, p) => self.op_tick(s, p)?,
            Op::Poll(i, w) => self.op_poll(i as usize, w as usize)?,
            Op::Drop(i) => self.op_drop(i as usize)?,
            Op::Busy => {
                vclock::advance(1);
                Step { events: 0, sig: sig(7, 2, 0) }
            }
            Op::Loop(d) => self.op_loop(d)?,
        };
        if check_invariants {
            st.events |= self.check_state()?;
        }
        Ok(st)
    }

    fn op_sleep(&mut self, d: i8) -> Result<Step, Vio> {
        let i = self.free_slot().expect("Sleep enabled only with a free slot");
        let clock = self.clock();
        let before = self.wheel();
        let fut = if d >= 0 {
            time::sleep(TICK * d as u32)
        } else {
            time::sleep_until(Instant::now() - TICK * (-d) as u32)
        };
        let gen_ = self.new_entry(&before, "creating a sleep")?;
        let deadline = clock + d as i64;
        let id = self.next_id;
        self.next_id += 1;
        self.note(|| format!("#{id} = Sleep deadline T{deadline:+} at clock T{clock:+}: wheel entry {}", if gen_.is_some() { "registered" } else { "refused (already due)" }));
        self.slots[i] = Some(Slot {
            id,
            fut: Fut::Sleep(Box::pin(fut)),
            kind: Kind::Sleep,
            deadline: Some(deadline),
            gen_,
            expired: gen_.is_none(),
            registered: None,
            wakers: Self::mk_wakers(),
            inner_waker: None,
        });
        Ok(Step {
            events: 0,
            sig: sig(0, if gen_.is_some() { 0 } else { 1 }, clock - deadline),
        })
    }

    fn op_timeout(&mut self, d: i8, r: i8) -> Result<Step, Vio> {
        let i = self.free_slot().expect("Timeout enabled only with a free slot");
        let clock = self.clock();
        let before = self.wheel();
        let id = self.next_id;
        self.next_id += 1;
        let cell = Rc::new(RefCell::new(None));
        let val = 7000 + id;
        let inner = Inner {
            ready_at: Instant::now() + TICK * r as u32,
            val,
            waker: cell.clone(),
        };
        let fut = if d > 0 {
            time::timeout(TICK * d as u32, inner)
        } else {
            time::timeout_at(Instant::now() - TICK * (-d) as u32, inner)
        };
        let gen_ = self.new_entry(&before, "creating a timeout")?;
        let deadline = clock + d as i64;
        self.note(|| format!("#{id} = Timeout deadline T{deadline:+}, inner ready from T{:+}, at clock T{clock:+}: wheel entry {}", clock + r as i64, if gen_.is_some() { "registered" } else { "refused (already due)" }));
        self.slots[i] = Some(Slot {
            id,
            fut: Fut::Timeout(Box::pin(fut)),
            kind: Kind::Timeout { ready_at: clock + r as i64, val },
            deadline: Some(deadline),
            gen_,
            expired: gen_.is_none(),
            registered: None,
            wakers: Self::mk_wakers(),
            inner_waker: Some(cell),
        });
        Ok(Step {
            events: 0,
            sig: sig(1, if gen_.is_some() { 0 } else { 1 }, clock - deadline),
        })
    }

    fn op_tick(&mut self, s: i8, p: u8) -> Result<Step, Vio> {
        let i = self.free_slot().expect("Tick enabled only with a free slot");
        let clock = self.clock();
        if self.iv.is_none() {
            let start = if s >= 0 { Instant::now() + TICK * s as u32 } else { Instant::now() - TICK * (-s) as u32 };
            let iv = time::interval_at(start, TICK * p as u32);
            self.iv = Some(Iv {
                ptr: Box::into_raw(Box::new(iv)),
                start: clock + s as i64,
                period: p as i64,
                first_done: false,
            });
            self.note(|| format!("interval_at(T{:+}, {p} ticks) at clock T{clock:+}", clock + s as i64));
        }
        let iv = self.iv.as_ref().unwrap();
        // SAFETY: the interval lives in a leaked box that is freed only after every slot (and so
        // every tick future) was dropped; at most one tick future exists at a time and nothing else
        // touches the interval while it exists.
        let fut: Pin<Box<dyn Future<Output = Instant>>> = Box::pin(unsafe { &mut *iv.ptr }.tick());
        let id = self.next_id;
        self.next_id += 1;
        self.note(|| format!("#{id} = interval.tick() (lazy until first poll)"));
        self.slots[i] = Some(Slot {
            id,
            fut: Fut::Tick(fut),
            kind: Kind::Tick { started: false, first: false, started_at: 0 },
            deadline: None,
            gen_: None,
            expired: false,
            registered: None,
            wakers: Self::mk_wakers(),
            inner_waker: None,
        });
        Ok(Step { events: 0, sig: sig(2, 11, 0) })
    }

    fn peers_class(&self, deadline: i64) -> &'static str {
        // other alive timers with the same / an earlier / a later deadline (class of the failing input)
        let mut eq = false;
        let mut other = false;
        for s in self.slots.iter().flatten() {
            match s.deadline {
                Some(d) if d == deadline => eq = true,
                Some(_) => other = true,
                None => {}
            }
        }
        if eq {
            "equal-deadline-peer"
        } else if other {
            "other-deadline-peer"
        } else {
            "alone"
        }
    }

    fn op_poll(&mut self, i: usize, w: usize) -> Result<Step, Vio> {
        let mut slot = self.slots[i].take().expect("Poll enabled only for alive slots");
        let clock = self.clock();
        let before = self.wheel();
        let mut ev = 0u32;
        let mut just_started = false;
        // a tick's state machine starts at its first poll: the specification of its deadline
        if let Kind::Tick { started: false, .. } = slot.kind {
            let iv = self.iv.as_ref().unwrap();
            let first = !iv.first_done;
            let deadline = if first {
                iv.start
            } else {
                // next instant of the interval: smallest start + k*period strictly after now
                iv.start + ((clock - iv.start).div_euclid(iv.period) + 1) * iv.period
            };
            slot.kind = Kind::Tick { started: true, first, started_at: clock };
            slot.deadline = Some(deadline);
            just_started = true;
        }
        let waker = slot.wakers[w].1.clone();
        let mut cx = Context::from_waker(&waker);
        #[derive(Debug, PartialEq)]
        enum Out {
            Unit,
            Ok(u32),
            Elapsed,
            Tick(Instant),
        }
        let res = match &mut slot.fut {
            Fut::Sleep(f) => f.as_mut().poll(&mut cx).map(|()| Out::Unit),
            Fut::Timeout(f) => f.as_mut().poll(&mut cx).map(|r| match r {
                Ok(v) => Out::Ok(v),
                Err(_) => Out::Elapsed,
            }),
            Fut::Tick(f) => f.as_mut().poll(&mut cx).map(Out::Tick),
        };
        if slot.gen_.is_none() {
            // the only future that registers during a poll is a tick at its first poll
            if let Some(g) = self.new_entry(&before, "polling")? {
                slot.gen_ = Some(g);
            }
        }
        if just_started {
            slot.expired = slot.gen_.is_none();
        }
        let deadline = slot.deadline.unwrap();
        let id = slot.id;
        let rel = clock - deadline;
        let peers = {
            // the polled slot is taken out, so this looks at the *other* alive timers
            self.peers_class(deadline)
        };
        self.note(|| format!("poll #{id} with waker {w} at clock T{clock:+} (deadline T{deadline:+}, expiry observed: {}) -> {res:?}", slot.expired));
        let opk;
        let resk;
        match slot.kind {
            Kind::Sleep => {
                opk = 3;
                match res {
                    Poll::Ready(_) => {
                        resk = 3;
                        if clock < deadline {
                            return vio(format!("model:never-early:sleep-ready-before-deadline:{peers}"), format!("sleep #{id} with deadline T{deadline:+} returned Ready at clock T{clock:+}"));
                        }
                        ev |= if slot.gen_.is_none() { 1 << 0 } else { 1 << 1 };
                    }
                    Poll::Pending => {
                        resk = 2;
                        if slot.expired {
                            return vio(
                                format!("model:always-fires:sleep-pending-after-expiry:{peers}"),
                                format!("sleep #{id} with deadline T{deadline:+} is still Pending at clock T{clock:+} although the timer runtime refused to register it (deadline not in the future) or a wake() ran at or after its deadline"),
                            );
                        }
                        if clock >= deadline {
                            ev |= 1 << 2;
                        }
                    }
                }
            }
            Kind::Timeout { ready_at, val } => {
                opk = 4;
                let inner_ready = clock >= ready_at;
                match res {
                    Poll::Ready(Out::Ok(v)) => {
                        resk = 4;
                        if !inner_ready || v != val {
                            return vio("model:timeout:ok-with-wrong-value", format!("timeout #{id} returned Ok({v}) but the inner future (ready from T{ready_at:+}, value {val}) cannot have produced it at clock T{clock:+}"));
                        }
                        ev |= 1 << 5;
                    }
                    Poll::Ready(Out::Elapsed) => {
                        resk = 5;
                        if inner_ready {
                            return vio(
                                "model:timeout:elapsed-although-inner-ready",
                                format!("timeout #{id} (deadline T{deadline:+}, inner ready from T{ready_at:+}) returned Elapsed at clock T{clock:+} although the inner future was ready at that poll"),
                            );
                        }
                        if clock < deadline {
                            return vio(format!("model:never-early:timeout-elapsed-before-deadline:{peers}"), format!("timeout #{id} with deadline T{deadline:+} returned Elapsed at clock T{clock:+}"));
                        }
                        ev |= 1 << 6;
                        if slot.gen_.is_none() {
                            ev |= 1 << 8;
                        }
                    }
                    Poll::Pending => {
                        resk = 2;
                        if inner_ready {
                            return vio(
                                "model:timeout:pending-although-inner-ready",
                                format!("timeout #{id} (inner ready from T{ready_at:+}) returned Pending at clock T{clock:+}"),
                            );
                        }
                        if slot.expired {
                            return vio(
                                format!("model:always-fires:timeout-pending-after-expiry:{peers}"),
                                format!("timeout #{id} with deadline T{deadline:+} is still Pending at clock T{clock:+} although the timer runtime refused to register it (deadline not in the future) or a wake() ran at or after its deadline (inner not ready before T{ready_at:+})"),
                            );
                        }
                        if clock >= deadline {
                            ev |= 1 << 2;
                        }
                    }
                    Poll::Ready(o) => return vio("model:machinery:impossible-output", format!("{o:?}")),
                }
            }
            Kind::Tick { first, started_at, .. } => {
                opk = 5;
                match res {
                    Poll::Ready(Out::Tick(v)) => {
                        resk = 6;
                        let iv = self.iv.as_mut().unwrap();
                        let Some(vt) = v.rel_ticks() else {
                            return vio("model:interval:misaligned", format!("tick #{id} returned {v:?}, not a whole tick although start and period are"));
                        };
                        if (vt - iv.start).rem_euclid(iv.period) != 0 {
                            return vio(
                                "model:interval:misaligned",
                                format!("tick #{id} returned T{vt:+}: not start T{:+} + k*{} (tick() first polled at T{started_at:+})", iv.start, iv.period),
                            );
                        }
                        if clock < vt {
                            return vio("model:never-early:tick-ready-before-its-instant", format!("tick #{id} returned T{vt:+} (expected instant T{deadline:+}) at clock T{clock:+}"));
                        }
                        // `deadline` is the specification: start for the first tick, else the smallest
                        // start + k*period strictly after the instant tick() was first polled. This
                        // implies vt >= start and strictly increasing tick values.
                        if vt != deadline {
                            return vio(
                                if first { "model:interval:first-tick-not-at-start" } else { "model:interval:not-the-next-instant" },
                                format!("tick #{id} started at T{started_at:+} returned T{vt:+}; expected T{deadline:+} (start T{:+}, period {}, first tick: {first})", iv.start, iv.period),
                            );
                        }
                        if (vt - iv.start) / iv.period >= 2 {
                            ev |= 1 << 9;
                        }
                        if !first && (started_at - iv.start).rem_euclid(iv.period) == 0 {
                            ev |= 1 << 10;
                        }
                        iv.first_done = true;
                    }
                    Poll::Pending => {
                        resk = 2;
                        if slot.expired {
                            return vio(
                                format!("model:always-fires:tick-pending-after-expiry:{peers}"),
                                format!("tick #{id} waiting for T{deadline:+} is still Pending at clock T{clock:+} although the timer runtime refused to register it or a wake() ran at or after that instant"),
                            );
                        }
                        if clock >= deadline {
                            ev |= 1 << 2;
                        }
                    }
                    Poll::Ready(o) => return vio("model:machinery:impossible-output", format!("{o:?}")),
                }
            }
        }
        if res.is_pending() {
            if let Some(prev) = slot.registered {
                if prev as usize != w {
                    ev |= 1 << 16;
                }
            }
            slot.registered = Some(w as u8);
            self.slots[i] = Some(slot);
        } else {
            drop(slot); // completed futures are dropped at once; residue is checked by check_state
        }
        Ok(Step { events: ev, sig: sig(opk, resk, rel) })
    }

    fn op_drop(&mut self, i: usize) -> Result<Step, Vio> {
        let slot = self.slots[i].take().expect("Drop enabled only for alive slots");
        let clock = self.clock();
        let id = slot.id;
        let mut ev = 0;
        let pending = slot.gen_.is_some() && !slot.expired;
        if pending {
            ev |= 1 << 11;
        } else if slot.gen_.is_some() && slot.expired {
            ev |= 1 << 12;
        }
        let rel = slot.deadline.map(|d| clock - d).unwrap_or(0);
        drop(slot);
        self.note(|| format!("drop #{id} at clock T{clock:+}"));
        Ok(Step { events: ev, sig: sig(6, if pending { 7 } else { 8 }, rel) })
    }

    fn op_loop(&mut self, delta: u8) -> Result<Step, Vio> {
        let mut ev = 0u32;
        let t = self.min_timeout();
        match t {
            None => ev |= 1 << 15,
            Some(t) => {
                let tt = t.as_nanos().div_ceil(TICK.as_nanos()) as i64;
                if (delta as i64) < tt {
                    ev |= 1 << 13;
                } else if delta as i64 > tt {
                    ev |= 1 << 14;
                }
            }
        }
        vclock::advance(delta as u32);
        let clock = self.clock();
        // the driver delivers I/O completions before the timer pass
        for s in self.slots.iter().flatten() {
            if let (Kind::Timeout { ready_at, .. }, Some(cell)) = (s.kind, &s.inner_waker) {
                if ready_at <= clock {
                    if let Some(w) = cell.borrow_mut().take() {
                        w.wake();
                    }
                }
            }
        }
        let counts = |s: &Slot| [s.wakers[0].0.0.load(Ordering::Relaxed), s.wakers[1].0.0.load(Ordering::Relaxed)];
        let before: Vec<Option<[u64; 2]>> = self.slots.iter().map(|s| s.as_ref().map(counts)).collect();
        self.rt.timer_runtime.borrow_mut().wake();
        let mut newly: Vec<(u32, i64)> = Vec::new();
        let mut vios = Vec::new();
        for (i, s) in self.slots.iter_mut().enumerate() {
            let Some(s) = s else { continue };
            let after = counts(s);
            let b = before[i].unwrap();
            let Some(deadline) = s.deadline else { continue };
            if s.gen_.is_some() && !s.expired && clock >= deadline {
                s.expired = true;
                newly.push((s.id, deadline));
                if let Kind::Timeout { ready_at, .. } = s.kind {
                    // (evaluated here, not at the poll: merged states forget the exact times of a
                    // timeout that is both expired and ready)
                    if ready_at == deadline {
                        ev |= 1 << 7;
                    }
                }
                match s.registered {
                    Some(w) => {
                        if after[w as usize] <= b[w as usize] {
                            vios.push((s.id, deadline, w, after[1 - w as usize] > b[1 - w as usize]));
                        } else {
                            ev |= 1 << 3;
                        }
                    }
                    None => ev |= 1 << 17,
                }
            } else if !s.expired && (after[0] > b[0] || after[1] > b[1]) {
                ev |= 1 << 19;
            }
        }
        self.note(|| format!("loop iteration: min_timeout {t:?}, driver returned after {delta} tick(s), clock T{clock:+}, wake(): newly expired {newly:?}"));
        if let Some((id, deadline, w, other)) = vios.first().copied() {
            let eq = newly.iter().filter(|(_, d)| *d == deadline).count() > 1;
            return vio(
                format!("model:always-fires:waker-not-invoked:{}", if other { "stale-waker-invoked-instead" } else if eq { "equal-deadline-peer" } else { "plain" }),
                format!("timer #{id} with deadline T{deadline:+} expired in wake() at clock T{clock:+} but its registered waker {w} was not invoked"),
            );
        }
        for (k, (_, d)) in newly.iter().enumerate() {
            if newly[k + 1..].iter().any(|(_, d2)| d2 == d) {
                ev |= 1 << 4;
            }
        }
        Ok(Step {
            events: ev,
            sig: sig(8, if t.is_none() { 12 } else if newly.is_empty() { 9 } else { 10 }, delta as i64),
        })
    }

    /// State invariants, evaluated after every operation.
    fn check_state(&mut self) -> Result<u32, Vio> {
        let mut ev = 0u32;
        let clock = self.clock();
        let wheel = self.wheel();
        // (a) nothing left behind: every wheel entry belongs to an alive future
        for (d, g, _) in &wheel {
            if !self.slots.iter().flatten().any(|s| s.gen_ == Some(*g)) {
                let all_gone = self.alive() == 0;
                return vio(
                    format!("model:residue:wheel-entry-without-owner:{}", if all_gone { "no-timer-alive" } else { "others-alive" }),
                    format!("at clock T{clock:+} the wheel holds an entry with deadline {d:?} whose future was dropped or has completed ({} entries, {} futures alive)", wheel.len(), self.alive()),
                );
            }
        }
        // (b) an idle runtime sleeps no longer than the nearest pending deadline
        let mut nearest: Option<i64> = None;
        for s in self.slots.iter().flatten() {
            if let (Some(d), Some(g)) = (s.deadline, s.gen_) {
                if !s.expired {
                    nearest = Some(nearest.map_or(d, |n: i64| n.min(d)));
                    if !wheel.iter().any(|(_, wg, _)| *wg == g) {
                        ev |= 1 << 21;
                    }
                }
            }
        }
        let expect = nearest.map(|n| TICK * (n - clock).max(0) as u32);
        let got = self.min_timeout();
        match (expect, got) {
            (Some(_), None) => {
                return vio("model:min-timeout:none-with-pending-timer", format!("at clock T{clock:+} the nearest pending deadline is T{:+} but min_timeout() is None: an idle runtime would sleep forever", nearest.unwrap()));
            }
            (Some(e), Some(g)) if g > e => {
                let n = nearest.unwrap();
                let cls = if self.slots.iter().flatten().filter(|s| !s.expired && s.gen_.is_some()).count() > 1 { "several-pending" } else { "one-pending" };
                return vio(
                    format!("model:min-timeout:longer-than-nearest-deadline:{cls}"),
                    format!("at clock T{clock:+} the nearest pending deadline is T{n:+} but min_timeout() is {g:?} (> {e:?}): an idle runtime would oversleep"),
                );
            }
            (Some(e), Some(g)) if g < e => ev |= 1 << 20,
            (None, Some(_)) => ev |= 1 << 20,
            _ => {}
        }
        if expect == Some(std::time::Duration::ZERO) && got == Some(std::time::Duration::ZERO) {
            ev |= 1 << 18;
        }
        Ok(ev)
    }

    /// Canonical observation used to merge states (see the module comment for the argument).
    pub fn canon(&self) -> Vec<u8> {
        let clock = self.clock();
        let wheel = self.wheel();
        let mut out: Vec<u8> = Vec::with_capacity(48);
        out.push(clock as u8);
        match self.min_timeout() {
            None => out.extend_from_slice(&[0xff; 2]),
            Some(t) => {
                let n = t.as_nanos();
                if n % TICK.as_nanos() == 0 && n / TICK.as_nanos() < 0xff00 {
                    out.extend_from_slice(&((n / TICK.as_nanos()) as u16).to_le_bytes());
                } else {
                    out.extend_from_slice(&[0xfe; 2]);
                    out.extend_from_slice(&(n as u64).to_le_bytes());
                }
            }
        }
        match &self.iv {
            None => out.push(0),
            Some(iv) => {
                out.push(1);
                // after the first tick the code (and the oracle) use `start` only through
                // (now - start) % period with now >= start, i.e. through start mod period
                out.push(if iv.first_done { iv.start.rem_euclid(iv.period) as u8 } else { iv.start as u8 });
                out.push(iv.period as u8);
                out.push(iv.first_done as u8);
            }
        }
        // alive futures: (wheel position | 255, descriptor). Abstractions (each one an automorphism or
        // a provably unobservable attribute):
        //  * the two wakers of a future are interchangeable (swapping them swaps Poll(i,0)/Poll(i,1)),
        //    so only "a waker is registered" and "the wheel entry holds exactly that waker" are kept;
        //  * once the expiry of a timer was observed AND the real wheel no longer holds its entry, its
        //    deadline and waker can never be looked at again (the next poll returns Ready and the
        //    future is dropped; clock >= deadline stays true because the clock is monotonic);
        //  * an inner future that is already ready makes the next poll return Ok whatever its exact
        //    ready time; an expired timeout whose inner is not ready returns Elapsed whatever it is;
        //  * a started tick's `first`/`started_at` are functions of the interval state and its
        //    deadline (the verdict "is the next instant" depends on started_at only through it).
        let mut descs: Vec<[u8; 8]> = Vec::with_capacity(self.slots.len());
        for s in self.slots.iter().flatten() {
            let pos = s.gen_.and_then(|g| wheel.iter().position(|(_, wg, _)| *wg == g)).map_or(255u8, |p| p as u8);
            let gone = s.expired && pos == 255;
            let (k, a) = match s.kind {
                Kind::Sleep => (0u8, 0u8),
                Kind::Timeout { ready_at, .. } => (1, if ready_at <= clock { 0x70 } else if gone { 0x71 } else { ready_at as u8 }),
                Kind::Tick { started, .. } => (2, started as u8),
            };
            // waker class of the wheel entry as seen in the real object
            let wclass = match pos {
                255 => 9u8,
                p => match (&wheel[p as usize].2, s.registered) {
                    (None, _) => 0,
                    (Some(w), Some(r)) if w.will_wake(&s.wakers[r as usize].1) => 1,
                    (Some(_), _) => 2,
                },
            };
            let wdead = match pos {
                255 => 0x7f,
                p => wheel[p as usize].0.rel_ticks().map_or(0x7e, |t| if t <= clock { 0x7c } else { t as u8 }),
            };
            //  * an unexpired timer whose deadline is <= clock ("due": the clock passed it without a
            //    wake()) behaves the same whatever the exact deadline: wake() removes every key
            //    <= now, min_timeout() saturates to zero, cancel() goes by key, and "never early"
            //    holds from now on; the relative wheel order is kept through `pos`.
            let due = |d: i64| if d <= clock { 0x7c } else { d as u8 };
            let deadline = if gone { 0x7d } else { s.deadline.map_or(0x7f, due) };
            let registered = if gone { 0 } else { s.registered.is_some() as u8 };
            descs.push([pos, k, deadline, a, 0, s.expired as u8 | ((s.gen_.is_some() && !gone) as u8) << 1, registered | wclass << 4, wdead]);
        }
        descs.sort_unstable();
        out.push(descs.len() as u8);
        for d in &descs {
            out.extend_from_slice(d);
        }
        // wheel entries without an alive owner would be a violation (check_state), so the list above
        // already covers the whole wheel; its length is added as a cross-check
        out.push(wheel.len() as u8);
        out
    }

    pub fn describe(&self) -> String {
        let wheel = self.wheel();
        let w: Vec<String> = wheel.iter().map(|(d, g, w)| format!("({d:?}, gen {g}, waker {})", if w.is_some() { "set" } else { "none" })).collect();
        let a: Vec<String> = self
            .slots
            .iter()
            .enumerate()
            .filter_map(|(i, s)| s.as_ref().map(|s| format!("slot {i}: #{} {:?} deadline {:?} expired {} registered {:?}", s.id, s.kind, s.deadline, s.expired, s.registered)))
            .collect();
        format!("clock T{:+}; min_timeout {:?}; wheel [{}]; alive [{}]", self.clock(), self.min_timeout(), w.join(", "), a.join("; "))
    }
}

// ------------------------------------------------------------------------------------------------
// BFS
// ------------------------------------------------------------------------------------------------

struct Node {
    parent: u32,
    op: Op,
}

fn history(nodes: &[Node], mut id: u32) -> Vec<Op> {
    let mut h = Vec::new();
    while id != 0 {
        let n = &nodes[id as usize];
        h.push(n.op);
        id = n.parent;
    }
    h.reverse();
    h
}

struct Cand {
    op: Op,
    key: Vec<u8>,
    enabled: Vec<Op>,
}

enum Outcome {
    Cand(Cand),
    Vio(Op, Vio),
}

struct Frontier {
    id: u32,
    key: Vec<u8>,
    enabled: Vec<Op>,
}

/// Replays `hist` on a fresh world (must succeed: it succeeded when the state was discovered).
fn rebuild(b: &Bounds, hist: &[Op]) -> World {
    let mut w = World::new(b.max_alive);
    for (k, op) in hist.iter().enumerate() {
        if let Err(v) = w.apply_with(*op, false) {
            vcore::machinery_error(&format!("NONDETERMINISM: replaying {} failed at step {k} with {}: {}", hist_text(hist), v.key, v.detail));
        }
    }
    w
}

/// The configurations explored per tier: the main one, and a second one with four timers alive
/// over a reduced alphabet (sleeps and interval only).
pub fn configs(tier: Tier) -> Vec<(&'static str, Bounds)> {
    let main = Bounds::for_tier(tier);
    let mut v = vec![("A: three timers alive, full alphabet", main.clone())];
    if std::env::var_os("C09_ONLY_MAIN").is_none() {
        v.push((
            "B: four timers alive, sleeps and interval only",
            Bounds {
                max_clock: tier.pick(5, 8),
                max_alive: 4,
                max_timeouts: 0,
                iv_periods: vec![2],
                ..main
            },
        ));
    }
    v
}

pub fn run(report: &Report, tier: Tier) {
    let cfgs = configs(tier);
    report.extra("bounds", Value::Object(cfgs.iter().map(|(n, b)| (n.to_string(), b.to_json())).collect()));
    report.rule(
        "explicit-state BFS to the fixpoint: every enabled operation (Sleep/Timeout/Tick/Poll/Drop/Busy/Loop(delta), see bounds) is applied to every distinct canonical state; each transition is executed on a fresh REAL TimerRuntime + real Sleep/Timeout/Interval futures (transplanted source, virtual clock) by replaying the state's history; states = distinct canonical observations (= evaluations: each state's shortest history executed and checked), transitions = operations executed from distinct states, each checked against the transition oracles and the state invariants; distinct_nontrivial = distinct (operation kind, result, clock-deadline) signatures; traces_validated_against_impl = maximal traces of the reduced space replayed on the real compio_runtime::Runtime in real time",
    );
    for &e in MUST_REACH {
        report.must_reach(EVENTS[e]);
    }
    report.assume("the model-checked object is the text of compio-runtime/src/time/{mod,runtime,future}.rs of the current tree compiled inside the harness: `std::time::Instant` is re-bound to a virtual clock with std's API and arithmetic conventions, `crate::Runtime` to a stand-in providing `with_current` and the `timer_runtime` field; the run loop of Runtime::block_on/poll/poll_with is modelled by Loop(delta) = min_timeout(); clock += delta; wake() as read from compio-runtime/src/lib.rs (not transplanted)");
    report.assume("states are merged by a canonical observation of the real object plus harness reference state; the adequacy of the abstractions in it (generation renaming, waker symmetry, due/expired/ready collapsing, interval start modulo period) is argued in model.rs from reading the code, not checked mechanically; every transition itself is executed on the real code, so a wrong merge can only lose coverage, never raise a false alarm");
    report.assume("determinism guard: every expanded state is rebuilt by replay and its canonical observation compared with the one recorded when it was discovered (mismatch = machinery error)");
    report.assume("oracle reading of the statement: a timer registered although its deadline is not in the future may stay Pending until the next wake() (completion is required 'once the deadline has passed' and the runtime had a loop iteration); min_timeout() shorter than the nearest deadline is counted, not a violation (the statement only forbids sleeping longer)");
    let mut stats = Vec::new();
    for (i, (name, b)) in cfgs.iter().enumerate() {
        stats.push(run_config(report, name, b, i == 0));
    }
    report.extra("model", Value::Array(stats));
}

fn run_config(report: &Report, name: &str, b: &Bounds, with_samples: bool) -> Value {
    let b = b.clone();
    let t0 = std::time::Instant::now();

    let mut nodes: Vec<Node> = vec![Node { parent: 0, op: Op::Busy }];
    let mut seen: HashSet<Vec<u8>> = HashSet::new();
    let root = World::new(b.max_alive);
    let root_key = root.canon();
    let root_enabled = root.enabled(&b);
    drop(root);
    seen.insert(root_key.clone());
    let mut frontier = vec![Frontier { id: 0, key: root_key, enabled: root_enabled }];
    let mut depth = 0usize;
    let mut transitions = 0u64;
    let mut replayed_steps = 0u64;
    let mut level_sizes = Vec::new();
    let events = Mutex::new([0u64; 32]);
    let sigs: Mutex<HashSet<u32>> = Mutex::new(HashSet::new());
    let mut capped = false;
    let mut sample_hist: Vec<Vec<Op>> = Vec::new();

    while !frontier.is_empty() {
        level_sizes.push(frontier.len());
        let results: Mutex<Vec<(usize, Vec<Outcome>)>> = Mutex::new(Vec::new());
        let steps = AtomicU64::new(0);
        let nodes_ref = &nodes;
        let bref = &b;
        // chunks keep the per-item locking overhead down
        let chunk = 64usize;
        let chunks: Vec<(usize, usize)> = (0..frontier.len()).step_by(chunk).map(|s| (s, (s + chunk).min(frontier.len()))).collect();
        let fr = &frontier;
        vcore::par_for_each(&chunks, |_, &(lo, hi)| {
            let mut local_ev = [0u64; 32];
            let mut local_sigs: HashSet<u32> = HashSet::new();
            let mut local_res = Vec::with_capacity(hi - lo);
            let mut local_steps = 0u64;
            for fi in lo..hi {
                let f = &fr[fi];
                let hist = history(nodes_ref, f.id);
                let mut outs = Vec::with_capacity(f.enabled.len());
                for (k, &op) in f.enabled.iter().enumerate() {
                    let hist_ref = &hist;
                    let r = vcore::catch(|| {
                        let mut w = rebuild(bref, hist_ref);
                        if k == 0 && w.canon() != f.key {
                            vcore::machinery_error(&format!("NONDETERMINISM: replaying {} gave a different canonical state", hist_text(hist_ref)));
                        }
                        match w.apply(op) {
                            Ok(step) => Ok((step, w.canon(), w.enabled(bref))),
                            Err(v) => Err(v),
                        }
                    });
                    local_steps += hist.len() as u64 + 1;
                    // a panic leaves the thread's "current runtime" set; the next World::new resets it
                    match r {
                        Ok(Ok((step, key, enabled))) => {
                            for e in 0..32 {
                                if step.events & (1 << e) != 0 {
                                    local_ev[e] += 1;
                                }
                            }
                            local_sigs.insert(step.sig);
                            outs.push(Outcome::Cand(Cand { op, key, enabled }));
                        }
                        Ok(Err(v)) => outs.push(Outcome::Vio(op, v)),
                        Err(p) => outs.push(Outcome::Vio(
                            op,
                            Vio {
                                key: format!("model:panic:{}", op.to_string().split('(').next().unwrap_or("op")),
                                detail: format!("panic in the code under test: {p}"),
                            },
                        )),
                    }
                }
                local_res.push((fi, outs));
            }
            steps.fetch_add(local_steps, Ordering::Relaxed);
            {
                let mut g = events.lock().unwrap();
                for e in 0..32 {
                    g[e] += local_ev[e];
                }
            }
            sigs.lock().unwrap().extend(local_sigs);
            results.lock().unwrap().extend(local_res);
        });
        replayed_steps += steps.load(Ordering::Relaxed);
        let mut results = results.into_inner().unwrap();
        results.sort_by_key(|(i, _)| *i);
        let mut next = Vec::new();
        for (fi, outs) in results {
            let pid = frontier[fi].id;
            for o in outs {
                transitions += 1;
                match o {
                    Outcome::Cand(c) => {
                        if !seen.contains(&c.key) {
                            if seen.len() >= b.max_states {
                                capped = true;
                                continue;
                            }
                            seen.insert(c.key.clone());
                            let id = nodes.len() as u32;
                            nodes.push(Node { parent: pid, op: c.op });
                            next.push(Frontier { id, key: c.key, enabled: c.enabled });
                        }
                    }
                    Outcome::Vio(op, v) => {
                        let mut h = history(&nodes, pid);
                        h.push(op);
                        let narrative = narrate(&b, &h);
                        report.violation(Violation {
                            key: v.key.clone(),
                            what: format!("history {} : {} || step by step: {}", hist_text(&h), v.detail, narrative),
                            replay: json!({"engine": "e_c09", "mode": "model", "ops": h.iter().map(|o| o.to_string()).collect::<Vec<_>>(), "max_alive": b.max_alive, "expected_key": v.key}),
                        });
                    }
                }
            }
        }
        depth += 1;
        if std::env::var_os("C09_VERBOSE").is_some() {
            eprintln!("level {depth}: frontier {} -> new {} (states {}, transitions {transitions}, {:.1}s)", frontier.len(), next.len(), seen.len(), t0.elapsed().as_secs_f64());
        }
        // keep a few deep histories as samples
        if let Some(f) = next.last() {
            if sample_hist.len() < 64 {
                sample_hist.push(history(&nodes, f.id));
            }
        }
        frontier = next;
        if capped {
            break;
        }
    }
    let max_depth = if capped { depth } else { depth.saturating_sub(1) };
    if capped {
        report.cap_hit(&format!("model BFS [{name}] stopped at {} states (cap); levels fully expanded: {}", seen.len(), depth.saturating_sub(1)));
    }
    report.add_states(seen.len() as u64);
    report.add_transitions(transitions);
    // one evaluation per distinct state (its history executed on a fresh real object and checked);
    // vcore reports states = max(states, evaluations), so transitions are reported as transitions
    report.evaluations.fetch_add(seen.len() as u64, Ordering::Relaxed);
    let ev = events.into_inner().unwrap();
    for (i, name) in EVENTS.iter().enumerate() {
        if ev[i] > 0 {
            report.count(name, ev[i]);
        }
    }
    for s in sigs.into_inner().unwrap() {
        report.outcome(format!("model|{}", sig_text(s)));
    }
    let stat = json!({
        "config": name,
        "states": seen.len(),
        "transitions": transitions,
        "max_depth": max_depth,
        "fixpoint_reached": !capped,
        "level_sizes": level_sizes,
        "replayed_operation_applications": replayed_steps,
        "wall_s": t0.elapsed().as_secs_f64(),
    });
    // samples: the deepest few histories with their step-by-step observations
    for h in sample_hist.iter().rev().take(if with_samples { 3 } else { 0 }) {
        let n = narrate(&b, h);
        report.sample(6, || json!({"model_history": hist_text(h), "observations": n}));
    }
    println!(
        "C09 model [{name}]: states={} transitions={} max_depth={} fixpoint={} replayed_ops={} wall={:.1}s",
        seen.len(),
        transitions,
        max_depth,
        !capped,
        replayed_steps,
        t0.elapsed().as_secs_f64()
    );
    stat
}

/// Re-executes a history with logging on; returns the step-by-step observations.
pub fn narrate(b: &Bounds, h: &[Op]) -> String {
    let r = vcore::catch(|| {
        let mut w = World::new(b.max_alive.max(3));
        w.verbose = true;
        let mut fail = None;
        for op in h {
            if let Err(v) = w.apply(*op) {
                fail = Some(format!("VIOLATION {}: {}", v.key, v.detail));
                break;
            }
        }
        let mut s = w.log.join(" | ");
        s.push_str(" | final: ");
        s.push_str(&w.describe());
        if let Some(f) = fail {
            s.push_str(" | ");
            s.push_str(&f);
        }
        s
    });
    match r {
        Ok(s) => s,
        Err(p) => format!("(panic while narrating: {p})"),
    }
}

/// `--replay` of a model history. Exit code 1 if the recorded violation reproduces, 0 if the
/// history runs clean, 2 on malformed input.
pub fn replay(r: &Value) -> i32 {
    let Some(ops) = r["ops"].as_array() else {
        vcore::machinery_error("replay: no ops array");
    };
    let mut h = Vec::new();
    for o in ops {
        match o.as_str().and_then(Op::parse) {
            Some(op) => h.push(op),
            None => vcore::machinery_error(&format!("replay: cannot parse operation {o}")),
        }
    }
    let max_alive = r["max_alive"].as_u64().unwrap_or(3) as usize;
    println!("replaying model history {}", hist_text(&h));
    let res = vcore::catch(|| {
        let mut w = World::new(max_alive);
        w.verbose = true;
        let mut out = None;
        for op in &h {
            let n0 = w.log.len();
            let r = w.apply(*op);
            for l in &w.log[n0..] {
                println!("  {op}: {l}");
            }
            if let Err(v) = r {
                out = Some(v);
                break;
            }
        }
        println!("  final: {}", w.describe());
        out
    });
    match res {
        Ok(None) => {
            println!("replay: history ran without violation");
            0
        }
        Ok(Some(v)) => {
            println!("replay: VIOLATION reproduced key={} : {}", v.key, v.detail);
            1
        }
        Err(p) => {
            println!("replay: VIOLATION reproduced key=model:panic : {p}");
            1
        }
    }
}

// silence "unused" for items only used by the conformance part
#[allow(unused)]
fn _unused(_: Cell<u8>, _: HashMap<u8, u8>) {}
