//! E5 `vclock` — C09 "Timers never fire early and always fire".
//!
//! Part 1 (model checking): explicit-state breadth-first search over the REAL timer code
//! (`compio-runtime/src/time/{mod,runtime,future}.rs`, transplanted by build.rs with
//! `std::time::Instant` re-bound to a thread-local virtual clock and `crate::Runtime` re-bound to
//! the stand-in below), see `model.rs`.
//! Part 2 (conformance): every maximal trace of a reduced space is replayed on the real
//! `compio_runtime::Runtime` with real time, see `conform.rs`.
#![allow(dead_code)]

mod conform;
mod model;
mod vclock;

/// What the transplanted files see as `std`: the real std with `time::Instant` replaced.
/// (An explicit item shadows the glob import of the same name.)
pub(crate) mod shim_std {
    pub use ::std::*;
    pub mod time {
        pub use ::std::time::Duration;

        pub use crate::vclock::Instant;
    }
}

// `pub mod time;` mounted from OUT_DIR/time/mod.rs (generated literal, `#[path]` takes no macros).
// The transplanted files refer to `crate::time::...` and `crate::Runtime`, hence the crate root.
include!(concat!(env!("OUT_DIR"), "/mount.rs"));

/// Stand-in for the two things `time/future.rs` needs from `crate::Runtime`:
/// `Runtime::with_current(|rt| ... rt.timer_runtime ...)`.
pub(crate) struct Runtime {
    pub(crate) timer_runtime: std::rc::Rc<std::cell::RefCell<time::TimerRuntime>>,
}

thread_local! {
    static CURRENT: std::cell::RefCell<Option<std::rc::Rc<Runtime>>> = const { std::cell::RefCell::new(None) };
}

impl Runtime {
    pub(crate) fn new() -> std::rc::Rc<Self> {
        std::rc::Rc::new(Self {
            timer_runtime: std::rc::Rc::new(std::cell::RefCell::new(time::TimerRuntime::new())),
        })
    }

    /// Same contract as the real one: panics outside a runtime.
    pub fn with_current<T, F: FnOnce(&Self) -> T>(f: F) -> T {
        let rt = CURRENT.with(|c| c.borrow().clone());
        match rt {
            Some(rt) => f(&rt),
            None => panic!("not in a compio runtime"),
        }
    }

    pub(crate) fn set_current(rt: Option<std::rc::Rc<Runtime>>) {
        CURRENT.with(|c| *c.borrow_mut() = rt);
    }
}

fn main() {
    let args = vcore::parse_args();
    vcore::quiet_panics();
    match args.property.as_str() {
        "C09" => run(args),
        p => vcore::machinery_error(&format!("e_c09 does not serve property {p}")),
    }
}

fn run(args: vcore::Args) -> ! {
    use vcore::json;
    if let Some(path) = &args.replay {
        replay_file(path);
    }
    let report = vcore::Report::new("C09", args.tier);
    report.extra(
        "transplant",
        json!({
            "source_dir": env!("C09_TIME_SRC"),
            "files": ["mod.rs", "runtime.rs", "future.rs"],
            "fnv64_of_sources": env!("C09_TIME_HASH"),
            "line_shift": env!("C09_LINE_SHIFT"),
            "edits": "one inserted line per file (`use crate::shim_std as std;`) after the leading comment block; an observation accessor appended after the last line of runtime.rs",
        }),
    );
    model::run(&report, args.tier);
    if std::env::var_os("C09_SKIP_CONFORMANCE").is_none() {
        conform::run(&report, args.tier);
        conform::interval_long_running(&report, args.tier);
    } else {
        report.cap_hit("conformance replay skipped by C09_SKIP_CONFORMANCE");
    }
    report.finish()
}

/// `e_c09 C09 --replay <file>`: re-executes exactly one recorded history without the explorer.
fn replay_file(path: &std::path::Path) -> ! {
    let bytes = std::fs::read(path).unwrap_or_else(|e| vcore::machinery_error(&format!("cannot read {path:?}: {e}")));
    let v: vcore::Value = vcore::serde_json::from_slice(&bytes).unwrap_or_else(|e| vcore::machinery_error(&format!("{path:?}: {e}")));
    let r = if v.get("replay").is_some() { &v["replay"] } else { &v };
    let code = match r["mode"].as_str() {
        Some("model") => model::replay(r),
        Some("real") => conform::replay(r),
        m => vcore::machinery_error(&format!("replay file has unknown mode {m:?}")),
    };
    std::process::exit(code)
}
